#!/bin/bash
# usage: tools/verify_seed.sh <dir with patch.diff demo.py meta.json> <new-seed-id>
# Confirms a seeded change written by a sub-agent in a scratch worktree of /repo: the demo passes on the unchanged tree, fails with the
# change, and the repository's test-suite still passes with the change.  Only then it is stored as seeded/<id>/.
src=$1; id=$2; here=$(cd "$(dirname "$0")/.." && pwd)
wt=/tmp/vs_$id
git -C /repo worktree remove --force "$wt" >/dev/null 2>&1; rm -rf "$wt"
git -C /repo worktree add --detach -q "$wt" HEAD || exit 2
run_demo() { (cd "$wt" && PYTHONPATH="$wt/src:$wt/tests/tests_helpers" PYTHONDONTWRITEBYTECODE=1 timeout 300 /venv/bin/python "$src/demo.py" >/tmp/vs_$id.demo.log 2>&1); }
run_demo; clean=$?
if ! git -C "$wt" apply "$src/patch.diff" 2>/tmp/vs_$id.apply.log; then echo "$id: patch does not apply: $(head -3 /tmp/vs_$id.apply.log)"; git -C /repo worktree remove --force "$wt"; exit 1; fi
run_demo; changed=$?
suite=$(cd "$wt" && PYTHONPATH="$wt/src:$wt/tests/tests_helpers" PYTHONDONTWRITEBYTECODE=1 /venv/bin/python -m pytest -q -p no:cacheprovider --timeout=900 --continue-on-collection-errors -x 2>&1 | tail -1)
git -C /repo worktree remove --force "$wt"
echo "$id: demo clean=$clean changed=$changed suite: $suite"
if [ $clean -eq 0 ] && [ $changed -ne 0 ] && echo "$suite" | grep -q "passed" && ! echo "$suite" | grep -q "failed\|error"; then
  mkdir -p "$here/seeded/$id"; cp "$src/patch.diff" "$src/demo.py" "$here/seeded/$id/"
  /venv/bin/python - "$src/meta.json" "$here/seeded/$id/meta.json" "$id" "$suite" <<'PY'
import json, sys
try: m = json.load(open(sys.argv[1]))
except Exception as e: m = {"meta_unreadable": str(e)}
m["property"] = sys.argv[3].split("-")[0]
m["verified_by_me"] = {"scratch_worktree": "/tmp/vs_%s (removed afterwards)" % sys.argv[3], "demo_on_unchanged_tree": "exit 0",
                       "demo_with_change": "exit !=0", "repo_test_suite_with_change": sys.argv[4]}
json.dump(m, open(sys.argv[2], "w"), indent=1)
PY
  echo "$id: KEPT"
else
  echo "$id: REJECTED"
fi
