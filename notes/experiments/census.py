import ast, collections, itertools
from dataclasses import dataclass, field, make_dataclass
from typing import Any, List, Optional, NamedTuple, TypedDict
from adaptix import Retort, name_mapping, DebugTrail, ExtraForbid, ExtraSkip, ExtraKwargs, NameStyle
from adaptix._internal.morphing.model.basic_gen import CodeGenAccumulator
from adaptix.conversion import get_converter, link, link_constant, link_function, coercer, allow_unlinked_optional, from_param, ConversionRetort, impl_converter
nodes = collections.Counter(); names = collections.Counter(); nprog = 0; fails = collections.Counter()
def scan(src):
    global nprog
    nprog += 1
    t = ast.parse("def _m():\n" + "\n".join("    "+l for l in src.splitlines()))
    for n in ast.walk(t):
        nodes[type(n).__name__] += 1
        if isinstance(n, ast.Call):
            f = n.func
            names[f.id if isinstance(f, ast.Name) else '.'+f.attr if isinstance(f, ast.Attribute) else '?'] += 1
def mk(kind):
    if kind == 'dc':
        @dataclass
        class M:
            a: int
            b: Any
            c: str = 'x'
            d: List[int] = field(default_factory=list)
            e_: Optional[int] = None
            extra: dict = field(default_factory=dict)
        return M
    if kind == 'nt':
        class N(NamedTuple):
            a: int
            b: Any
            c: str = 'x'
            d: list = []
            e_: Optional[int] = None
            extra: dict = {}
        return N
    if kind == 'td':
        class T(TypedDict, total=False):
            a: int
            b: Any
            c: str
            d: List[int]
            e_: Optional[int]
            extra: dict
        return T
    class C:
        def __init__(self, a: int, b: Any, /, c: str = 'x', *, d: int = 0, e_: Optional[int] = None, extra: dict = None, **kw): pass
    return C
cfgs = [dict(), dict(map={'a': 'A'}), dict(map={'a': ('p', 'q'), 'b': ('p', 'r')}), dict(as_list=True), dict(map={'a': 0, 'b': 2, 'c': None, 'd': None, 'e_': None, 'extra': None}),
        dict(name_style=NameStyle.CAMEL), dict(skip=['c']), dict(only=['a','b']), dict(omit_default=True), dict(extra_in=ExtraForbid()), dict(extra_in=ExtraKwargs()),
        dict(extra_in='extra', extra_out='extra'), dict(extra_in=lambda o, e: None, extra_out=lambda o: {}), dict(map={'a': ('p', 0), 'b': ('p', 1)}), dict(extra_in=['extra', 'd'] ), dict(trim_trailing_underscore=False)]
for kind in ['dc','nt','td','ci']:
    M = mk(kind)
    for cfg in cfgs:
        for dt in DebugTrail:
            for sc in (True, False):
                acc = CodeGenAccumulator()
                r = Retort(recipe=[acc, name_mapping(M, **cfg)], debug_trail=dt, strict_coercion=sc)
                for what in ('get_loader','get_dumper'):
                    if kind=='ci' and what=='get_dumper': continue
                    try: getattr(r, what)(M)
                    except Exception as e: fails[(kind, what, type(e).__name__)] += 1
                for req, data in acc.list: scan(data.source)
print('programs', nprog); print('fails', dict(fails))
print('node types', sorted(nodes.items(), key=lambda x:-x[1]))
print('called names', sorted(names.items(), key=lambda x:-x[1]))
