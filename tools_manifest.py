#!/usr/bin/env python3
"""Regenerates MANIFEST.json from the table below (kept as code so that every edit stays schema-valid)."""
import json, os, sys
HERE = os.path.dirname(os.path.abspath(__file__))
BASELINE = json.load(open("/root/.vp/BASELINE.json")) if os.path.exists("/root/.vp/BASELINE.json") else {"cmd": ""}

CLAIMED = {}      # id -> dict(level_text, level_note, technique, design_ref)
NOT_APPLICABLE = {}

exec(open(os.path.join(HERE, "manifest_table.py")).read())

checks = []
for pid in sorted(CLAIMED):
    c = CLAIMED[pid]
    checks.append({
        "property_id": pid,
        "quick_cmd": f"./check {pid} --tier quick",
        "thorough_cmd": f"./check {pid} --tier thorough",
        "evidence_file": f"/verif/evidence/{pid}.json",
        "replay_cmd_template": "./check replay {path}",
        "engine": "pyvc",
        "level_claimed": {"category": c.get("category", "proof"), "text": c["level_text"], "design_ref": c.get("design_ref", "DESIGN.md §5")},
        "level_note": c["level_note"],
        "technique": c["technique"],
    })
m = {
    "version": 1,
    "setup_cmd": "./setup.sh",
    "hooks": {
        "guard": "ADAPTIX_VERIF",
        "enable": "none needed: contracts are side-car files under /verif/contracts keyed by (file, qualified name); /repo carries no hooks",
        "baseline_off_cmd": BASELINE["cmd"].replace("--junitxml=<file>", "").strip(),
        "source_commits": [],
        "add_only": True,
    },
    "engines": [{
        "name": "pyvc", "path": "/verif/pyvc",
        "serves_properties": sorted(CLAIMED),
        "kind_free_text": "self-written verification-condition generator over the real Python AST of /repo (re-extracted every run) + side-car contracts, discharged by z3 (cvc5 on unknowns); counter-models replayed natively on the real code",
    }],
    "checks": checks,
    "notes": "Contract-based deductive verification (see DESIGN.md). Exit codes: 0 held / 1 VIOLATION / 2 undecided / 3 checker error.",
    "not_applicable": [{"property_id": k, "reason": v} for k, v in sorted(NOT_APPLICABLE.items())],
}
json.dump(m, open(os.path.join(HERE, "MANIFEST.json"), "w"), indent=1)
try:
    import jsonschema
    jsonschema.validate(m, json.load(open("/root/.vp/MANIFEST.schema.json")))
    print("MANIFEST.json valid;", len(checks), "checks,", len(NOT_APPLICABLE), "not applicable")
except ImportError:
    print("written (jsonschema not available to validate)")
