# usage: .venv/bin/python tools/dbg_unit.py <substring of a contract name> [property]   -- runs matching units in-process and prints paths, obligations, failures, covers
import sys, os
sys.path.insert(0, '/verif'); sys.path.insert(0, '/repo/src')
from pyvc import runner
name = sys.argv[1]
REG, _ = runner.load_contracts()
names = [n for n in REG if name in n]
print(names)
for n in names:
    for d in runner.unit_worker((n, 10000, sys.argv[2] if len(sys.argv) > 2 else 'C01')):
        print(d['unit'], 'paths', d['paths'], 'err', d['error'], 'outcomes', d['outcomes'])
        print('  obls', [(o['clause'], o['status']) for o in d['obligations']])
        print('  failures', d['failures'])
        print('  covers', d['covers'], 'xcheck', str(d.get('xcheck'))[:300])
