"""Throwaway feasibility prototype (NOT framework code): closed-world `raises` obligation for real
scalar loaders extracted from /repo, via path-wise symbolic execution -> z3 -> concretise -> native replay."""
import ast, sys, z3, itertools, importlib, math
from fractions import Fraction
SRC = '/repo/src/adaptix/_internal/morphing/concrete_provider.py'
tree = ast.parse(open(SRC).read())
funcs = {n.name: n for n in tree.body if isinstance(n, ast.FunctionDef)}

# ---- theory: Val with observers
Val = z3.DeclareSort('Val'); Cls = z3.DeclareSort('Cls')
cls = z3.Function('cls', Val, Cls)
CL = {n: z3.Const('c_'+n, Cls) for n in ['int','bool','float','str','NoneType','list','Fraction','Decimal',
      'TypeError','ValueError','OverflowError','ZeroDivisionError','LoadError','TypeLoadError','ValueLoadError','Exception']}
sub = z3.Function('sub', Cls, Cls, z3.BoolSort())
fk = z3.Function('fkind', Val, z3.IntSort())   # 0 finite 1 nan 2 inf
strk = z3.Function('strkind', Val, z3.IntSort()) # abstract string classes: 0 numeric-ok, 1 garbage, 2 'x/0'
ax = [z3.Distinct(*CL.values())]
parents = {'TypeLoadError':'LoadError','ValueLoadError':'LoadError','LoadError':'Exception','TypeError':'Exception',
           'ValueError':'Exception','OverflowError':'Exception','ZeroDivisionError':'Exception'}
exc_names = list(parents)+['Exception']
def anc(n):
    r=[n]
    while n in parents: n=parents[n]; r.append(n)
    return r
for a in exc_names:
    for b in exc_names:
        ax.append(sub(CL[a],CL[b]) == (b in anc(a)))
# builtin outcome contracts: list of (guard(x), outcome) ; outcome = ('ret',) or ('raise', clsname)
def c_int(x):
    return [(cls(x)==CL['int'],('ret',)),(cls(x)==CL['bool'],('ret',)),
            (z3.And(cls(x)==CL['float'],fk(x)==0),('ret',)),(z3.And(cls(x)==CL['float'],fk(x)==1),('raise','ValueError')),
            (z3.And(cls(x)==CL['float'],fk(x)==2),('raise','OverflowError')),
            (z3.And(cls(x)==CL['str'],strk(x)==0),('ret',)),(z3.And(cls(x)==CL['str'],strk(x)!=0),('raise','ValueError')),
            (z3.Or(cls(x)==CL['NoneType'],cls(x)==CL['list']),('raise','TypeError')),
            (z3.Or(cls(x)==CL['Fraction'],cls(x)==CL['Decimal']),('ret',))]
def c_Fraction(x):
    return [(z3.Or(cls(x)==CL['int'],cls(x)==CL['bool'],cls(x)==CL['Fraction'],cls(x)==CL['Decimal']),('ret',)),
            (z3.And(cls(x)==CL['float'],fk(x)==0),('ret',)),(z3.And(cls(x)==CL['float'],fk(x)==1),('raise','ValueError')),
            (z3.And(cls(x)==CL['float'],fk(x)==2),('raise','OverflowError')),
            (z3.And(cls(x)==CL['str'],strk(x)==0),('ret',)),(z3.And(cls(x)==CL['str'],strk(x)==1),('raise','ValueError')),
            (z3.And(cls(x)==CL['str'],strk(x)==2),('raise','ZeroDivisionError')),
            (z3.Or(cls(x)==CL['NoneType'],cls(x)==CL['list']),('raise','TypeError'))]
BUILTIN = {'int': c_int, 'Fraction': c_Fraction}
inD = lambda x: z3.Or(*[cls(x)==CL[n] for n in ['int','bool','float','str','NoneType','list','Fraction','Decimal']])

# ---- tiny path enumerator: returns list of (pathcond, outcome) with outcome ('ret',) | ('raise', clsname)
def run_block(stmts, env, pc, handlers):
    """yield (pc, outcome|None, env); None = fallthrough"""
    if not stmts: yield pc, None, env; return
    s, rest = stmts[0], stmts[1:]
    for pc1, out, env1 in run_stmt(s, env, pc):
        if out is None: yield from run_block(rest, env1, pc1, handlers)
        else: yield pc1, out, env1
def eval_call(node, env):
    """returns list of (guard, outcome) for a call expression whose value we don't track"""
    if isinstance(node, ast.Call) and isinstance(node.func, ast.Name) and node.func.id in BUILTIN:
        return BUILTIN[node.func.id](env[node.args[0].id])
    if isinstance(node, ast.Call) and isinstance(node.func, ast.Name) and node.func.id.endswith('LoadError'):
        return [(z3.BoolVal(True), ('val', node.func.id))]
    if isinstance(node, ast.Name): return [(z3.BoolVal(True), ('ret',))]
    raise NotImplementedError(ast.dump(node))
def cond(node, env):
    # type(data) is int / type(data) in (str, Fraction) / e_str.startswith(...)
    if isinstance(node, ast.Compare) and isinstance(node.left, ast.Call) and getattr(node.left.func,'id','')=='type':
        x = env[node.left.args[0].id]; op = node.ops[0]; rhs = node.comparators[0]
        if isinstance(op, ast.Is): return cls(x)==CL[rhs.id]
        if isinstance(op, ast.In): return z3.Or(*[cls(x)==CL[e.id] for e in rhs.elts])
    if isinstance(node, ast.Call) and isinstance(node.func, ast.Attribute) and node.func.attr=='startswith':
        return z3.FreshBool('startswith')
    raise NotImplementedError(ast.dump(node))
def run_stmt(s, env, pc):
    if isinstance(s, ast.Return):
        for g, out in eval_call(s.value, env): yield z3.And(pc, g), (out if out[0]=='raise' else ('ret',)), env
    elif isinstance(s, ast.Raise):
        for g, out in eval_call(s.exc, env): yield z3.And(pc, g), ('raise', out[1]), env
    elif isinstance(s, ast.If):
        c = cond(s.test, env)
        yield from run_block(s.body, env, z3.And(pc, c), None)
        yield from run_block(s.orelse, env, z3.And(pc, z3.Not(c)), None)
    elif isinstance(s, ast.Assign):
        yield pc, None, env
    elif isinstance(s, ast.Try):
        for pc1, out, env1 in run_block(s.body, env, pc, None):
            if out is not None and out[0]=='raise':
                caught = False
                for h in s.handlers:
                    names = [h.type.id] if isinstance(h.type, ast.Name) else [e.id for e in h.type.elts]
                    if any(n in anc(out[1]) for n in names):
                        yield from run_block(h.body, env1, pc1, None); caught=True; break
                if not caught: yield pc1, out, env1
            else: yield pc1, out, env1
    else: raise NotImplementedError(ast.dump(s))

WITNESS = {('float',1): float('nan'), ('float',2): float('inf'), ('float',0): 1.5, ('str',0):'12', ('str',1):'zz', ('str',2):'1/0',
           ('int',None): 7, ('bool',None): True, ('NoneType',None): None, ('list',None): [], ('Fraction',None): Fraction(1,2)}
mod = importlib.import_module('adaptix._internal.morphing.concrete_provider')
from adaptix.load_error import LoadError
for fname in ['int_strict_coercion_loader','int_lax_coercion_loader','fraction_strict_coercion_loader','fraction_lax_coercion_loader']:
    f = funcs[fname]; data = z3.Const('data', Val)
    n_obl = 0
    for pc, out, _ in run_block(f.body, {'data': data}, inD(data), None):
        if out[0] != 'raise': continue
        n_obl += 1
        s = z3.Solver(); s.add(*ax); s.add(pc); s.add(z3.Not(sub(CL[out[1]], CL['LoadError'])))
        r = s.check()
        if r == z3.sat:
            m = s.model(); cname = [n for n,c in CL.items() if m.eval(cls(data)).eq(m.eval(c))][0]
            kind = m.eval(fk(data), model_completion=True).as_long() if cname=='float' else (m.eval(strk(data), model_completion=True).as_long() if cname=='str' else None)
            if cname=='str' and kind not in (0,1,2): kind = 1
            w = WITNESS[(cname, kind)]
            try: getattr(mod, fname)(w); native='returned'
            except LoadError as e: native='LoadError'
            except Exception as e: native=type(e).__name__
            print(f'{fname}: obligation raises-closed FAILS: escaping {out[1]}; witness {w!r}; native -> {native}', '(CONFIRMED)' if native==out[1] else '(not confirmed)')
    print(f'{fname}: {n_obl} raise-path obligations checked')
