import ast, pathlib, collections, json, builtins
ROOT = pathlib.Path('/repo/src/adaptix/_internal')
FILES = """retort/routers.py retort/request_bus.py retort/builtin_mediator.py retort/searching_retort.py retort/operating_retort.py retort/base_retort.py
provider/provider_wrapper.py provider/located_request.py provider/loc_stack_filtering.py provider/location.py provider/facade/provider.py provider/value_provider.py provider/overlay_schema.py provider/shape_provider.py
datastructures.py struct_trail.py utils.py name_style.py
morphing/concrete_provider.py morphing/generic_provider.py morphing/iterable_provider.py morphing/dict_provider.py morphing/constant_length_tuple_provider.py morphing/enum_provider.py morphing/provider_template.py morphing/facade/retort.py morphing/facade/provider.py
morphing/model/loader_gen.py morphing/model/dumper_gen.py morphing/model/basic_gen.py morphing/model/loader_provider.py morphing/model/dumper_provider.py morphing/model/crown_definitions.py
morphing/name_layout/component.py morphing/name_layout/crown_builder.py morphing/name_layout/name_mapping.py morphing/name_layout/provider.py
code_tools/utils.py code_tools/cascade_namespace.py code_tools/name_sanitizer.py code_tools/code_builder.py code_tools/compiler.py code_tools/ast_templater.py
conversion/coercer_provider.py conversion/linking_provider.py conversion/model_coercer_provider.py conversion/converter_provider.py conversion/broaching/code_generator.py conversion/request_filtering.py conversion/facade/retort.py conversion/facade/provider.py conversion/policy_provider.py
type_tools/normalize_type.py type_tools/implicit_params.py type_tools/generic_resolver.py type_tools/norm_utils.py type_tools/basic_utils.py
model_tools/definitions.py integrations/sqlalchemy/orm.py""".split()
units = []; calls = collections.Counter()
def visit(node, qual, file):
    for ch in ast.iter_child_nodes(node):
        if isinstance(ch, (ast.FunctionDef, ast.Lambda)):
            name = ch.name if isinstance(ch, ast.FunctionDef) else '<lambda>'
            q = f"{qual}.{name}" if qual else name
            body_nodes = list(ast.walk(ch))
            # exclude nested function bodies for counting? keep simple: count all
            n_loops = sum(isinstance(n,(ast.For,ast.While)) for n in body_nodes)
            n_try = sum(isinstance(n, ast.Try) for n in body_nodes)
            n_raise = sum(isinstance(n, ast.Raise) for n in body_nodes)
            n_yield = sum(isinstance(n,(ast.Yield,ast.YieldFrom)) for n in body_nodes)
            nested = sum(isinstance(n,(ast.FunctionDef,ast.Lambda)) for n in body_nodes) - 1
            lines = (ch.end_lineno - ch.lineno + 1)
            units.append(dict(file=file, qual=q, line=ch.lineno, lines=lines, loops=n_loops, tries=n_try, raises=n_raise, yields=n_yield, nested=nested))
            for n in body_nodes:
                if isinstance(n, ast.Call):
                    f = n.func
                    if isinstance(f, ast.Name): calls[f.id]+=1
                    elif isinstance(f, ast.Attribute): calls['.'+f.attr]+=1
            visit(ch, q + ('.<locals>' if isinstance(ch, ast.FunctionDef) else ''), file)
        elif isinstance(ch, ast.ClassDef):
            visit(ch, f"{qual}.{ch.name}" if qual else ch.name, file)
        else:
            visit(ch, qual, file)
for f in FILES:
    t = ast.parse((ROOT/f).read_text())
    visit(t, '', f)
byfile = collections.Counter(u['file'] for u in units)
print('files', len(FILES), 'units', len(units), 'with loops', sum(u['loops']>0 for u in units), 'with try', sum(u['tries']>0 for u in units), 'generators', sum(u['yields']>0 for u in units))
for f in FILES: print(f"{byfile[f]:4d}  {f}")
json.dump(units, open('units.json','w'), indent=1)
bi = [(n,c) for n,c in calls.most_common() if not n.startswith('.') and hasattr(builtins, n)]
print('builtin calls:', bi)
print('top attr calls:', [(n,c) for n,c in calls.most_common(80) if n.startswith('.')])
