"""Contracts for provider/loc_stack_filtering.py and provider/located_request.py (C10).

Every checker is a predicate on (mediator, loc_stack).  Inner checkers are arbitrary objects whose `check_loc_stack` is a
total deterministic predicate (discipline PRED) — which is what the property quantifies over: "pointwise boolean
operations", "a P chain matches exactly the location stacks whose tail satisfies its elements in order".

  * LocStackEndChecker      result <=> len(stack) >= n  and  for every k < n: checker[n-1-k] accepts stack[:len-k]
                            (unbounded in n and in the stack; loop invariant)
  * Or / And                result <=> exists / forall over the members (unbounded in the number of members)
  * Xor                     parity for 2 and 3 members (the n-ary parity needs a recursive definition: bounded arity)
  * Invert                  result <=> not inner
  * LastLocChecker          result <=> last location castable to the expected kind and the leaf predicate holds
  * leaf predicates         field id equality / full regex match / origin equality / generic position
  * string predicates       identifier -> exact field-name checker, anything else -> regex checker with that pattern
  * bound(pred, provider)   the resulting checker is the conjunction (AND) of pred's checker and the provider's own one

The composition over live typing objects (`create_loc_stack_checker` for classes / generics, the P builder and its documented
identities) is reflection: it is decided by the bounded enumeration of props/C10.py, labelled bounded.
"""
import itertools
import re

from pyvc.contracts import LoopSpec, contract

F = "provider/loc_stack_filtering.py"
CHK = "mcall('check_loc_stack', {c}, mediator, {s})"
BOOL = "(result is True or result is False)"


class _Scripted:
    """a real LocStackChecker whose answer depends on the length of the stack it is shown (so the position matters)"""

    def __init__(self, accept_lens):
        self.accept = frozenset(accept_lens)

    def __repr__(self):
        return f"S{sorted(self.accept)}"


def _mk_scripted(mod, accept):
    cls = getattr(_mk_scripted, "cls", None)
    if cls is None:
        class Scripted(mod.LocStackChecker):
            def __init__(self, accept_lens):
                self.accept = frozenset(accept_lens)

            def check_loc_stack(self, mediator, loc_stack):
                return len(loc_stack) in self.accept

            def __repr__(self):
                return f"S{sorted(self.accept)}"
        cls = _mk_scripted.cls = Scripted
    return cls(accept)


def _stacks(mod, upto=4):
    from adaptix._internal.provider.location import TypeHintLoc
    return [mod.LocStack(*[TypeHintLoc(type=int)] * n) for n in range(0, upto + 1)]


ACCEPTS = [(), (1,), (2,), (3,), (1, 2, 3, 4), (2, 3), (4,)]


# ---------------------------------------------------------------------------------------------- the P chain
def _end_scenarios(mod):
    out = []
    for n in range(0, 4):
        for combo in itertools.product(ACCEPTS[:5], repeat=n):
            for st in _stacks(mod):
                def factory(combo=combo, st=st):
                    self = mod.LocStackEndChecker([_mk_scripted(mod, a) for a in combo])
                    return mod.LocStackEndChecker.check_loc_stack, {"self": self, "mediator": None, "loc_stack": st}
                out.append((f"chain{[list(c) for c in combo]}|depth{len(st)}", factory))
    return out


CK = "self.loc_stack_checkers"
ELEM = CHK.format(c=f"{CK}[len({CK}) - 1 - k]", s="mcall('reversed_slice', loc_stack, k)")
TAIL = f"(len(loc_stack) >= len({CK}) and forall(lambda k: implies(0 <= k and k < len({CK}), {ELEM})))"
contract(F, "LocStackEndChecker.check_loc_stack", props=["C10"],
         params={"self": ("obj", lambda m: m.LocStackEndChecker, {"loc_stack_checkers": "sym"}), "mediator": "sym", "loc_stack": "sym"},
         methods={"check_loc_stack": "PRED", "reversed_slice": "VAL"},
         post={"returns-bool": f"returned and {BOOL}",
               "tail-sound": f"implies(returned and result is True, {TAIL})",
               "tail-complete": f"implies(returned and result is False, not {TAIL})"},
         loops={0: LoopSpec(inv=[f"forall(lambda k: implies(0 <= k and k < _i, {ELEM}))"])},
         scenarios=_end_scenarios, cover=["returned and result is True", "returned and result is False"],
         notes=["reversed_slice(k) is the stack without its last k locations (ImmutableStack.reversed_slice, exercised natively)"])


# ---------------------------------------------------------------------------------------------- boolean combinators
def _bin_scenarios(cls_name, arities=(1, 2, 3)):
    def gen(mod):
        out = []
        for n in arities:
            for combo in itertools.product(ACCEPTS[:4], repeat=n):
                for st in _stacks(mod, 3):
                    def factory(combo=combo, st=st):
                        cls = getattr(mod, cls_name)
                        self = cls([_mk_scripted(mod, a) for a in combo])
                        return cls.check_loc_stack, {"self": self, "mediator": None, "loc_stack": st}
                    out.append((f"{cls_name}{[list(c) for c in combo]}|depth{len(st)}", factory))
        return out
    return gen


MEM = "self._loc_stack_checkers"
M_AT = CHK.format(c=f"{MEM}[k]", s="loc_stack")
for cls_name, quant in (("OrLocStackChecker", f"exists(lambda k: 0 <= k and k < len({MEM}) and {M_AT})"),
                        ("AndLocStackChecker", f"forall(lambda k: implies(0 <= k and k < len({MEM}), {M_AT}))")):
    contract(F, "BinOperatorLSC.check_loc_stack", name=f"{F}:BinOperatorLSC.check_loc_stack[{cls_name}]", props=["C10"],
             params={"self": ("obj", (lambda m, n=cls_name: getattr(m, n)), {"_loc_stack_checkers": "sym"}), "mediator": "sym",
                     "loc_stack": "sym"},
             methods={"check_loc_stack": "PRED"},
             post={"returns-bool": f"returned and {BOOL}",
                   "pointwise-sound": f"implies(returned and result is True, {quant})",
                   "pointwise-complete": f"implies(returned and result is False, not {quant})"},
             scenarios=_bin_scenarios(cls_name), cover=["returned and result is True", "returned and result is False"])

for n in (2, 3):
    parity = " != ".join(CHK.format(c=f"{MEM}[{i}]", s="loc_stack") for i in range(n))
    if n == 3:
        a, b, c = (CHK.format(c=f"{MEM}[{i}]", s="loc_stack") for i in range(3))
        parity = f"(({a} != {b}) != {c})"
    contract(F, "BinOperatorLSC.check_loc_stack", name=f"{F}:BinOperatorLSC.check_loc_stack[XorLocStackChecker-{n}]", props=["C10"],
             params={"self": ("obj", lambda m: m.XorLocStackChecker, {"_loc_stack_checkers": ("tuple", ["sym"] * n)}),
                     "mediator": "sym", "loc_stack": "sym"},
             methods={"check_loc_stack": "PRED"},
             post={"returns-bool": f"returned and {BOOL}",
                   "parity": f"implies(returned, (result is True) == ({parity}))"},
             scenarios=_bin_scenarios("XorLocStackChecker", (n,)), bounded_ok=True,
             notes=[f"bounded: {n} members"])


def _inv_scenarios(mod):
    out = []
    for a in ACCEPTS[:4]:
        for st in _stacks(mod, 3):
            def factory(a=a, st=st):
                return mod.InvertLSC.check_loc_stack, {"self": mod.InvertLSC(_mk_scripted(mod, a)), "mediator": None, "loc_stack": st}
            out.append((f"not{list(a)}|depth{len(st)}", factory))
    return out


contract(F, "InvertLSC.check_loc_stack", props=["C10"],
         params={"self": ("obj", lambda m: m.InvertLSC, {"_lsc": "sym"}), "mediator": "sym", "loc_stack": "sym"},
         methods={"check_loc_stack": "PRED"}, scenarios=_inv_scenarios,
         post={"returns-bool": f"returned and {BOOL}",
               "negation": f"implies(returned, (result is True) == (not {CHK.format(c='self._lsc', s='loc_stack')}))"})


# ---------------------------------------------------------------------------------------------- last-location checkers
def _locs(mod):
    from adaptix._internal.model_tools.definitions import NoDefault, create_attr_accessor
    from adaptix._internal.provider import location as L
    base = {"default": NoDefault(), "metadata": {}}
    out = []
    for fid in ("a", "ab", "abc", "v1", "v12", "user_id", "id", "b"):
        out += [L.FieldLoc(type=int, field_id=fid, **base), L.InputFieldLoc(type=str, field_id=fid, is_required=True, **base),
                L.OutputFieldLoc(type=int, field_id=fid, accessor=create_attr_accessor(fid, is_required=True), **base)]
    out += [L.TypeHintLoc(type=int), L.TypeHintLoc(type=str), L.TypeHintLoc(type=list[int]), L.TypeHintLoc(type=bool),
            L.GenericParamLoc(type=int, generic_pos=0), L.GenericParamLoc(type=str, generic_pos=1)]
    return out


def _last_scenarios(make_selves):
    def gen(mod):
        out = []
        for sname, mk in make_selves(mod):
            for loc in _locs(mod):
                for depth in (1, 2):
                    def factory(mk=mk, loc=loc, depth=depth):
                        from adaptix._internal.provider.location import TypeHintLoc
                        st = mod.LocStack(*([TypeHintLoc(type=dict)] * (depth - 1)), loc)
                        return mod.LastLocChecker.check_loc_stack, {"self": mk(), "mediator": None, "loc_stack": st}
                    out.append((f"{sname}|{type(loc).__name__}:{getattr(loc, 'field_id', getattr(loc, 'type', None))}|depth{depth}", factory))
        return out
    return gen


LAST = "loc_stack.last"
CAST = "mcall('is_castable', loc_stack.last, {k})"


def last_contract(cls_name, fields, kind, body, selves, **kw):
    contract(F, "LastLocChecker.check_loc_stack", name=f"{F}:LastLocChecker.check_loc_stack[{cls_name}]", props=["C10"],
             params={"self": ("obj", (lambda m, n=cls_name: getattr(m, n)), fields), "mediator": "sym", "loc_stack": "sym"},
             methods={"is_castable": "PRED", **kw.pop("methods", {})},
             post={"raises-nothing": "returned",
                   "only-its-kind-of-location": f"implies(returned and truthy(result), {CAST.format(k=kind)})",
                   "leaf-predicate": f"implies(returned and {CAST.format(k=kind)}, truthy(result) == ({body}))"},
             scenarios=_last_scenarios(selves), **kw)


last_contract("ExactFieldNameLSC", {"field_id": "sym"}, "FieldLoc", f"py_eq(self.field_id, {LAST}.field_id)",
              lambda m: [(f"name={n}", (lambda n=n: m.ExactFieldNameLSC(n))) for n in ("a", "ab", "user_id")])

REGEXES = ["a|ab", r"v\d+?", "a.*", ".*_id", "ab|a", "[a-z]+", "x?", "(a)(b)?", "a$|ab"]
last_contract("ReFieldNameLSC", {"pattern": "sym"}, "FieldLoc", f"not (mcall('fullmatch', self.pattern, {LAST}.field_id) is None)",
              lambda m: [(f"re={r}", (lambda r=r: m.ReFieldNameLSC(re.compile(r)))) for r in REGEXES],
              methods={"fullmatch": "VAL"},
              notes=["`pattern.fullmatch` is the documented full regex match: the contract names exactly that method"])

last_contract("GenericParamLSC", {"pos": "sym"}, "GenericParamLoc", f"py_eq({LAST}.generic_pos, self.pos)",
              lambda m: [(f"pos={p}", (lambda p=p: m.GenericParamLSC(p))) for p in (0, 1)])

NORM_OK = f"opaque_ok('normalize_type', {LAST}.type)"
NORM = f"opaque_res('normalize_type', {LAST}.type)"
OPQ = {"normalize_type": (lambda m: m.normalize_type, [ValueError])}


def _type_selves(cls_name):
    def mk(m):
        from adaptix._internal.type_tools import normalize_type
        if cls_name == "ExactTypeLSC":
            return [(f"norm={t}", (lambda t=t: m.ExactTypeLSC(normalize_type(t)))) for t in (int, list[int], bool)]
        if cls_name == "ExactOriginLSC":
            return [(f"origin={t}", (lambda t=t: m.ExactOriginLSC(t))) for t in (int, list, bool)]
        import collections.abc as cabc
        return [(f"sub={t}", (lambda t=t: m.OriginSubclassLSC(t))) for t in (cabc.Sized, int)]
    return mk


last_contract("ExactTypeLSC", {"norm": "sym"}, "TypeHintLoc", f"{NORM_OK} and py_eq({NORM}, self.norm)", _type_selves("ExactTypeLSC"),
              opaque=OPQ)
last_contract("ExactOriginLSC", {"origin": "sym"}, "TypeHintLoc", f"{NORM_OK} and py_eq({NORM}.origin, self.origin)",
              _type_selves("ExactOriginLSC"), opaque=OPQ)
last_contract("OriginSubclassLSC", {"type_": "sym"}, "TypeHintLoc",
              f"{NORM_OK} and truthy(opaque_res('is_subclass_soft', {NORM}.origin, self.type_))", _type_selves("OriginSubclassLSC"),
              opaque={**OPQ, "is_subclass_soft": (lambda m: m.is_subclass_soft, [])})


# ---------------------------------------------------------------------------------------------- string predicates
def _same_pattern(r, p):
    return type(r).__name__ == "ReFieldNameLSC" and r.pattern.pattern == p and r.pattern.flags == re.compile(p).flags


contract(F, "_create_non_type_hint_loc_stack_checker", name=f"{F}:_create_non_type_hint_loc_stack_checker[str]", props=["C10"],
         params={"pred": "D"}, prefer_shadow=True, requires=["py(lambda p: isinstance(p, str), pred)"],
         consts={"SAME_PATTERN": _same_pattern, "re_error": re.error},
         post={"identifier-exact": ("implies(returned and py(lambda p: p.isidentifier(), pred), "
                                    "py(lambda p, r: type(r).__name__ == 'ExactFieldNameLSC' and type(r.field_id) is type(p) and r.field_id == p, pred, result))"),
               "otherwise-regex": ("implies(returned and not py(lambda p: p.isidentifier(), pred), "
                                   "py(lambda p, r: SAME_PATTERN(r, p), pred, result))"),
               # the property is silent about the exception raised for a string that is not a valid regex
               "raises-only-non-identifier": "implies(raised, py(lambda p: not p.isidentifier(), pred))"},
         cover=["returned and py(lambda p: p.isidentifier(), pred)", "returned and not py(lambda p: p.isidentifier(), pred)"],
         notes=["an identifier used as a regex fully matches exactly itself, so the exact checker is the same predicate"])


# ---------------------------------------------------------------------------------------------- bound(pred, provider)
FL = "provider/located_request.py"


def _bound_scenarios(req_located, checker_kind):
    def gen(mod):
        from adaptix._internal.provider.essential import Request
        from adaptix._internal.provider.request_checkers import AlwaysTrueRequestChecker

        def factory():
            own = _mk_scripted(__import__("adaptix._internal.provider.loc_stack_filtering", fromlist=["x"]), (1,))
            inner = _mk_scripted(__import__("adaptix._internal.provider.loc_stack_filtering", fromlist=["x"]), (1, 2))
            self = mod.LocStackBoundingProvider(own, None)
            checker = {"always": AlwaysTrueRequestChecker(), "located": mod.LocatedRequestChecker(inner)}[checker_kind]
            return (mod.LocStackBoundingProvider._process_request_checker,
                    {"self": self, "request_cls": mod.LocatedRequest if req_located else Request, "checker": checker})
        return [(f"{'located' if req_located else 'plain'}|{checker_kind}", factory)]
    return gen


def _lsf():
    import adaptix._internal.provider.loc_stack_filtering as x
    return x


BSELF = ("obj", lambda m: m.LocStackBoundingProvider, {"_loc_stack_checker": ("obj", lambda m: m.AnyLocStackChecker, {}), "_provider": "sym"})
for req_located in (True, False):
    req = ("constf", (lambda m: m.LocatedRequest)) if req_located else ("constf", (lambda m: m.Request))
    for ck, ckparam in (("always", ("obj", lambda m: m.AlwaysTrueRequestChecker, {})),
                        ("located", ("obj", lambda m: m.LocatedRequestChecker,
                                     {"loc_stack_checker": ("obj", lambda m: _lsf().InvertLSC, {"_lsc": "sym"})}))):
        post = {"raises-nothing": "returned"}
        if not req_located:
            post["untouched"] = "implies(returned, result is checker)"
        elif ck == "always":
            post["bound-only"] = ("implies(returned, type(result) is LocatedRequestChecker and "
                                  "result.loc_stack_checker is self._loc_stack_checker)")
        else:
            post["conjunction"] = ("implies(returned, type(result) is LocatedRequestChecker and "
                                   "type(result.loc_stack_checker) is AndLocStackChecker and "
                                   "len(result.loc_stack_checker._loc_stack_checkers) == 2 and "
                                   "result.loc_stack_checker._loc_stack_checkers[0] is self._loc_stack_checker and "
                                   "result.loc_stack_checker._loc_stack_checkers[1] is checker.loc_stack_checker)")
        contract(FL, "LocStackBoundingProvider._process_request_checker",
                 name=f"{FL}:LocStackBoundingProvider._process_request_checker[{'located' if req_located else 'plain'}-{ck}]",
                 props=["C10"], params={"self": BSELF, "request_cls": req, "checker": ckparam}, post=post,
                 consts={"AndLocStackChecker": _lsf().AndLocStackChecker},
                 scenarios=_bound_scenarios(req_located, ck),
                 notes=["bound(pred, provider): a located request must satisfy pred AND the provider's own predicate "
                        "(AndLocStackChecker is proved to be the pointwise conjunction above)"])
