"""Contracts for datastructures.py (C02: “union dumped by runtime class with nearest-ancestor fallback … the selected
class that appears first in .mro()”)."""
from pyvc.contracts import LoopSpec, contract

F = "datastructures.py"
MRO = "key.__mro__"
HAS = f"has_key(self._mapping, {MRO}[{{j}}])"


def _dispatch_scenarios(mod):
    class Event:
        pass

    class Audited(Event):
        pass

    class Timed(Event):
        pass

    class AuditedTimed(Audited, Timed):
        pass

    class Other:
        pass
    out = []
    import itertools
    classes = [Event, Audited, Timed, AuditedTimed, Other, object]
    for r in range(0, 4):
        for keys in itertools.combinations(classes[:4] + [object], r):
            for probe in classes:
                def factory(keys=keys, probe=probe):
                    d = mod.ClassDispatcher({k: f"v_{k.__name__}" for k in keys})
                    return mod.ClassDispatcher.dispatch, {"self": d, "key": probe}
                out.append((f"{[k.__name__ for k in keys]}<-{probe.__name__}", factory))
    return out


contract(F, "ClassDispatcher.dispatch", props=["C02"],
         params={"self": ("obj", lambda m: m.ClassDispatcher, {"_mapping": "dict"}), "key": "sym"},
         post={
             "first-in-mro": (f"implies(returned, exists(lambda k: 0 <= k and k < len({MRO}) and {HAS.format(j='k')} and "
                              f"result is self._mapping[{MRO}[k]] and forall(lambda j: implies(0 <= j and j < k, not {HAS.format(j='j')}))))"),
             "key-error-iff-none": (f"implies(raised, type(exc) is KeyError and forall(lambda j: implies(0 <= j and j < len({MRO}), "
                                    f"not {HAS.format(j='j')})))"),
         },
         loops={0: LoopSpec(inv=[f"forall(lambda j: implies(0 <= j and j < _i, not {HAS.format(j='j')}))"])},
         scenarios=_dispatch_scenarios, cover=["returned", "raised"])
