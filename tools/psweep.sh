#!/bin/bash
# usage: tools/psweep.sh <seed-id> [property]
# Like sweep_seed.sh, but works on a scratch git worktree of /repo under /tmp (VERIF_REPO) and writes evidence / replays to a scratch
# directory (VERIF_OUT), so several seeded changes can be swept at the same time and neither /repo nor the committed evidence is
# touched.  The worktree and the scratch output are removed afterwards.  Only for testing the machinery: registered checks run on /repo.
id=$1; prop=${2:-${id%%-*}}; here=$(cd "$(dirname "$0")/.." && pwd)
wt=/tmp/psw_${id}_$prop; out=/tmp/psw_out_${id}_$prop
git -C /repo worktree remove --force "$wt" >/dev/null 2>&1; rm -rf "$wt" "$out"
git -C /repo worktree add --detach -q "$wt" HEAD || { echo "$id: worktree failed"; exit 2; }
if ! git -C "$wt" apply --check "$here/seeded/$id/patch.diff" 2>/dev/null; then
  echo "$id: STALE patch"; git -C /repo worktree remove --force "$wt"; exit 0
fi
git -C "$wt" apply "$here/seeded/$id/patch.diff"
mkdir -p "$out"
res=$(cd "$here" && VERIF_REPO="$wt" VERIF_OUT="$out" ./check "$prop" 2>&1); code=$?
nv=$(echo "$res" | grep -c "^VIOLATION")
echo "$id under $prop: exit=$code violations=$nv | $(echo "$res" | grep "^VIOLATION" | head -1 | sed 's/.*replay=.*\/replays\///' | cut -c1-140)"
[ -n "${PSWEEP_KEEP_LOG:-}" ] && echo "$res" > "/tmp/psw_log_${id}_$prop.txt"
git -C /repo worktree remove --force "$wt"; rm -rf "$out"
