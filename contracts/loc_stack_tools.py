"""Contract for provider/loc_stack_tools.py:find_owner_with_field (C01: `typing.Self` resolves to the NEAREST enclosing model,
so a Self-typed field of a nested model round-trips as that model and not as the outermost one)."""
from pyvc.contracts import LoopSpec, contract

F = "provider/loc_stack_tools.py"
CAST = "mcall('is_castable', stack[{i}], FieldLoc)"


def _scenarios(mod):
    import itertools

    from adaptix._internal.model_tools.definitions import NoDefault
    from adaptix._internal.provider.loc_stack_filtering import LocStack
    from adaptix._internal.provider.location import FieldLoc, TypeHintLoc
    out = []
    for n in range(0, 5):
        for kinds in itertools.product("TF", repeat=n):
            def factory(kinds=kinds):
                locs = [TypeHintLoc(type=(int, i)) if k == "T" else FieldLoc(type=(str, i), field_id=f"f{i}", default=NoDefault(), metadata={})
                        for i, k in enumerate(kinds)]
                return mod.find_owner_with_field, {"stack": LocStack(*locs)}
            out.append(("".join(kinds) or "empty", factory))
    return out


NEAREST = (f"exists(lambda k: 1 <= k and k < len(stack) and {CAST.format(i='k')} and result[0] is stack[k - 1] and result[1] is stack[k] "
           f"and forall(lambda j: implies(k < j and j < len(stack), not {CAST.format(i='j')})))")
contract(F, "find_owner_with_field", props=["C01"], params={"stack": "sym"}, methods={"is_castable": "PRED"},
         post={"nearest-owner": f"implies(returned, {NEAREST})",
               "none-iff": (f"implies(raised, type(exc) is ValueError and "
                            f"forall(lambda j: implies(1 <= j and j < len(stack), not {CAST.format(i='j')})))")},
         loops={0: LoopSpec(inv=[f"forall(lambda j: implies(len(stack) - _i <= j and j < len(stack) and 1 <= j, not {CAST.format(i='j')}))"])},
         scenarios=_scenarios, cover=["returned", "raised"],
         notes=["`pairs` is itertools.pairwise on the interpreter in use (>= 3.10); the stack is a sequence"])
