"""Driver of GENPROG: verifies every generated loader of the family against the instantiated contract and replays
failures natively on the real compiled loader."""
from __future__ import annotations

import itertools
import multiprocessing as mp
import os
import random
import time
import traceback

import z3

from pyvc.values import Unsupported
from pyvc.verify import Obl, discharge

from .layout_spec import DictNode, Leaf, ListNode


# ------------------------------------------------------------------------------------------ proof side
def _install_factory_handlers(interp, case):
    """a call of a stateful default factory of the model yields a value tagged with the factory: `Expect.default_ok` then knows the
    value passed to the constructor was produced by a call made DURING this load (a literal inlined at generation time is not)"""
    from pyvc.values import V
    from .family import LoggingFactory
    for f in case.fields:
        if f.default is not None and f.default[0] == "factory" and isinstance(f.default[1], LoggingFactory):
            def handler(interp_, st, args, kwargs, fac=f.default[1]):
                v = V("const", d=("result of a call of the stateful factory", id(fac)))
                v.tag = ("factory_call", fac)
                yield st, ("ok", v)
            interp.handlers[f.default[1]] = handler


def verify_case(job):
    idx, tier, seed = job[:3]
    group = job[3] if len(job) > 3 else "base"
    try:
        from pyvc import extract
        extract.ensure_repo_on_path()
        from . import family
        case = family.loader_family(tier, group)[idx].build()
        return _verify_case(case, tier, seed)
    except Exception:  # noqa: BLE001
        return {"label": f"case#{idx}", "error": ("crash", traceback.format_exc()[-1500:]), "obls": [], "failures": [],
                "paths": 0, "time": 0, "solver_time": 0, "assumptions": [], "src_sha": None, "xcheck": None}


def _verify_case(case, tier, seed):
    import hashlib

    from .expect import Expect
    from .run import LoaderRun, capture
    t0 = time.time()
    out = {"label": case.label, "error": None, "obls": [], "failures": [], "paths": 0, "assumptions": [], "xcheck": None}
    try:
        cap = capture(case)
    except Exception as e:  # noqa: BLE001
        out["error"] = ("creation", f"{type(e).__name__}: {str(e)[:300]}")
        out["time"] = time.time() - t0
        out["solver_time"] = 0
        out["src_sha"] = None
        return out
    src = cap["loader_src"]
    out["src_sha"] = hashlib.sha256(src.encode()).hexdigest()[:16]
    structure = structure_obligation(case, src, "loader_src") if getattr(case, "twin", None) is not None else None
    try:
        run = LoaderRun(src, cap["loader_ns"], [f.name for f in case.fields])
        from . import symdata
        run.root = symdata.SNode(run.interp, run.st0, "data")
        exp = Expect(run, case.layout, case.fields, case.strict, case.debug_trail.name)
        _install_factory_handlers(run.interp, case)
        paths = run.run()
    except Unsupported as e:
        out["error"] = ("unsupported", str(e))
        out["time"] = time.time() - t0
        out["solver_time"] = 0
        return out
    out["paths"] = len(paths)
    obls = []
    for o in run.interp.obligations:
        o.name = f"{case.label}/{o.clause}"
        o.props = ["C03", "C20"]
        obls.append(o)
    for k, (s, r) in enumerate(paths):
        for cname, props, goal, note in exp.clauses(s, r):
            o = Obl(f"{case.label}/{cname}/p{k}", cname, list(s.pc), goal, "post", k, s)
            o.props = props
            o.note = note
            obls.append(o)
    if structure is not None:
        o = Obl(f"{case.label}/structure-unchanged", "structure-unchanged", [], z3.BoolVal(structure[0]), "post", 0, run.st0)
        o.props = ["C19"]
        o.note = structure[1]
        obls.append(o)
        for o2 in obls:
            if "C19" not in (o2.props or []):
                o2.props = list(o2.props or []) + ["C19"]
    t1 = time.time()
    discharge(run.interp, obls, 6000 if tier == "quick" else 60000, ext_budget=(6000 if tier == "quick" else None))
    out["solver_time"] = time.time() - t1
    out["assumptions"] = sorted(run.ctx.assumptions)
    bad = [o for o in obls if o.status != "discharged"]
    native = None
    if bad or True:
        native = native_check(case, cap, limit=(60 if tier == "quick" and not bad else 400), seed=seed)
    for o in obls:
        out["obls"].append({"name": o.name, "clause": o.clause, "props": o.props, "status": o.status, "backend": o.backend,
                            "time": round(o.time, 4)})
    for o in bad:
        out["failures"].append({"obligation": o.name, "clause": o.clause, "props": o.props, "backend": o.backend,
                                "solver_status": o.status, "note": o.note, "model": str(o.model)[:800] if o.model else None,
                                "witnesses": [w for w in native["mismatches"]][:4]})
    if not bad:
        out["xcheck"] = {"scenarios": native["n"], "mismatches": native["mismatches"][:3]}
    out["time"] = time.time() - t0
    return out


# ------------------------------------------------------------------------------------------ structure (C19)
def ast_shape(source):
    """the structure of generated source with every piece of data abstracted away: constants become their type, identifiers
    are numbered in order of first appearance, comments and positions are gone (ast)"""
    import ast
    tree = ast.parse("def __maker__():\n" + "\n".join("    " + ln for ln in source.splitlines()))
    names = {}

    def nm(x):
        return names.setdefault(x, f"n{len(names)}")

    def go(n):
        if isinstance(n, ast.keyword) and n.arg is None and isinstance(n.value, ast.Dict) and len(n.value.keys) == 1 \
                and isinstance(n.value.keys[0], ast.Constant) and isinstance(n.value.keys[0].value, str):
            # f(**{'name': v}) is f(name=v): the spelling needed for parameter names that are keywords
            return ("keyword", ("arg", "ID"), ("value", go(n.value.values[0])))
        if isinstance(n, ast.Constant):
            return ("const", type(n.value).__name__)
        if isinstance(n, ast.AST):
            out = [type(n).__name__]
            for f, v in ast.iter_fields(n):
                if f in ("lineno", "col_offset", "end_lineno", "end_col_offset", "type_comment", "kind"):
                    continue
                if f in ("id", "arg", "name", "attr") and isinstance(v, str):
                    # every identifier is the same token: WHICH variable is meant is settled by the contract proof; here only
                    # the shape of the program counts (a hostile field id may legitimately coincide with another identifier)
                    out.append((f, "ID"))
                else:
                    out.append((f, go(v)))
            return tuple(out)
        if isinstance(n, list):
            return tuple(go(x) for x in n)
        return n
    return go(tree)


def structure_obligation(case, src, which):
    """(holds, note): the program generated for hostile names/keys has exactly the structure of its harmless twin"""
    from .run import capture
    try:
        twin = case.twin.build() if case.twin.model is None else case.twin
        twin.want_loader, twin.want_dumper = case.want_loader, case.want_dumper
        tsrc = capture(twin)[which]
        a, b = ast_shape(src), ast_shape(tsrc)
    except Exception as e:  # noqa: BLE001
        return False, f"structure comparison failed: {type(e).__name__}: {str(e)[:200]}"
    if a == b:
        return True, ""
    return False, "the generated function differs in structure from the one generated for harmless names and keys"


# ------------------------------------------------------------------------------------------ native side
class StubError(Exception):
    pass


def _stub_error_cls():
    from adaptix.load_error import ValueLoadError

    class GenStubError(ValueLoadError):
        pass
    return GenStubError


_ABSENT = object()


def gen_inputs(crown, extra_policy, rnd, budget=400):
    """concrete inputs: every child present / absent, leaves good / bad, nodes of the right / a wrong kind, extras"""
    def leaf_values():
        return ["good", "bad"]

    def node_variants(node):
        if isinstance(node, Leaf):
            return [("v", v) for v in leaf_values()]
        out = []
        if isinstance(node, DictNode):
            keys = list(node.children)
            child_opts = [[("absent", None)] + node_variants(node.children[k]) for k in keys]
            combos = list(itertools.product(*child_opts))
            rnd.shuffle(combos)
            for ci, combo in enumerate(combos[:40]):
                for extra in (False, True, "non-str"):
                    if extra == "non-str" and ci % 8:
                        continue
                    d = {}
                    for k, (tag, v) in zip(keys, combo):
                        if tag != "absent":
                            d[k] = v
                    if extra is True:
                        d["zzz_extra"] = "E"
                    elif extra == "non-str":
                        d[7] = "E7"            # a key that is not a string: data as any other (C04: mappings with non-string keys)
                    out.append(("v", d))
            out += [("v", wrong) for wrong in ([1, 2], "abc", 5, None, {0: "good", 1: "good"})]
        else:
            n = node.size
            child_opts = [node_variants(node.children[i]) if i in node.children else [("v", "gap")] for i in range(n)]
            combos = list(itertools.product(*child_opts))
            rnd.shuffle(combos)
            for combo in combos[:40]:
                base = [v for _, v in combo]
                out.append(("v", list(base)))
                out.append(("v", tuple(base)))
                out.append(("v", base + ["X"]))
                if base:
                    out.append(("v", base[:-1]))
            out += [("v", wrong) for wrong in ({"a": 1}, "ab", 5, None, {i: "good" for i in range(n)})]
        return out
    def presence(node, cap=12):
        """systematic part: every subset of present keys at every mapping node (all leaves good), containers present or absent"""
        if isinstance(node, Leaf):
            return ["good"]
        if isinstance(node, DictNode):
            keys = list(node.children)
            opts = [[_ABSENT] + presence(node.children[k], cap=4) for k in keys]
            out = []
            for combo in itertools.product(*opts):
                out.append({k: v for k, v in zip(keys, combo) if v is not _ABSENT})
                if len(out) >= 4 ** min(len(keys), 4) * cap:
                    break
            return out
        return [[(presence(node.children[i], cap=2)[-1] if i in node.children else "gap") for i in range(node.size)]]
    systematic = presence(crown)[:max(budget // 2, 100)]

    def leaf_paths(node, prefix=()):
        if isinstance(node, Leaf):
            yield prefix
        else:
            for k, ch in node.children.items():
                yield from leaf_paths(ch, prefix + (k,))

    def with_leaf(value, path, new):
        if not path:
            return new
        if isinstance(value, dict):
            return {k: (with_leaf(v, path[1:], new) if k == path[0] else v) for k, v in value.items()}
        return [(with_leaf(v, path[1:], new) if i == path[0] else v) for i, v in enumerate(value)]
    if systematic:
        # a PRESENT field whose value is None (or another falsy datum) is data like any other: it is loaded, never replaced by a default
        full0 = max(systematic, key=lambda d: len(repr(d)))
        paths_ = list(leaf_paths(crown))
        nones = [with_leaf(full0, p, None) for p in paths_[:12]] + [with_leaf(full0, p, 0) for p in paths_[:4]]
        only = [with_leaf(x, p, None) for p in paths_[:6] for x in systematic[:40]
                if isinstance(crown, DictNode) and p[:1] and isinstance(x, dict) and set(x) == {p[0]}]
        systematic = systematic[:1] + nones + only[:12] + systematic[1:]
    if isinstance(crown, DictNode) and systematic:
        full = max(systematic, key=lambda d: len(repr(d)))
        systematic = [{**full, 7: "E7"}, {**full, "zzz_extra": "E"}, {**full, (1, 2): "E12", "zzz_extra": "E"}] + systematic
    allv = [v for _, v in node_variants(crown)]
    room = max(budget - len(systematic), budget // 2)
    if len(allv) > room:
        allv = rnd.sample(allv, room)
    return systematic + allv


def native_eval(case, data):
    """the native twin of Expect: (all_fine, definite_error, expected bindings, expected extras)"""
    lay = case.layout
    fields = {f.name: f for f in case.fields}
    definite = []
    fine = [True]
    present = {}

    def kind_ok(node, d):
        if isinstance(node, DictNode):
            return isinstance(d, dict)
        return isinstance(d, (list, tuple)) or (not case.strict and isinstance(d, str))

    def walk(node, d, reached, path):
        if isinstance(node, Leaf):
            present[node.field] = (reached, d if reached else None, path)
            return
        ok = reached and kind_ok(node, d)
        if not ok:
            fine[0] = False
        if reached and not kind_ok(node, d) and path == ():
            definite.append("root-kind")
        if isinstance(node, DictNode):
            if ok and lay.extra_in == "forbid" and any(k not in node.children for k in d):
                definite.append(f"extra-fields@{path}")
                fine[0] = False
            if ok and lay.extra_in == "kwargs" and path == () and any(k not in node.children and not isinstance(k, str) for k in d):
                definite.append("extra-key-not-a-keyword")        # cannot be passed as **kwargs: must be refused with a LoadError
                fine[0] = False
            if ok and any(isinstance(ch, Leaf) and fields[ch.field].required and k not in d for k, ch in node.children.items()):
                definite.append(f"missing-at@{path}")
            for k, ch in node.children.items():
                walk(ch, d.get(k) if ok and k in d else None, bool(ok and k in d), path + (k,))
        else:
            if ok and len(d) < node.size:
                definite.append(f"short-list@{path}")
                fine[0] = False
            if ok and lay.extra_in == "forbid" and len(d) > node.size:
                definite.append(f"long-list@{path}")
                fine[0] = False
            for i, ch in node.children.items():
                walk(ch, d[i] if ok and len(d) > i else None, bool(ok and len(d) > i), path + (i,))
    walk(lay.crown, data, True, ())
    bindings = {}
    for fname, (pres, val, path) in present.items():
        f = fields[fname]
        if pres:
            if val == "bad":
                definite.append(f"field-rejected:{fname}")
                fine[0] = False
            bindings[fname] = ("loaded", val, path)
        else:
            if f.required:
                definite.append(f"required-missing:{fname}")
                fine[0] = False
            bindings[fname] = ("default",)
    for f in case.fields:
        if f.name not in present:
            bindings[f.name] = ("default",)
    extras = {}
    if lay.extra_in == "kwargs" and isinstance(data, dict) and isinstance(lay.crown, DictNode):
        extras = {k: v for k, v in data.items() if k not in lay.crown.children}
    return fine[0], definite, bindings, extras


def follow(data, trail):
    from adaptix.struct_trail import Attr, ItemKey
    cur = data
    for el in trail:
        if isinstance(el, ItemKey):
            return el.key
        if isinstance(el, Attr):
            cur = getattr(cur, el.name)
        else:
            cur = cur[el]
    return cur


def native_check(case, cap, limit=200, seed=0):
    from adaptix.load_error import AggregateLoadError, LoadError
    from adaptix.struct_trail import get_trail
    rnd = random.Random(seed)
    loader = cap["loader"]
    Err = _stub_error_cls()
    # script the field loaders inside the real retort
    stubs = [p for p in _find_passthroughs(cap["retort"])]

    def behaviour(name):
        def b(x):
            if x == "bad":
                e = Err("stub rejects", x)
                e._about = x
                raise e
            return ("L", name, _freeze(x))
        return b
    for p in stubs:
        p.behaviour = behaviour(p.name)
    mismatches = []
    n = 0
    try:
        inputs = gen_inputs(case.layout.crown, case.layout.extra_in, rnd, budget=limit)
        for data in inputs:
            n += 1
            snap = repr(data)
            fine, definite, bindings, extras = native_eval(case, data)
            log_len = {f.name: len(f.default[1].log) for f in case.fields if f.default is not None and hasattr(f.default[1], "log")}
            try:
                obj = loader(data)
                outcome = ("ok", obj)
            except Exception as e:  # noqa: BLE001
                outcome = ("raise", e)

            def mm(clause, detail):
                mismatches.append({"clause": clause, "signature": f"{snap[:80]}", "input": snap[:200],
                                   "native_outcome": detail[:300]})
            if repr(data) != snap:
                mm("modifies-nothing", f"input mutated to {data!r}")
            if outcome[0] == "ok":
                if definite:
                    mm("accept-upper", f"returned {_short(obj)} although {definite}")
                else:
                    for f in case.fields:
                        got = obj.get(f.name, _MISSING) if isinstance(obj, dict) else getattr(obj, f.name, _MISSING)
                        b = bindings[f.name]
                        if b[0] == "loaded":
                            want = ("L", f.name, _freeze(b[1]))
                            if got != want:
                                mm(f"binding:{f.name}", f"field {f.name} = {got!r}, expected loaded value of {b[2]}")
                        else:
                            if f.default is None:
                                continue
                            kind, d = f.default
                            if kind == "value":
                                if not (got is d or (type(got) is type(d) and got == d)):
                                    mm(f"binding:{f.name}", f"absent field {f.name} = {got!r} ({type(got).__name__}), default is {d!r}")
                            elif hasattr(d, "log"):
                                # stateful factory: exactly one call during this load, and its result is what the field holds
                                if len(d.log) != log_len[f.name] + 1 or got != d.log[-1]:
                                    mm(f"binding:{f.name}", f"absent field {f.name} = {got!r}; the default factory was called "
                                                            f"{len(d.log) - log_len[f.name]} times during this load"
                                                            f"{' (last result ' + repr(d.log[-1]) + ')' if d.log else ''}")
                            else:
                                w = d(obj) if kind == "self-factory" else d()
                                if not (type(got) is type(w) and got == w):
                                    mm(f"binding:{f.name}", f"absent field {f.name} = {got!r}, factory gives {w!r}")
                    if case.kwargs_param and getattr(obj, "kwargs", {}) != extras:
                        mm("extras-delivered", f"kwargs={getattr(obj, 'kwargs', None)!r} expected {extras!r}")
            else:
                e = outcome[1]
                if not isinstance(e, LoadError):
                    mm("raises-closed", f"raised {type(e).__name__}: {e}")
                    continue
                if fine:
                    mm("accept-lower", f"raised {type(e).__name__} on a fine input")
                leaves = list(_leaves(e))
                for leaf, trail in leaves:
                    about = getattr(leaf, "_about", _MISSING)
                    if case.debug_trail.name == "DISABLE":
                        continue
                    if about is not _MISSING:
                        try:
                            tgt = follow(data, trail)
                            if tgt != about:
                                mm("trail", f"trail {trail} leads to {tgt!r}, the rejected value is {about!r}")
                        except Exception as ex:  # noqa: BLE001
                            mm("trail", f"trail {trail} cannot be followed: {type(ex).__name__}")
                    elif hasattr(leaf, "input_value"):
                        try:
                            tgt = follow(data, trail)
                            if tgt is not leaf.input_value and tgt != leaf.input_value:
                                mm("trail", f"trail {trail} leads to {tgt!r}, error is about {leaf.input_value!r}")
                        except Exception as ex:  # noqa: BLE001
                            mm("trail", f"trail {trail} of {type(leaf).__name__} cannot be followed: {type(ex).__name__}")
                if case.debug_trail.name == "ALL":
                    rejected = [d for d in definite if d.startswith("field-rejected:")]
                    n_stub = sum(1 for leaf, _ in leaves if hasattr(leaf, "_about"))
                    if n_stub != len(rejected):
                        mm("all-complete", f"{len(rejected)} rejected fields, {n_stub} reported")
                    from adaptix.load_error import NoRequiredFieldsLoadError as _NRF
                    want_nodes = {d.split("@", 1)[1] for d in definite if d.startswith("missing-at@")}
                    got_n = sum(1 for leaf, _ in leaves if isinstance(leaf, _NRF))
                    # a missing key that leads to an inner container may be reported at its parent too (not fixed by the
                    # documentation): in TOTAL only too few reports are a mismatch ...
                    if got_n < len(want_nodes):
                        mm("all-missing-reported", f"{len(want_nodes)} mappings lack required keys, {got_n} NoRequiredFieldsLoadError reported")
                    # ... but the report ABOUT one mapping (identified by its trail) appears exactly once
                    for node_path in want_nodes:
                        hits = sum(1 for leaf, trail in leaves if isinstance(leaf, _NRF) and repr(tuple(trail)) == node_path)
                        if hits != 1:
                            mm("all-missing-reported", f"the mapping at {node_path} lacks required keys: reported {hits} times")
            if len(mismatches) > 12:
                break
    finally:
        for p in stubs:
            p.behaviour = None
    return {"n": n, "mismatches": mismatches}


_MISSING = object()


def _leaves(e, prefix=()):
    from adaptix.struct_trail import get_trail
    trail = tuple(prefix) + tuple(get_trail(e))
    subs = getattr(e, "exceptions", None)
    if subs is not None and isinstance(e, BaseExceptionGroup):
        for s in subs:
            yield from _leaves(s, trail)
    else:
        yield e, trail


def _find_passthroughs(retort):
    from .family import _PassThrough
    seen = set()
    todo = list(retort._instance_recipe)
    out = []
    while todo:
        p = todo.pop()
        if id(p) in seen:
            continue
        seen.add(id(p))
        for v in list(getattr(p, "__dict__", {}).values()):
            if isinstance(v, _PassThrough):
                out.append(v)
            elif hasattr(v, "__dict__") and not isinstance(v, type):
                todo.append(v)
            elif isinstance(v, (list, tuple)):
                todo.extend(x for x in v if hasattr(x, "__dict__"))
    return out


def _freeze(x):
    try:
        hash(x)
        return x
    except TypeError:
        return repr(x)


def _short(o):
    try:
        return repr(getattr(o, "__dict__", o))[:120]
    except Exception:  # noqa: BLE001
        return "<unrepr>"


# ------------------------------------------------------------------------------------------ property-level entry
_CACHE = {}


def run_family(tier, seed, group="base"):
    key = (tier, seed, group)
    if key in _CACHE:
        return _CACHE[key]
    from . import dump, family
    if group.startswith("conv"):
        from . import conv
        cgroup = "hostile" if group == "conv-hostile" else "base"
        jobs = [("C", (i, tier, seed, cgroup)) for i in range(len(conv.conv_family(tier, cgroup)))]
    else:
        n = len(family.loader_family(tier, group))
        nd = len(dump.dumper_family(tier, group))
        jobs = [("L", (i, tier, seed, group)) for i in range(n)] + [("D", (i, tier, seed, group)) for i in range(nd)]
    if os.environ.get("VERIF_SERIAL") == "1":
        res = [_dispatch(j) for j in jobs]
    else:
        with mp.get_context("fork").Pool(min(16, os.cpu_count() or 4)) as pool:
            res = pool.map(_dispatch, jobs, chunksize=1)
    _CACHE[key] = res
    return res


def _dispatch(job):
    kind, j = job
    if kind == "L":
        return verify_case(j)
    if kind == "C":
        from . import conv
        return conv.verify_conv_case(j)
    from . import dump
    return dump.verify_dump_case(j)


_NATIVE_CLAUSE_PROPS = {"raises-closed": ["C04", "C19"], "accept-upper": ["C03", "C02", "C19"], "accept-lower": ["C03", "C02", "C01", "C19"],
                        "binding": ["C03", "C08", "C01", "C19"], "extras-delivered": ["C03", "C19"], "modifies-nothing": ["C20"],
                        "trail": ["C05"], "all-complete": ["C05", "C06"], "all-missing-reported": ["C05", "C06"], "field": ["C13", "C19"],
                        "returns": ["C13", "C19"], "tree-shape": ["C03", "C19"], "value": ["C03", "C01"], "accept-iff": ["C03", "C06"],
                        "omit-default-as-is": ["C03"], "omit-default": ["C03"], "default-of-parameter": ["C13", "C19"]}


def _clause_props(clause):
    return _NATIVE_CLAUSE_PROPS.get(clause.split(":")[0].split("@")[0], [])


def extra_for_property(prop, tier, seed, group="base"):
    """the runner's `extra_checks` record for one property"""
    res = run_family(tier, seed, group)
    n_obl = n_dis = 0
    by_backend = {}
    viol, undecided, crashes, samples, functions = [], [], [], [], []
    solver_time = 0.0
    assumptions = set()
    programs = 0
    for d in res:
        if d["error"] is not None:
            kind, msg = d["error"]
            if kind == "crash":
                crashes.append((d["label"], msg))
            elif kind == "creation":
                viol.append({"unit": f"genprog:{d['label']}", "clause": "creation", "witness": d["label"],
                             "props": ["C03", "C19"], "w": {"native_outcome": msg, "input": d["label"]}})
            else:
                undecided.append((d["label"], f"{kind}: {msg}"))
            continue
        programs += 1
        obls = [o for o in d["obls"] if prop in (o["props"] or [])]
        n_obl += len(obls)
        for o in obls:
            if o["status"] == "discharged":
                n_dis += 1
                by_backend[o["backend"]] = by_backend.get(o["backend"], 0) + 1
        solver_time += d["solver_time"]
        assumptions.update(d["assumptions"])
        functions.append({"unit": f"generated program {d['label']}", "src_sha": d["src_sha"], "paths": d["paths"],
                          "obligations": len(obls)})
        if obls and len(samples) < 3:
            samples.append({"obligation": obls[0]["name"], "status": obls[0]["status"], "backend": obls[0]["backend"]})
        for f in d["failures"]:
            if prop not in (f["props"] or []):
                continue
            ws = f["witnesses"]
            if ws:
                for w in ws[:2]:
                    viol.append({"unit": f"genprog:{d['label']}", "clause": f["clause"].split(":")[0], "witness": w["signature"],
                                 "obligation": f["obligation"], "model": f["model"], "backend": f["backend"], "note": f["note"],
                                 "w": w})
            else:
                undecided.append((d["label"], f"obligation {f['obligation']} not discharged ({f['backend']}; {f['note']}) and the "
                                  f"native scenario family found no failing input"))
        xc = d.get("xcheck")
        if xc and xc["mismatches"]:
            for w in xc["mismatches"][:2]:
                # discharged, yet the real program violates the clause on a concrete input: the witness stands (the symbolic model of
                # this behaviour is too coarse — e.g. the constructor is an uninterpreted total function there)
                if prop in _clause_props(w["clause"]):
                    viol.append({"unit": f"genprog:{d['label']}", "clause": w["clause"].split(":")[0], "witness": w["signature"],
                                 "obligation": f"{d['label']}/{w['clause']}/native-crosscheck", "model": None, "backend": "native-crosscheck",
                                 "note": "all obligations discharged but the real program disagrees natively on this input", "w": w})
    viol = [v for v in viol if prop in v.get("props", [prop])]
    return {"obligations": n_obl, "discharged": n_dis, "by_backend": by_backend, "violations": viol, "undecided": undecided,
            "crashes": crashes, "functions": functions[:40], "samples": samples, "solver_time": solver_time,
            "assumptions": sorted(assumptions) + [f"bounded over programs: {programs} generated programs (loaders / dumpers: "
                                                 f"genprog/family.py, dump.py; converters: genprog/conv.py); unbounded over inputs"],
            "bounded": [{"unit": "GENPROG program family", "bound": f"{programs} generated programs (loaders, dumpers or converters)"}]}
