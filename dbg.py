"""debug helper: ./check-style run of the units matching a substring, verbose"""
import sys, time
sys.path.insert(0, '/verif')
from pyvc.runner import load_contracts
from pyvc.verify import run_unit
REG, BY = load_contracts()
pat = sys.argv[1]
for name, c in REG.items():
    if pat not in name: continue
    t = time.time()
    for rep in run_unit(c, timeout_ms=int(sys.argv[2]) if len(sys.argv) > 2 else 10000):
        print(rep.name, 'paths', rep.n_paths, 'err', rep.error and rep.error[0], round(time.time()-t, 2), rep.outcomes, 'bounded', rep.bounded)
        if rep.error: print(rep.error[1][-3000:])
        for o in rep.obls:
            if o.status != 'discharged':
                print('   ', o.name, o.status, o.backend, round(o.time,2))
        bad = [c for c in rep.covers if not c[1]]
        if bad: print('   UNCOVERED', bad)
        print('   n_obl', len(rep.obls), 'solver', round(rep.solver_time,2))
        import os
        if os.environ.get("DBG_GOAL"):
            for o in rep.obls:
                if o.status != 'discharged' and os.environ["DBG_GOAL"] in o.name:
                    print("GOAL", o.goal)
                    print("PC", o.pc[-int(os.environ.get("DBG_PC","6")):])
                    print("MODEL", o.model)
