"""C01: for models the round trip is a lemma over two GENPROG contracts instantiated from the SAME independent layout: the
dumper writes the dumped value of every field to exactly its path (tree-shape, value:<field>), the loader accepts every tree
of that shape (accept-lower) and passes the loaded value found at that path to the constructor parameter of that field
(binding:<field>, param-name, constructor-once).  With field loaders inverse to field dumpers (the unit contracts), the
constructed object has the original field values."""
LEVEL_TEXT = ("value clauses of scalar/enum/literal loaders, nearest-owner contract for typing.Self, and the model round trip as a "
              "lemma over the generated loader and dumper contracts of the same layout (GENPROG)")


def extra_checks(tier, seed):
    from genprog.check import extra_for_property
    return [extra_for_property("C01", tier, seed)]
