"""Executor values and path state."""
from __future__ import annotations

import itertools

import z3

from . import theory as T
from .universe import N_CELLS, rep


class Unsupported(Exception):
    """Construct outside the accepted subset: the unit is *undecided*, never a violation."""


class V:
    """A Python value as seen by the executor.

    kind:  'sym'   only a term is known
           'const' d = concrete python object known at analysis time
           'int'   d = z3 Int   (an exact python int)
           'bool'  d = z3 Bool  (a python bool)
           'tuple' d = list[V]  (a fresh tuple of known length)
           'ref'   d = heap id  (a fresh mutable object: list / dict / set / instance)
           'fn'    d = Closure
           'type'  d = z3 Cls term (the class object of some value)
           'gen'   d = thunk    (a not yet consumed producer)
           'bound' d = (selfV, name)
           'iter'  d = SeqIter  (iterator over a symbolic sequence)
    root/shadow: per-cell concrete shadow (cell -> thunk returning a fresh concrete object)
    ty: statically known python class of the value (exceptions mostly)
    """
    __slots__ = ("kind", "d", "t", "root", "shadow", "ty", "tag")

    def __init__(self, kind, d=None, t=None, root=None, shadow=None, ty=None, tag=None):
        self.kind = kind
        self.d = d
        self.t = t
        self.root = root
        self.shadow = shadow
        self.ty = ty
        self.tag = tag

    def __repr__(self):
        if self.kind == "const":
            return f"V(const {self.d!r})"
        return f"V({self.kind} {self.t if self.t is not None else self.d})"


def const(o):
    return V("const", o)


class Closure:
    __slots__ = ("node", "env", "qual", "unit", "is_gen")

    def __init__(self, node, env, qual, unit, is_gen):
        self.node = node
        self.env = env
        self.qual = qual
        self.unit = unit
        self.is_gen = is_gen


class SeqIter:
    """Iterator over the symbolic sequence `seq` (a Val term, seq_len/seq_at) starting at `pos` (z3 Int)."""
    __slots__ = ("seq", "pos", "elem_in_D", "elem_fn", "len_term", "clamp")

    def __init__(self, seq, pos=None, elem_in_D=True, elem_fn=None):
        self.seq = seq
        self.pos = z3.IntVal(0) if pos is None else pos
        self.elem_in_D = elem_in_D
        self.elem_fn = elem_fn      # optional: (st, index z3 Int) -> V   (for zip / enumerate / items views)
        self.len_term = None
        self.clamp = False


class HList:
    """Heap list: concrete (`items` python list of V) or symbolic (ln z3 Int, arr Array Int Val)."""
    __slots__ = ("items", "ln", "arr", "fresh", "kind_set")

    def __init__(self, items=None, ln=None, arr=None, fresh=True):
        self.kind_set = False
        self.items = items
        self.ln = ln
        self.arr = arr
        self.fresh = fresh

    def copy(self):
        h = HList(None if self.items is None else list(self.items), self.ln, self.arr, self.fresh)
        h.kind_set = self.kind_set
        return h


class HDict:
    """Heap dict. concrete: `pairs` list of (keyV, valV) in insertion order (keys are distinct by construction
    only when they are distinct constants); symbolic: key sequence (kn, karr) + value array + membership array."""
    __slots__ = ("pairs", "kn", "karr", "vals", "has", "fresh")

    def __init__(self, pairs=None, kn=None, karr=None, vals=None, has=None, fresh=True):
        self.pairs = pairs
        self.kn = kn
        self.karr = karr
        self.vals = vals
        self.has = has
        self.fresh = fresh

    def copy(self):
        return HDict(None if self.pairs is None else list(self.pairs), self.kn, self.karr, self.vals, self.has,
                     self.fresh)


class HObj:
    """Heap instance with named attributes."""
    __slots__ = ("cls", "attrs", "fresh")

    def __init__(self, cls, attrs=None, fresh=True):
        self.cls = cls
        self.attrs = attrs or {}
        self.fresh = fresh

    def copy(self):
        return HObj(self.cls, dict(self.attrs), self.fresh)


EMPTY_LIST_CANON = []      # canonical representatives of "an empty list / dict" as *values* (py_eq comparisons)
EMPTY_DICT_CANON = {}

_ids = itertools.count(1)


def new_id():
    return next(_ids)


class St:
    """One path."""
    __slots__ = ("env", "pc", "live", "heap", "yielded", "notes", "havoc", "trail_len", "trail_arr",
                 "mods", "assumed", "calls")

    def __init__(self):
        self.env = {}
        self.pc = []
        self.live = {}
        self.heap = {}
        self.yielded = None
        self.notes = []
        self.havoc = []
        self.trail_len = None
        self.trail_arr = None
        self.mods = []        # stores to non-fresh objects (C20)
        self.assumed = []
        self.calls = []       # log of calls to tracked symbolic callables (C08 / C09 / C13)

    def fork(self):
        s = St()
        s.env = dict(self.env)
        s.pc = list(self.pc)
        s.live = dict(self.live)
        s.heap = {k: v.copy() for k, v in self.heap.items()}
        s.yielded = self.yielded
        s.notes = list(self.notes)
        s.havoc = list(self.havoc)
        s.trail_len = self.trail_len
        s.trail_arr = self.trail_arr
        s.mods = list(self.mods)
        s.assumed = list(self.assumed)
        s.calls = list(self.calls)
        return s

    def assume(self, f):
        if f is True or (z3.is_true(f) if isinstance(f, z3.ExprRef) else False):
            return
        self.pc.append(f)

    def note(self, s):
        self.notes.append(s)


ALL_CELLS = frozenset(range(N_CELLS))


def cell_formula(term, cells):
    """cell(term) in cells"""
    cells = sorted(cells)
    if not cells:
        return z3.BoolVal(False)
    return z3.Or(*[T.F_cell(term) == c for c in cells])


def root_thunks():
    return {c: (lambda c=c: rep(c)) for c in range(N_CELLS)}
