"""C02: unit contracts (contracts/*.py) plus the GENPROG obligations that carry this property (generated model loaders)."""


def extra_checks(tier, seed):
    from genprog.check import extra_for_property
    return [extra_for_property("C02", tier, seed)]
