"""Contracts for morphing/iterable_provider.py.

The unit is the *composed* loader/dumper that `IterableProvider._make_loader/_make_dumper` really returns, executed
through the real factory for each of the six (strict_coercion, debug_trail) combinations, against ONE
mode-independent specification (IterSpec, DESIGN.md Appendix A.4).  Because `accept-iff` and `value` are literally the
same formulas in the three debug modes, C06's agreement lemma needs no further proof.
"""
from adaptix._internal.definitions import DebugTrail
from pyvc.contracts import LoopSpec, Via, contract

F = "morphing/iterable_provider.py"

IS_MAPPING = "py(lambda d: isinstance(d, CollectionsMapping), data)"
IS_STR = "py(lambda d: type(d) is str, data)"
ITERABLE = "py(lambda d: ctor_ok(iter, d), data)"
EXCLUDED = f"(strict_coercion and ({IS_MAPPING} or {IS_STR}))"
N = "len(elems(data))"
EL = "elems(data)"
ALL_OK = f"forall(lambda j: implies(0 <= j and j < {N}, ok(arg_loader, {EL}[j])))"
FIRST_FAIL = ("(0 <= {k} and {k} < len(elems(data)) and not ok(arg_loader, elems(data)[{k}]) and "
              "forall(lambda j: implies(0 <= j and j < {k}, ok(arg_loader, elems(data)[j]))))")

POST = {
    # ---- C02 / C06 / C07: what is accepted and what is returned (mode independent)
    "accept-iff": f"returned == (not {EXCLUDED} and {ITERABLE} and {ALL_OK})",
    "value": (f"implies(returned, result == construct(iter_factory, built_from(result)) and "
              f"len(built_from(result)) == {N} and "
              f"forall(lambda j: implies(0 <= j and j < {N}, built_from(result)[j] == res(arg_loader, {EL}[j]))))"),
    "fresh-result": "implies(returned, is_fresh(result))",
    # ---- C04
    "raises-closed": "implies(raised, isinstance(exc, LoadError))",
    # ---- C02/C07: the documented rejections
    "excluded-type": f"implies({EXCLUDED}, raised and type(exc) is ExcludedTypeLoadError and exc.input_value is data)",
    "not-iterable": f"implies(not {EXCLUDED} and not {ITERABLE}, raised and type(exc) is TypeLoadError and exc.input_value is data)",
}
ELEM_FAIL = f"(raised and not {EXCLUDED} and {ITERABLE})"
POST_DISABLE = {
    "first-error": f"implies({ELEM_FAIL}, exists(lambda k: {FIRST_FAIL.format(k='k')} and is_err(exc, arg_loader, elems(data)[k]) and trail_unchanged(exc)))",
}
POST_FIRST = {
    "first-error": f"implies({ELEM_FAIL}, exists(lambda k: {FIRST_FAIL.format(k='k')} and is_err(exc, arg_loader, elems(data)[k]) and trail_top_is(exc, k)))",
}
SUB = "exc.exceptions"
POST_ALL = {
    "agg-class": f"implies({ELEM_FAIL}, type(exc) is AggregateLoadError)",
    "agg-sound": (f"implies({ELEM_FAIL}, forall(lambda k: implies(0 <= k and k < len({SUB}), "
                  f"elem_error({SUB}[k], arg_loader, {EL}, {N}))))"),
    "agg-complete": (f"implies({ELEM_FAIL}, forall(lambda j: implies(0 <= j and j < {N} and not ok(arg_loader, {EL}[j]), "
                     f"exists(lambda k: 0 <= k and k < len({SUB}) and is_err({SUB}[k], arg_loader, {EL}[j]) and trail_top_is({SUB}[k], j)))))"),
    "agg-once": (f"implies({ELEM_FAIL}, forall(lambda k1, k2: implies(0 <= k1 and k1 < k2 and k2 < len({SUB}), "
                 f"top_index({SUB}[k1]) < top_index({SUB}[k2]))))"),
}
CP = {"accept-iff": ["C02", "C06", "C07"], "value": ["C02", "C06", "C07", "C01"], "fresh-result": ["C20"],
      "raises-closed": ["C04"], "excluded-type": ["C02", "C07"], "not-iterable": ["C02"],
      "first-error": ["C05", "C06"], "agg-class": ["C05", "C04"], "agg-sound": ["C05"], "agg-complete": ["C05", "C06"],
      "agg-once": ["C05"], "modifies-nothing": ["C20"]}

E = "errors"
LOOPS = {
    ("iter_loader_dt_first", 0): LoopSpec(
        binds={"idx": "_i"},
        inv=["len(yielded) == _i",
             "forall(lambda j: implies(0 <= j and j < _i, ok(loader, iterable[j]) and yielded[j] == res(loader, iterable[j])))"]),
    ("iter_loader_dt_all", 0): LoopSpec(
        binds={"idx": "_i"}, havoc_trails=True,
        inv=["has_unexpected_error == False",
             f"implies(len({E}) == 0, len(yielded) == _i)",
             f"implies(len({E}) == 0, forall(lambda j: implies(0 <= j and j < _i, ok(loader, iterable[j]) and yielded[j] == res(loader, iterable[j]))))",
             f"forall(lambda k: implies(0 <= k and k < len({E}), elem_error({E}[k], loader, iterable, _i)))",
             f"forall(lambda j: implies(0 <= j and j < _i and not ok(loader, iterable[j]), exists(lambda k: 0 <= k and k < len({E}) "
             f"and is_err({E}[k], loader, iterable[j]) and trail_top_is({E}[k], j))))",
             f"forall(lambda k1, k2: implies(0 <= k1 and k1 < k2 and k2 < len({E}), top_index({E}[k1]) < top_index({E}[k2])))",
             ]),
}

INST = {}
for sc in (True, False):
    for dt in (DebugTrail.DISABLE, DebugTrail.FIRST, DebugTrail.ALL):
        INST[f"{'strict' if sc else 'lax'}-{dt.name}"] = {"strict_coercion": ("const", sc), "debug_trail": ("const", dt)}

for label, kws in INST.items():
    mode = label.split("-")[1]
    post = dict(POST)
    post.update({"DISABLE": POST_DISABLE, "FIRST": POST_FIRST, "ALL": POST_ALL}[mode])
    contract(F, "IterableProvider._make_loader", name=f"{F}:IterableProvider._make_loader[{label}]",
             props=["C01", "C02", "C04", "C05", "C06", "C07", "C20"],
             via=Via("IterableProvider._make_loader", {label: lambda m: m.IterableProvider()},
                     kwargs={"origin": "sym", "iter_factory": "FACTORY", "arg_loader": "LD"},
                     instance_kwargs={label: kws}, any_closure=True),
             params={"data": "D"}, post=post, loops=LOOPS, clause_props=CP,
             cover=["returned", "raised", f"raised and not {EXCLUDED} and {ITERABLE}"])


# ================================================================================================ dumpers
# The composed dumper that `_make_dumper` really returns, per debug-trail mode, against ONE mode-independent specification: every
# element is dumped by the element dumper, in order, into a NEW container built by the factory (C01: this is the sequence the loader
# maps back element-wise; C02; C06: the same accept / value formulas in the three modes; C20: fresh result, argument untouched).
D_ALL_OK = f"forall(lambda j: implies(0 <= j and j < {N}, ok(arg_dumper, {EL}[j])))"
D_FIRST_FAIL = ("(0 <= {k} and {k} < len(elems(data)) and not ok(arg_dumper, elems(data)[{k}]) and "
                "forall(lambda j: implies(0 <= j and j < {k}, ok(arg_dumper, elems(data)[j]))))")
D_POST = {
    "accept-iff": f"returned == ({D_ALL_OK})",
    "value": (f"implies(returned, result == construct(iter_factory, built_from(result)) and len(built_from(result)) == {N} and "
              f"forall(lambda j: implies(0 <= j and j < {N}, built_from(result)[j] == res(arg_dumper, {EL}[j]))))"),
    "fresh-result": "implies(returned, is_fresh(result))",
}
D_POST_DISABLE = {
    "first-error": f"implies(raised, exists(lambda k: {D_FIRST_FAIL.format(k='k')} and is_err(exc, arg_dumper, elems(data)[k]) and trail_unchanged(exc)))",
}
D_POST_FIRST = {
    "first-error": f"implies(raised, exists(lambda k: {D_FIRST_FAIL.format(k='k')} and is_err(exc, arg_dumper, elems(data)[k]) and trail_top_is(exc, k)))",
}
D_POST_ALL = {
    "agg-class": "implies(raised, type(exc) is CompatExceptionGroup)",
    "agg-sound": (f"implies(raised, forall(lambda k: implies(0 <= k and k < len({SUB}), elem_error({SUB}[k], arg_dumper, {EL}, {N}))))"),
    "agg-complete": (f"implies(raised, forall(lambda j: implies(0 <= j and j < {N} and not ok(arg_dumper, {EL}[j]), "
                     f"exists(lambda k: 0 <= k and k < len({SUB}) and is_err({SUB}[k], arg_dumper, {EL}[j]) and trail_top_is({SUB}[k], j)))))"),
    "agg-once": (f"implies(raised, forall(lambda k1, k2: implies(0 <= k1 and k1 < k2 and k2 < len({SUB}), "
                 f"top_index({SUB}[k1]) < top_index({SUB}[k2]))))"),
}
D_CP = {"accept-iff": ["C02", "C06"], "value": ["C02", "C06", "C01"], "fresh-result": ["C20"], "first-error": ["C05", "C06"],
        "agg-class": ["C05", "C06"], "agg-sound": ["C05"], "agg-complete": ["C05", "C06"], "agg-once": ["C05"], "modifies-nothing": ["C20"]}
D_LOOPS = {
    ("iter_dumper_dt_first", 0): LoopSpec(
        binds={"idx": "_i"},
        inv=["len(yielded) == _i",
             "forall(lambda j: implies(0 <= j and j < _i, ok(dumper, iterable[j]) and yielded[j] == res(dumper, iterable[j])))"]),
    ("iter_dumper_dt_all", 0): LoopSpec(
        binds={"idx": "_i"}, havoc_trails=True,
        inv=[f"implies(len({E}) == 0, len(yielded) == _i)",
             f"implies(len({E}) == 0, forall(lambda j: implies(0 <= j and j < _i, ok(dumper, iterable[j]) and yielded[j] == res(dumper, iterable[j]))))",
             f"forall(lambda k: implies(0 <= k and k < len({E}), elem_error({E}[k], dumper, iterable, _i)))",
             f"forall(lambda j: implies(0 <= j and j < _i and not ok(dumper, iterable[j]), exists(lambda k: 0 <= k and k < len({E}) "
             f"and is_err({E}[k], dumper, iterable[j]) and trail_top_is({E}[k], j))))",
             f"forall(lambda k1, k2: implies(0 <= k1 and k1 < k2 and k2 < len({E}), top_index({E}[k1]) < top_index({E}[k2])))",
             ]),
}
for dt in (DebugTrail.DISABLE, DebugTrail.FIRST, DebugTrail.ALL):
    post = dict(D_POST)
    post.update({"DISABLE": D_POST_DISABLE, "FIRST": D_POST_FIRST, "ALL": D_POST_ALL}[dt.name])
    contract(F, "IterableProvider._make_dumper", name=f"{F}:IterableProvider._make_dumper[{dt.name}]",
             props=["C01", "C02", "C05", "C06", "C20"],
             via=Via("IterableProvider._make_dumper", {dt.name: lambda m: m.IterableProvider()},
                     kwargs={"origin": "sym", "iter_factory": "FACTORY", "arg_dumper": "DUMP"},
                     instance_kwargs={dt.name: {"debug_trail": ("const", dt)}}, any_closure=True),
             params={"data": "D"}, requires=[ITERABLE], post=post, loops=D_LOOPS, clause_props=D_CP,
             cover=["returned", "raised"],
             notes=["the dumped object is an iterable (precondition: dumpers are applied to values of the declared type)"])


# ---- which container the dumper builds: "Dumper produces the tuple (or list for list children)" -------------------------------------
def _factory_scenarios(mod):
    import typing

    from adaptix._internal.type_tools import normalize_type
    T_ = typing.TypeVar("T_")

    class Stack(typing.List[T_]):
        pass
    out = []
    for label, tp in (("list", typing.List[int]), ("list-child", Stack[int]), ("tuple", typing.Tuple[int, ...]), ("set", typing.Set[int]),
                      ("sequence", typing.Sequence[int]), ("deque", typing.Deque[int])):
        def factory(tp=tp):
            return mod.IterableProvider._get_dumper_iter_factory, {"self": mod.IterableProvider(), "norm": normalize_type(tp)}, {
                "opaque_res": lambda name, a, b: issubclass(a, b)}
        out.append((label, factory))
    return out


contract(F, "IterableProvider._get_dumper_iter_factory", props=["C02", "C01"],
         params={"self": ("const", None), "norm": "sym"}, opaque={"is_subclass_soft": (lambda m: m.is_subclass_soft, [])},
         post={"raises-nothing": "returned",
               "list-children-as-list": "implies(returned and truthy(opaque_res('is_subclass_soft', norm.origin, list)), result is norm.origin)",
               "everything-else-as-tuple": "implies(returned and not truthy(opaque_res('is_subclass_soft', norm.origin, list)), result is tuple)"},
         scenarios=_factory_scenarios, cover=["returned"])
