#!/bin/bash
# MANIFEST.setup_cmd: builds /verif/.venv offline (CPython 3.12 of /venv + z3/cvc5/jsonschema from the wheelhouse).
# The repo's own third-party packages are reached through a .pth that adds /venv's site-packages *after*
# the overlay's, and adaptix itself is imported from /repo/src (current working tree) via PYTHONPATH in ./check.
set -euo pipefail
cd "$(dirname "$0")"
VENV=.venv
WH=/opt/veriftools/wheels
if [ -x "$VENV/bin/python" ] && "$VENV/bin/python" -c "import z3, jsonschema" 2>/dev/null; then
  echo "setup: $VENV already usable"; exit 0
fi
rm -rf "$VENV"
/venv/bin/python -m venv "$VENV"
export PIP_NO_INDEX=1 PIP_DISABLE_PIP_VERSION_CHECK=1
"$VENV/bin/python" -m pip install -q --no-index --find-links "$WH" --no-deps \
    z3-solver cvc5 jsonschema jsonschema_specifications referencing rpds_py
SP=$("$VENV/bin/python" -c "import sysconfig; print(sysconfig.get_paths()['purelib'])")
echo "import site; site.addsitedir('/venv/lib/python3.12/site-packages')" > "$SP/zz_repo_deps.pth"
"$VENV/bin/python" -c "import z3, jsonschema, attr; print('setup: ok, z3', z3.get_version_string())"
