"""C15 extras (bounded stand-in, labelled bounded): the live-`typing` dispatch of TypeNormalizer.normalize cannot be brought
under contract (reflection over typing objects), so the canonical-form claims are checked on the hint grammar of the
property up to a stated depth: meaning-preserving rewrites must give equal normal forms with equal hashes, single
meaning-changing edits must give different ones, normalisation is idempotent, bare generics get the documented implicit
parameters."""
import enum
import itertools
import time
import typing
from typing import Any, Dict, List, Literal, Optional, Sequence, Set, Tuple, TypeVar, Union

LEVEL_TEXT = ("`_dedup` proved for all sequences (loop invariant); canonical-form behaviour of normalize_type on live typing "
              "objects checked by a bounded rewrite enumeration (labelled bounded)")


class Col(enum.Enum):
    R = 1
    G = 2


T1 = TypeVar("T1")
TB = TypeVar("TB", bound=int)
TC = TypeVar("TC", int, str)


def extra_checks(tier, seed):
    from adaptix._internal.type_tools import normalize_type
    t0 = time.time()
    viol, n_eq, n_ne = [], 0, 0

    def norm(tp):
        return normalize_type(tp)

    def same(a, b, why):
        nonlocal n_eq
        n_eq += 1
        try:
            na, nb = norm(a), norm(b)
            ok = na == nb and hash(na) == hash(nb)
            detail = f"{na!r} vs {nb!r}"
        except Exception as e:  # noqa: BLE001
            ok, detail = False, f"{type(e).__name__}: {e}"
        if not ok:
            viol.append({"unit": "normalize_type", "clause": "equal-forms", "witness": f"{why}: {a!r} ~ {b!r}"[:180],
                         "w": {"native_outcome": detail[:300], "input": f"{a!r} | {b!r}"[:200]}})

    def differ(a, b, why):
        nonlocal n_ne
        n_ne += 1
        try:
            na, nb = norm(a), norm(b)
            ok = na != nb
            detail = f"{na!r} vs {nb!r}"
        except Exception as e:  # noqa: BLE001
            ok, detail = False, f"{type(e).__name__}: {e}"
        if not ok:
            viol.append({"unit": "normalize_type", "clause": "distinct-forms", "witness": f"{why}: {a!r} !~ {b!r}"[:180],
                         "w": {"native_outcome": detail[:300], "input": f"{a!r} | {b!r}"[:200]}})

    atoms = [int, str, bytes, float, None, List[int], Dict[str, int], Tuple[int, str], Col]
    # --- unions: reordering, nesting, duplication, Optional, `|`
    for k in (2, 3):
        for combo in itertools.combinations(atoms, k):
            base = Union[combo]
            for perm in itertools.islice(itertools.permutations(combo), 6):
                same(base, Union[perm], "reorder")
            same(base, Union[(combo[0], Union[combo[1:]])] if k > 2 else Union[combo[0], Union[combo[1], combo[1]]], "nest/dup")
            same(base, Union[combo + (combo[0],)], "duplicate")
            if all(c is not None for c in combo):
                same(Optional[base], Union[combo + (None,)], "optional")
                differ(base, Optional[base], "optional-changes-meaning")
            try:
                piped = combo[0] if combo[0] is not None else type(None)
                for c in combo[1:]:
                    piped = piped | (c if c is not None else type(None))
                same(base, piped, "pipe")
            except TypeError:
                pass
            differ(base, Union[combo[:-1]] if k > 2 else combo[0], "member-removed")
    # --- typing aliases vs builtin generics, bare generics and implicit parameters
    same(List[int], list[int], "alias")
    same(Dict[str, int], dict[str, int], "alias")
    same(Tuple[int, str], tuple[int, str], "alias")
    same(Set[int], set[int], "alias")
    same(List, List[Any], "bare-generic")
    same(list, List[Any], "bare-generic")
    same(Dict, Dict[Any, Any], "bare-generic")
    same(dict, dict[Any, Any], "bare-generic")
    same(Sequence, Sequence[Any], "bare-generic")
    same(Tuple, Tuple[Any, ...], "bare-generic")
    differ(List[int], List[str], "argument-changed")
    differ(List[int], Set[int], "origin-changed")
    differ(Dict[str, int], Dict[int, str], "arguments-swapped")

    class G(typing.Generic[T1, TB, TC]):
        pass
    same(G, G[Any, int, Union[int, str]], "implicit-params: Any / bound / union of constraints")
    # --- literals: merge / split / None / typed members
    lits = [0, 1, False, True, "a", b"a", Col.R, Col.G]
    for a, b in itertools.combinations(lits, 2):
        same(Literal[a, b], Union[Literal[a], Literal[b]], "literal-split")
        same(Literal[a, b], Literal[b, a], "literal-reorder")
        same(Literal[a, b], Union[Literal[b], Literal[a], Literal[a]], "literal-dup")
        differ(Literal[a], Literal[b], "literal-member-changed (typed)")
        differ(Literal[a, b], Literal[a], "literal-member-removed")
        same(Optional[Literal[a, b]], Union[Literal[a], None, Literal[b]], "literal-optional")
    for a, b, c in itertools.combinations(lits, 3):
        same(Literal[a, b, c], Union[Literal[a], Literal[b, c]], "literal-merge3")
        differ(Literal[a, b, c], Literal[a, b], "literal-member-removed3")
    # literals holding None next to separately written literals (merge happens after unfolding)
    for a, b in itertools.combinations(["a", 1, Col.R, b"a"], 2):
        same(Union[Literal[a], Literal[None, b]], Optional[Literal[a, b]], "literal-none-merge")
        same(Union[Literal[a], Literal[None, b]], Literal[a, b, None], "literal-none-merge")
        same(Union[Literal[None, a], Literal[None, b]], Optional[Literal[a, b]], "literal-none-merge")
        same(Union[Literal[a], Literal[None, b], int], Union[None, int, Literal[a, b]], "literal-none-merge")
    # the spelling of nested arguments (typing alias vs builtin generic) never influences the normal form
    spell = [(List[int], list[int]), (Dict[str, int], dict[str, int]), (Set[int], set[int])]
    for (t_alias, t_builtin), (x, y) in itertools.product(spell, [(float, int), (str, bytes), (int, str)]):
        same(Union[Tuple[t_alias, x], Tuple[t_builtin, y]], Union[Tuple[t_builtin, x], Tuple[t_alias, y]], "nested-alias-spelling")
        same(Union[Tuple[t_alias, x], Tuple[t_builtin, y]], Union[tuple[t_builtin, y], tuple[t_builtin, x]], "nested-alias-spelling")
        same(Union[Dict[str, t_alias], Dict[str, x]], Union[dict[str, x], dict[str, t_builtin]], "nested-alias-spelling")
        same(List[Union[t_alias, x]], list[Union[x, t_builtin]], "nested-alias-spelling")
    same(Literal[None], None, "Literal[None]")
    same(Optional[int], Union[int, Literal[None]], "Literal[None] in union")
    # --- idempotence on everything seen
    pool = atoms + [Union[int, str], Optional[List[int]], Literal[0, False], Literal["a", 1], List, Dict, G,
                    Union[Literal[0], Literal[False], str]]
    n_id = 0
    for tp in pool:
        n_id += 1
        try:
            n1 = norm(tp)
            n2 = norm(n1.source)
            ok = n1 == n2 and hash(n1) == hash(n2)
            detail = f"{n1!r} vs {n2!r}"
        except Exception as e:  # noqa: BLE001
            ok, detail = False, f"{type(e).__name__}: {e}"
        if not ok:
            viol.append({"unit": "normalize_type", "clause": "idempotent", "witness": f"{tp!r}"[:160],
                         "w": {"native_outcome": detail[:300], "input": repr(tp)[:200]}})
    return [{
        "obligations": 0, "discharged": 0, "violations": viol,
        "bounded": [{"unit": "TypeNormalizer.normalize on live typing objects",
                     "bound": f"hint grammar over {len(atoms)} atoms, unions of 2-3 members, literals over {len(lits)} confusable "
                              f"values: {n_eq} equal-form pairs, {n_ne} distinct-form pairs, {n_id} idempotence checks"}],
        "samples": [{"equal_pairs": n_eq, "distinct_pairs": n_ne, "idempotence": n_id, "failed": len(viol)}],
        "assumptions": ["typing reflection (get_origin/get_args/__parameters__) is outside the contracts"],
        "solver_time": 0.0,
    }]
