"""Native harness: runs the *real* closure (built by the real factory method with stub sub-loaders) on a catalogue
of concrete scenarios and evaluates contract clauses on the observed outcome.

Used for (1) confirming counter-examples of failed obligations on the real code (replay) and (2) the CPython
cross-check of the contracts/encoding on the unchanged tree (DESIGN.md §8.3): a clause that is *discharged* but false
natively means the engine or a theory row is wrong (checker error, exit 3), never a pass.
Nothing here is counted as proof.
"""
from __future__ import annotations

import ast
import collections
import itertools
import traceback

from . import extract
from .concrete import concrete_env
from .universe import CELL_NAMES, N_CELLS, rep

extract.ensure_repo_on_path()
from adaptix._internal.morphing.load_error import LoadError, ValueLoadError  # noqa: E402
from adaptix._internal.struct_trail import append_trail, get_trail  # noqa: E402


class StubError(ValueLoadError):
    pass


class StubLoader:
    """A deterministic sub-loader satisfying LD: rejects exactly `reject(x)` with a fresh LoadError that already
    carries an inner trail (so that 'the old trail is kept' is observable)."""

    def __init__(self, name, reject, exc_cls=StubError, inner_trail=("inner",)):
        self.name = name
        self.reject = reject
        self.exc_cls = exc_cls
        self.inner_trail = tuple(inner_trail)
        self.calls = []
        self.result_fn = None

    def accepts(self, x):
        try:
            return not self.reject(x)
        except Exception:  # noqa: BLE001
            return True

    def result(self, x):
        if self.result_fn is not None:
            return self.result_fn(x)
        return (self.name, _freeze(x))

    def __call__(self, x):
        self.calls.append(x)
        if not self.accepts(x):
            e = self.exc_cls("stub rejects", x)
            for t in reversed(self.inner_trail):
                append_trail(e, t)
            e._stub_origin = (self, x)
            e._stub_call_index = len(self.calls) - 1
            e._initial_trail = list(self.inner_trail)
            raise e
        return self.result(x)

    def __repr__(self):
        return f"<stub {self.name}>"


class StubDumper(StubLoader):
    """sub-dumper: may raise any Exception (here: KeyError)"""

    def __init__(self, name, reject):
        super().__init__(name, reject, exc_cls=_StubDumpError)


class _StubDumpError(KeyError):
    def __init__(self, msg, value):
        super().__init__(msg)
        self.input_value = value


def _freeze(x):
    try:
        hash(x)
        return x
    except TypeError:
        return ("unhashable", repr(x))


REJECTS = [
    ("never", lambda x: False),
    ("always", lambda x: True),
    ("second", lambda x: x in (2, "b") if _hashable(x) else False),
    ("first", lambda x: x in (1, "a", 0) if _hashable(x) else True),
    ("ge2", lambda x: isinstance(x, int) and not isinstance(x, bool) and x >= 2),
    ("str", lambda x: isinstance(x, str)),
]


def _hashable(x):
    try:
        hash(x)
        return True
    except TypeError:
        return False


EXTRA_INPUTS = [
    ("list3", lambda: [1, 2, 3]),
    ("list_2_2", lambda: [2, 2]),
    ("list5", lambda: [0, 1, 2, 3, 2]),
    ("tuple_ab", lambda: ("a", "b")),
    ("dict3", lambda: {"a": 1, "b": 2, "c": 3}),
    ("dict_b", lambda: {"b": 2}),
    ("dict_int_keys", lambda: {1: "a", 2: "b"}),
    ("set2", lambda: {1, 2}),
    ("iter3", lambda: iter([1, 2, 3])),
    ("nested", lambda: [[1], [2]]),
    ("str_ab", lambda: "ab"),
    ("list_none", lambda: [None, 2]),
    ("list_one", lambda: [5]),
    ("list_bools", lambda: [True, False]),
    ("iter1", lambda: iter([1])),
    ("iter0", lambda: iter([])),
    ("tuple4", lambda: (1, 2, 3, 4)),
]


def catalogue():
    for c in range(N_CELLS):
        yield CELL_NAMES[c], (lambda c=c: rep(c))
    yield from EXTRA_INPUTS


# ------------------------------------------------------------------------------------------ clause compilation
class _Lazy(ast.NodeTransformer):
    """implies(a, b) -> (not a) or b ; ite(c, a, b) -> a if c else b   (so that undefined names on untaken sides do not
    matter); py(lambda.., ..) stays a call."""

    def visit_Call(self, node):
        self.generic_visit(node)
        if isinstance(node.func, ast.Name):
            if node.func.id == "implies" and len(node.args) == 2:
                return ast.BoolOp(op=ast.Or(), values=[ast.UnaryOp(op=ast.Not(), operand=node.args[0]), node.args[1]])
            if node.func.id == "ite" and len(node.args) == 3:
                return ast.IfExp(test=node.args[0], body=node.args[1], orelse=node.args[2])
        return node


_code_cache = {}


def compile_clause(expr):
    code = _code_cache.get(expr)
    if code is None:
        tree = ast.parse(expr.strip(), mode="eval")
        tree = ast.fix_missing_locations(_Lazy().visit(tree))
        code = _code_cache[expr] = compile(tree, "<clause>", "eval")
    return code


class Undefined:
    def __getattr__(self, item):
        raise AttributeError(item)

    def __repr__(self):
        return "<undefined>"


def ghost_env(bound):
    """native meaning of the contract-language ghosts"""
    rng = range(-1, bound + 2)
    from .speceval import SPEC_CONSTS  # noqa: F401

    def forall(f):
        n = f.__code__.co_argcount
        return all(_safe(f, combo) for combo in itertools.product(rng, repeat=n))

    def exists(f):
        n = f.__code__.co_argcount
        return any(_safe(f, combo, default=False) for combo in itertools.product(rng, repeat=n))

    def _safe(f, combo, default=True):
        try:
            return bool(f(*combo))
        except (IndexError, KeyError):
            # out-of-range index inside a guarded body: the guard decides; treat as vacuous
            return default

    def is_err(e, f, x):
        o = getattr(e, "_stub_origin", None)
        return o is not None and o[0] is f and (o[1] is x or (type(o[1]) is type(x) and _eq(o[1], x)))

    def trail_top_is(e, k):
        return list(get_trail(e)) == [k] + list(getattr(e, "_initial_trail", []))

    def trail_unchanged(e):
        return list(get_trail(e)) == list(getattr(e, "_initial_trail", []))

    def top_index(e):
        t = list(get_trail(e))
        k = t[0] if t else -10 ** 6
        return k if isinstance(k, int) else -10 ** 6

    def elem_error(e, f, seq, bnd):
        j = top_index(e)
        return 0 <= j < bnd and j < len(seq) and (not f.accepts(seq[j])) and is_err(e, f, seq[j]) and trail_top_is(e, j)

    def elems(x):
        return getattr(x, "_recorded", None) if hasattr(x, "_recorded") else _elems_of(x)

    env = {
        "forall": forall, "exists": exists, "ok": lambda f, x: f.accepts(x), "res": lambda f, x: f.result(x),
        "is_err": is_err, "trail_top_is": trail_top_is, "trail_unchanged": trail_unchanged, "top_index": top_index,
        "elem_error": elem_error, "built_from": lambda r: list(r), "construct": lambda f, s: f(s),
        "is_fresh": lambda r: True, "elems": elems, "raised_on": lambda e: getattr(e, "_stub_origin", (None, None))[1],
        "raised_by": lambda e: getattr(e, "_stub_origin", (None, None))[0],
        "key_at": lambda d, i: list(d.items())[i][0], "val_at": lambda d, i: list(d.items())[i][1],
        "map_len": lambda d: len(d), "ItemKey": _itemkey(), "py_eq": _eq,
        "origin_idx": lambda e: getattr(e, "_stub_call_index", -10 ** 6),
        "trail_top": lambda e: (list(get_trail(e)) or [Undefined()])[0],
        "has_key": lambda d, k: _hashable(k) and k in d,
        "forall_val": None,
        "issub": lambda c, b: isinstance(c, type) and issubclass(c, b),
        "errcls": lambda f, x: f.exc_cls,
        "contains": lambda coll, x: any(_eq(x, c) and True for c in coll),
        "same_items": lambda a, b: type(a) is tuple and list(a) == _elems_of(b),
        "err_rank": lambda e: 2 * getattr(e, "_stub_call_index", -10 ** 6) + (0 if isinstance((list(get_trail(e)) or [None])[0], _itemkey()) else 1),
    }
    return env


def _itemkey():
    from adaptix._internal.struct_trail import ItemKey
    return ItemKey


def _eq(a, b):
    try:
        return bool(a == b)
    except Exception:  # noqa: BLE001
        return False


_ELEMS = {}


def _elems_of(x):
    try:
        return list(x)
    except TypeError:
        return []


class Scenario:
    def __init__(self, label, input_name, data_factory, stubs, stub_names):
        self.label = label
        self.input_name = input_name
        self.data_factory = data_factory
        self.stubs = stubs
        self.stub_names = stub_names

    def describe(self):
        return f"input={self.input_name} stubs={self.stub_names}"


SEQ_N = 2


def native_values(kind, name, stubs):
    if isinstance(kind, tuple) and kind[0] == "const":
        return kind[1]
    if isinstance(kind, str) and kind.startswith("seq:"):
        return tuple(stubs[f"{name}#{i}"] for i in range(SEQ_N))
    if isinstance(kind, tuple) and kind[0] == "tuple":
        return tuple(stubs[f"{name}#{i}"] for i in range(len(kind[1])))
    if kind in ("LD", "ANY"):
        return stubs[name]
    if kind == "DUMP":
        return stubs[name]
    if kind == "FACTORY":
        return list
    if kind == "sym":
        return list
    raise KeyError(kind)


def build_callable(c, mod, label, stubs):
    """the real closure, obtained the way the executor obtains it"""
    if c.via is None or (c.native is not None and not stub_params(c, label)[0]):
        return c.native(mod, label) if c.native else None
    recv = c.via.receivers[label]
    obj = recv(mod) if recv is not None else None
    kinds = dict(c.via.kwargs)
    kinds.update(c.via.instance_kwargs.get(label, {}))
    kwargs = {n: native_values(k, n, stubs) for n, k in kinds.items()}
    args = [native_values(k, n, stubs) for n, k in c.via.args.items()]
    meth = c.via.entry.split(".")[-1]
    fn = getattr(obj, meth) if obj is not None else getattr(mod, meth)
    return fn(*args, **kwargs), {**dict(zip(c.via.args, args)), **kwargs}


def stub_params(c, label):
    kinds = {}
    if c.via is not None:
        kinds.update(c.via.args)
        kinds.update(c.via.kwargs)
        kinds.update(c.via.instance_kwargs.get(label, {}))
    kinds.update(c.ghosts)
    names = []
    flat = {}
    for n, k in kinds.items():
        if k in ("LD", "DUMP", "ANY"):
            names.append(n)
            flat[n] = k
        elif isinstance(k, str) and k.startswith("seq:"):
            for i in range(SEQ_N):
                names.append(f"{n}#{i}")
                flat[f"{n}#{i}"] = k[4:]
        elif isinstance(k, tuple) and k[0] == "tuple":
            for i, kk in enumerate(k[1]):
                names.append(f"{n}#{i}")
                flat[f"{n}#{i}"] = kk
    kinds = dict(kinds)
    kinds.update(flat)
    return names, kinds


def scenarios(c, label, limit=None, seed=0):
    names, kinds = stub_params(c, label)
    combos = list(itertools.product(REJECTS, repeat=len(names))) if names else [()]
    inputs = list(catalogue())
    out = []
    for (iname, ifac), combo in itertools.product(inputs, combos):
        out.append((iname, ifac, combo))
    if limit is not None and len(out) > limit:
        import random
        rnd = random.Random(seed)
        # stratified: EVERY input of the catalogue with all-accepting stubs (so one-shot iterators, look-alikes ... are never sampled
        # away), the rest of the budget at random
        core = [t for t in out if all(rn == "never" for rn, _ in t[2])]
        rest = [t for t in out if t not in core]
        out = core + rnd.sample(rest, max(0, min(len(rest), limit - len(core))))
    for iname, ifac, combo in out:
        stubs = {}
        for n, (rn, rf) in zip(names, combo):
            stubs[n] = (StubDumper if kinds[n] in ("DUMP", "ANY") and (kinds[n] == "DUMP" or rn in ("second", "ge2", "str"))
                        else StubLoader)(n, rf)
            if c.stubs and "result" in c.stubs:
                stubs[n].result_fn = c.stubs["result"]
        yield Scenario(label, iname, ifac, stubs, {n: rn for n, (rn, _) in zip(names, combo)})


def run_scenario(c, mod, sc: Scenario, clauses, param="data"):
    """returns (list of (clause, value) that are not True, outcome description)"""
    built = build_callable(c, mod, sc.label, sc.stubs)
    if built is None:
        return None, "no native callable"
    fn, entry_env = built if isinstance(built, tuple) else (built, {})
    data = sc.data_factory()
    is_oneshot = hasattr(data, "__next__")
    recorded = _elems_of(sc.data_factory()) if is_oneshot else None
    before = _snap(data)
    try:
        result = fn(data)
        out = {"returned": True, "raised": False, "result": result, "exc": Undefined()}
        desc = "returned " + _short(result)
    except Exception as e:  # noqa: BLE001
        out = {"returned": False, "raised": True, "result": Undefined(), "exc": e}
        desc = f"raised {type(e).__name__}: {_short(e)}"
    after = _snap(data)
    from .replay import closure_vars, native_env
    env = native_env(mod)
    env.update(closure_vars(fn))
    env.update(entry_env)
    n_el = len(recorded) if recorded is not None else len(_elems_of(data)) if not is_oneshot else 0
    env.update(ghost_env(2 * n_el + 2))
    if recorded is not None:
        rec = recorded
        env["elems"] = lambda x, rec=rec, data=data: rec if x is data else _elems_of(x)
        env["same_items"] = lambda a, b, rec=rec, data=data: type(a) is tuple and list(a) == (rec if b is data else _elems_of(b))
    env.update(c.consts)
    if is_oneshot:
        # native predicates get a fresh twin of a one-shot iterator (the call consumed the original)
        env["py"] = lambda f, *a, data=data, fac=sc.data_factory: f(*[fac() if x is data else x for x in a])
    for gname in c.ghosts:
        if gname in sc.stubs:
            env[gname] = sc.stubs[gname]
    env.update(out)
    env[param] = data
    cand = list(out["result"].keys()) if isinstance(out["result"], dict) else []
    env["forall_val"] = lambda f, cand=cand: all(bool(f(k)) for k in cand)
    bad = []
    # a scenario outside the precondition says nothing about the contract
    for rq in c.requires:
        try:
            if not bool(eval(compile_clause(rq), env)):  # noqa: S307
                return [], desc + " (outside the precondition)"
        except Exception:  # noqa: BLE001
            return [], desc + " (precondition not evaluable)"
    for name, expr in clauses.items():
        if name == "modifies-nothing":
            val = (before == after) or is_oneshot
        else:
            try:
                val = bool(eval(compile_clause(expr), env))  # noqa: S307
            except Exception as e:  # noqa: BLE001
                val = ("error", f"{type(e).__name__}: {e}")
        if val is not True:
            bad.append((name, val))
    return bad, desc


def _snap(v):
    if hasattr(v, "__next__"):
        return "<iterator>"
    try:
        return repr(v)
    except Exception:  # noqa: BLE001
        return "<unrepr>"


def _short(o):
    try:
        return repr(o)[:160]
    except Exception:  # noqa: BLE001
        return "<unrepr>"


def falsify(c, mod, label, clauses, limit=None, seed=0, stop_after=3):
    """Search the scenario catalogue for native violations of the given clauses.
    returns (witnesses, n_scenarios, eval_errors)"""
    wit, n, errs = [], 0, []
    for sc in scenarios(c, label, limit=limit, seed=seed):
        n += 1
        try:
            bad, desc = run_scenario(c, mod, sc, clauses)
        except Exception:  # noqa: BLE001
            errs.append((sc.describe(), traceback.format_exc()[-400:]))
            continue
        if bad is None:
            return None, 0, []
        for name, val in bad:
            if isinstance(val, tuple):
                errs.append((sc.describe(), f"{name}: {val[1]}"))
            else:
                wit.append({"clause": name, "signature": f"{sc.input_name}|{'/'.join(sc.stub_names.values())}",
                            "input": sc.input_name, "stubs": sc.stub_names, "native_outcome": desc})
        if len(wit) >= stop_after * max(1, len(clauses)):
            break
    return wit, n, errs


# ------------------------------------------------------------------------------------------ method units
class OldDict(dict):
    """snapshot of a dict in the entry state that remembers which object it was"""
    _orig = None


class _OldCollector(ast.NodeVisitor):
    def __init__(self):
        self.exprs = {}

    def visit_Call(self, node):
        if isinstance(node.func, ast.Name) and node.func.id == "old" and len(node.args) == 1:
            self.exprs[ast.unparse(node.args[0])] = node.args[0]
        self.generic_visit(node)


class _OldRewriter(ast.NodeTransformer):
    def visit_Call(self, node):
        self.generic_visit(node)
        if isinstance(node.func, ast.Name) and node.func.id == "old" and len(node.args) == 1:
            return ast.Subscript(value=ast.Name(id="__old__", ctx=ast.Load()),
                                 slice=ast.Constant(value=ast.unparse(node.args[0])), ctx=ast.Load())
        return node


def _snapshot(x):
    if isinstance(x, dict):
        o = OldDict(x)
        o._orig = x
        return o
    if isinstance(x, list):
        return list(x)
    return x


def method_ghosts():
    def same_object(a, b):
        if isinstance(b, OldDict):
            return a is b._orig
        if isinstance(a, OldDict):
            return b is a._orig
        return a is b
    return {"truthy": bool, "dict_same": lambda a, b: list(a.items()) == list(b.items()), "dict_key": lambda d, i: list(d)[i], "dict_wf": lambda d: True, "same_object": same_object,
            "has_key": lambda d, k: k in d, "mcall": lambda name, obj, *a: getattr(obj, name)(*a)}


class _AnyCount:
    """natively a call count is not observable: every comparison with it holds"""

    def __eq__(self, other):
        return True

    def __ne__(self, other):
        return False

    __lt__ = __le__ = __gt__ = __ge__ = __eq__
    __hash__ = None


def run_method_scenarios(c, mod, clauses, stop_after=4):
    """c.scenarios(mod) -> [(label, factory() -> (callable, {param: value}))].  Evaluates the clauses natively on the real
    method; `old(expr)` is evaluated before the call."""
    from .replay import native_env
    wit, errs, n = [], [], 0
    for label, factory in c.scenarios(mod):
        n += 1
        made = factory()
        fn, args = made[0], made[1]
        extra_env = made[2] if len(made) > 2 else {}
        olds = {}
        env0 = native_env(mod)
        env0.update(ghost_env(6))
        env0.update(method_ghosts())

        def _opq(name):
            return c.opaque[name][0](mod)

        def opaque_ok(name, *a):
            try:
                _opq(name)(*a)
                return True
            except Exception:  # noqa: BLE001
                return False
        env0["mcalls"] = lambda name: _AnyCount()     # call counts are a matter of the symbolic call log only
        env0["opaque_res"] = lambda name, *a: _opq(name)(*a)
        env0["opaque_ok"] = opaque_ok
        env0.update(c.consts)
        env0.update(extra_env)
        env0.update(args)
        # scenarios outside the precondition say nothing about the contract
        try:
            if not all(bool(eval(compile(ast.fix_missing_locations(_Lazy().visit(ast.parse(rq.strip(), mode="eval"))),  # noqa: S307
                                         "<requires>", "eval"), env0)) for rq in c.requires):
                n -= 1
                continue
        except Exception:  # noqa: BLE001
            n -= 1
            continue
        coll = _OldCollector()
        trees = {}
        for name, expr in clauses.items():
            t = ast.parse(expr.strip(), mode="eval")
            coll.visit(t)
            trees[name] = t
        for src, node in coll.exprs.items():
            try:
                olds[src] = _snapshot(eval(compile(ast.Expression(body=node), "<old>", "eval"), env0))  # noqa: S307
            except Exception as e:  # noqa: BLE001
                olds[src] = Undefined()
        try:
            result = fn(**args)
            out = {"returned": True, "raised": False, "result": result, "exc": Undefined()}
            desc = "returned " + _short(result)
        except Exception as e:  # noqa: BLE001
            out = {"returned": False, "raised": True, "result": Undefined(), "exc": e}
            desc = f"raised {type(e).__name__}: {_short(e)}"
        env = dict(env0)
        env.update(out)
        env["__old__"] = olds
        for name, t in trees.items():
            t2 = ast.fix_missing_locations(_Lazy().visit(_OldRewriter().visit(t)))
            try:
                val = bool(eval(compile(t2, "<clause>", "eval"), env))  # noqa: S307
            except Exception as e:  # noqa: BLE001
                errs.append((label, f"{name}: {type(e).__name__}: {e}"))
                continue
            if val is not True:
                wit.append({"clause": name, "signature": label, "input": label, "native_outcome": desc})
        if len(wit) >= stop_after * max(1, len(clauses)):
            break
    return wit, n, errs
