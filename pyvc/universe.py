"""The data universe D as a finite partition into cells, one representative factory per cell.

Every symbolic input datum ``d`` carries ``cell(d)``.  The outcome of a built-in / stdlib callee on ``d``
(return class or exception class) is *probed* on the representative of each live cell in the interpreter
that also runs the replay.  The remaining assumption (printed in every evidence file) is uniformity of
that outcome inside a cell.  Cells are deliberately fine (one per representative) so that every
distinction the verified code draws (``type(x) is``, ``isinstance``, ``startswith`` on messages …)
refines them.
"""
from __future__ import annotations

import collections
import datetime
import io
import re
import enum
import types
import uuid
from decimal import Decimal
from fractions import Fraction


class _IntE(enum.IntEnum):
    A = 1
    B = 5


class _StrSub(str):
    pass


class _Opaque:
    __slots__ = ()

    def __repr__(self):
        return "<opaque>"


def _bytesio_read():
    b = io.BytesIO(b"abcdef")
    b.read(2)
    return b


def _gen():
    yield 1
    yield 2


# (name, factory, tags)  -- tags are only used for documentation / sampling
CELLS = [
    ("None", lambda: None),
    ("True", lambda: True),
    ("False", lambda: False),
    ("int0", lambda: 0),
    ("int1", lambda: 1),
    ("int_pos", lambda: 7),
    ("int_neg", lambda: -3),
    ("int_huge", lambda: 10 ** 400),
    ("int_neghuge", lambda: -(10 ** 400)),
    ("int_5000digits", lambda: 10 ** 5000),   # beyond sys.get_int_max_str_digits(): str() / repr() of it raise ValueError
    ("int_big_ts", lambda: 10 ** 13),
    ("int_1e17", lambda: 10 ** 17),          # a timestamp the platform's time_t conversion refuses (OSError EOVERFLOW)
    ("intenum", lambda: _IntE.A),
    ("float_pos", lambda: 1.5),
    ("float_neg", lambda: -2.5),
    ("float_zero", lambda: 0.0),
    ("float_int", lambda: 3.0),
    ("float_one", lambda: 1.0),
    ("float_nan", lambda: float("nan")),
    ("float_inf", lambda: float("inf")),
    ("float_ninf", lambda: float("-inf")),
    ("float_max", lambda: 1.7e308),
    ("str_int", lambda: "12"),
    ("str_negint", lambda: "-7"),
    ("str_float", lambda: "1.5"),
    ("str_frac", lambda: "1/2"),
    ("str_frac0", lambda: "1/0"),
    ("str_junk", lambda: "zz"),
    ("str_empty", lambda: ""),
    ("str_nonascii", lambda: "é"),
    ("str_isodate", lambda: "2020-01-02"),
    ("str_isotime", lambda: "10:20:30"),
    ("str_isodt", lambda: "2020-01-02T10:20:30"),
    ("str_complex", lambda: "1+2j"),
    ("str_nan", lambda: "nan"),
    ("str_inf", lambda: "inf"),
    ("str_b64", lambda: "AQID"),
    ("str_b64_badlen", lambda: "A"),
    ("str_b64_pad", lambda: "AQ=="),
    ("str_b64_newline", lambda: "AQID\n"),          # valid base64 followed by a line feed (`$` matches before it, a2b_base64 skips it)
    ("str_newline", lambda: "\n"),
    ("str_regex_bad", lambda: "(["),
    ("str_regex_overflow", lambda: "a{99999999999999}"),
    ("str_uuid", lambda: "12345678-1234-5678-1234-567812345678"),
    ("str_ip4", lambda: "127.0.0.1"),
    ("str_ident", lambda: "A"),
    ("str_space", lambda: " 12 "),
    ("str_underscore_num", lambda: "1_000"),
    ("str_sub", lambda: _StrSub("12")),
    ("bytes", lambda: b"ab"),
    ("bytes_empty", lambda: b""),
    ("bytearray", lambda: bytearray(b"ab")),
    ("decimal", lambda: Decimal("1.5")),
    ("decimal_neg", lambda: Decimal("-0.5")),
    ("decimal_one", lambda: Decimal("1")),
    ("decimal_nan", lambda: Decimal("NaN")),
    ("decimal_snan", lambda: Decimal("sNaN")),
    ("decimal_inf", lambda: Decimal("Infinity")),
    ("decimal_huge", lambda: Decimal("1e400")),
    ("fraction", lambda: Fraction(1, 2)),
    ("complex", lambda: 1 + 2j),
    ("complex_one", lambda: 1 + 0j),
    ("fraction_zero", lambda: Fraction(0)),
    ("list_empty", lambda: []),
    ("list_ints", lambda: [1, 2]),
    ("list_strs", lambda: ["a", "b"]),
    ("list_unhashable", lambda: [[1]]),
    ("list_dups", lambda: ["A", "A"]),
    ("list_a_nope", lambda: ["a", "nope"]),
    ("list_a", lambda: ["a"]),
    ("list_a_inner", lambda: ["a", ["b"]]),
    ("list_b_a", lambda: ["b", "a"]),
    ("tuple_ab", lambda: ("a", "b")),
    ("set_a", lambda: {"a"}),
    ("dict_a", lambda: {"a": 1}),
    ("str_a", lambda: "a"),
    ("iter_ab", lambda: iter(["a", "b"])),
    ("tuple_empty", lambda: ()),
    ("tuple_ints", lambda: (1, 2)),
    ("tuple_one", lambda: (1,)),
    ("tuple_three", lambda: (1, 2, 3)),
    ("dict_empty", lambda: {}),
    ("dict_str", lambda: {"a": 1}),
    ("dict_int", lambda: {0: 1, 1: 2}),
    ("ordereddict", lambda: collections.OrderedDict(a=1)),
    ("mappingproxy", lambda: types.MappingProxyType({"a": 1})),
    ("set_empty", lambda: set()),
    ("set_ints", lambda: {1}),
    ("frozenset", lambda: frozenset({1})),
    ("iterator", lambda: iter([1, 2])),
    ("generator", _gen),
    ("range", lambda: range(2)),
    ("deque", lambda: collections.deque([1])),
    ("uuid", lambda: uuid.UUID(int=1)),
    ("opaque", _Opaque),
    # typed values: the arguments of the scalar dumpers (and odd inputs of every loader)
    ("date", lambda: datetime.date(2020, 1, 2)),
    ("date_epoch", lambda: datetime.date(1970, 1, 1)),
    ("datetime_naive", lambda: datetime.datetime(2020, 1, 2, 10, 20, 30, 123456)),
    ("datetime_utc", lambda: datetime.datetime(2020, 1, 2, 0, 20, 30, tzinfo=datetime.timezone.utc)),
    ("datetime_plus3", lambda: datetime.datetime(2020, 1, 2, 1, 20, 30, tzinfo=datetime.timezone(datetime.timedelta(hours=3)))),
    ("time", lambda: datetime.time(10, 20, 30)),
    ("timedelta_pos", lambda: datetime.timedelta(minutes=10, microseconds=5)),
    ("timedelta_negfrac", lambda: datetime.timedelta(seconds=-2.5)),
    ("timedelta_zero", lambda: datetime.timedelta(0)),
    ("bytes_bin3", lambda: b"\xff\xfe\xfd"),
    ("bytes_long", lambda: bytes(range(70))),        # base64 text longer than one MIME line (76 characters)
    ("bytesio", lambda: io.BytesIO(b"abc")),
    ("bytesio_read", _bytesio_read),                 # the stream position is not at the start
    ("pattern", lambda: re.compile("a+b")),
    ("pattern_flags", lambda: re.compile("a+b", re.IGNORECASE)),
]

CELL_NAMES = [c[0] for c in CELLS]
N_CELLS = len(CELLS)
CELL_INDEX = {n: i for i, n in enumerate(CELL_NAMES)}


def rep(i: int):
    """A fresh representative of cell i."""
    return CELLS[i][1]()


def rep_class(i: int):
    return type(rep(i))


def cells_where(pred) -> frozenset:
    out = set()
    for i in range(N_CELLS):
        try:
            if pred(rep(i)):
                out.add(i)
        except Exception:  # noqa: BLE001
            pass
    return frozenset(out)
