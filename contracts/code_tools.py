"""Contracts for code_tools/utils.py (C08): the literal rendering of default values.

`get_literal_expr(obj)` decides whether a default value is inlined into the generated loader as source text.  The property
(C08) fixes its post-condition: whenever text is returned, evaluating that text gives a value EQUAL TO AND OF EXACTLY THE SAME
TYPE AS the object (recursively for containers) — "never a look-alike such as True for Decimal('1') or for an IntEnum
member".  Returning None (the object is then captured as a namespace constant) is always allowed.

Leaves are quantified over the whole data universe D (symbolic cell); container shapes are a printed family (bounded over
shapes: the evaluation of concatenated source text is judged by CPython's `eval`, not by a model of the Python grammar).
"""
import builtins
import collections
import enum
import math
import typing
from decimal import Decimal
from fractions import Fraction

from pyvc.contracts import contract

F = "code_tools/utils.py"


class _P(enum.IntEnum):
    ONE = 1
    ZERO = 0


class _MyInt(int):
    pass


class _Raw(str):
    """a str whose repr is its own text: rendering it through repr() would paste the text into the generated source (C19)"""

    def __repr__(self):
        return str(self)


class _Point(typing.NamedTuple):
    x: int = 0
    y: int = 0


class _MyList(list):
    pass


class _MyTuple(tuple):
    pass


class _MySet(set):
    pass


class _MyFrozenSet(frozenset):
    pass


class _MyDict(dict):
    pass


class _MyStr(str):
    pass


class _MyBytes(bytes):
    pass


class _Meters(int):
    def __repr__(self):
        return f"{int(self)} m"


def _same(a, b):
    """equal, of exactly the same type, recursively"""
    if type(a) is not type(b):
        return False
    if isinstance(a, float) and math.isnan(a) and math.isnan(b):
        return True
    if isinstance(a, (list, tuple)):
        return len(a) == len(b) and all(_same(x, y) for x, y in zip(a, b))
    if isinstance(a, (set, frozenset)):
        return len(a) == len(b) and all(any(_same(x, y) for y in b) for x in a)
    if isinstance(a, dict):
        return len(a) == len(b) and all(any(_same(k, k2) and _same(v, v2) for k2, v2 in b.items()) for k, v in a.items())
    if isinstance(a, (range, slice)):
        return _same((a.start, a.stop, a.step), (b.start, b.stop, b.step))
    try:
        return bool(a == b)
    except Exception:  # noqa: BLE001
        return a is b


class _Unevaluable:
    pass


def _eval(text):
    try:
        return eval(text, {"__builtins__": builtins})  # noqa: S307
    except BaseException:  # noqa: BLE001
        return _Unevaluable()


CONSTS = {"SAME": _same, "EVAL": _eval}
POST = {
    "raises-nothing": "returned",
    "evaluates-back": "implies(returned and result is not None, py(lambda o, r: type(r) is str and SAME(EVAL(r), o), obj, result))",
}
CP = {"raises-nothing": ["C08", "C19"], "evaluates-back": ["C08", "C19"], "modifies-nothing": ["C20"]}

contract(F, "get_literal_expr", name=f"{F}:get_literal_expr[leaf]", props=["C08", "C19", "C20"], params={"obj": "D"},
         requires=["py(lambda o: type(o) not in (list, tuple, set, frozenset, dict, slice, range), obj)"],
         prefer_shadow=True, post=POST, clause_props=CP, consts=CONSTS, cover=["returned and result is None",
                                                                             "returned and result is not None"],
         notes=["containers proper (exact list/tuple/set/frozenset/dict/slice/range) are the shape family below",
                "leaf objects: every cell of the data universe D (incl. the look-alikes Decimal('1'), Fraction(0), 1+0j, IntEnum)"])

SHAPES = {
    "tuple0": (), "tuple1": (7,), "tuple2": (7, "zz"), "tuple-nested": ((1,), [2, (3,)]),
    "list0": [], "list1": [None], "list-lookalike": [Decimal(1), 2], "tuple-lookalike": (Fraction(0), _P.ONE, _MyInt(1), 1.0, True, 1),
    "set0": set(), "set3": {3, 1, 2}, "set-mixed": {1, "zz"}, "frozenset0": frozenset(), "frozenset2": frozenset({2, "A"}),
    "frozenset-lookalike": frozenset({Decimal(1)}),
    "slice-stop": slice(10), "slice3": slice(1, 10, 2), "slice-none": slice(None, None, -1),
    "range-stop": range(10), "range3": range(0, 10, 2), "range-neg": range(10, 0, -3),
    "dict0": {}, "dict2": {"a": 1, 2: [True]}, "dict-lookalike": {Decimal(0): _P.ZERO, "k": complex(1)},
    "bytearray": bytearray(b"ab"), "nan-inside": (float("nan"),), "inf-inside": [float("inf")],
    "ellipsis": ..., "notimplemented": NotImplemented, "builtin-type": int, "builtin-func": len, "exc-alias": IOError,
    "raw-code": _Raw("1 + 1"), "raw-call": _Raw("setattr(__import__('builtins'), 'C19_CANARY', True)"), "raw-in-tuple": (_Raw("x y"), 1), "meters": _Meters(5),
    # instances of SUBCLASSES of the containers: a literal of the base class is a different default (type, attributes, methods)
    "namedtuple": _Point(0, 0), "namedtuple-inside": (_Point(1, 2),), "list-subclass": _MyList([1]), "tuple-subclass": _MyTuple((1, 2)),
    "set-subclass": _MySet({1}), "frozenset-subclass": _MyFrozenSet({1}), "dict-subclass": _MyDict(a=1),
    "ordereddict": collections.OrderedDict(a=1), "defaultdict": collections.defaultdict(list), "str-subclass-inside": [_MyStr("zz")],
    "bytes-subclass": _MyBytes(b"ab"), "deque": collections.deque([1]),
    "intenum-zero": _P.ZERO, "myint-one": _MyInt(1), "myint": _MyInt(7), "neg-zero": -0.0, "bool-in-tuple": (True, False, None),
}
for label, shape in SHAPES.items():
    contract(F, "get_literal_expr", name=f"{F}:get_literal_expr[{label}]", props=["C08", "C19", "C20"],
             params={"obj": ("const", shape)}, post=POST, clause_props=CP, consts=CONSTS,
             notes=[f"container shape {label}: {shape!r}"])

FACTORIES = {"list": list, "dict": dict, "tuple": tuple, "str": str, "bytes": bytes, "NoneType": type(None), "set": set,
             "int": int, "float": float, "bool": bool, "frozenset": frozenset, "bytearray": bytearray, "Decimal": Decimal,
             "lambda": (lambda: [1])}
for label, fac in FACTORIES.items():
    contract(F, "get_literal_from_factory", name=f"{F}:get_literal_from_factory[{label}]", props=["C08", "C20"],
             params={"obj": ("const", fac)}, consts={**CONSTS, "FAC": fac},
             post={"raises-nothing": "returned",
                   "evaluates-to-factory-result": "implies(returned and result is not None, py(lambda r: SAME(EVAL(r), FAC()), result))"},
             clause_props={"raises-nothing": ["C08"], "evaluates-to-factory-result": ["C08"], "modifies-nothing": ["C20"]},
             notes=[f"default factory {label}"])


# ---------------------------------------------------------------------------------------------- name sanitizer (C19)
FS = "code_tools/name_sanitizer.py"
HOSTILE_NAMES = ["x y", "a²b", 'M"; import os #', "1st", "Ünï", "a.b[c]", "M\nN", "$M", "{M}", "class", "M'", "\\",
                 "None", "True", "import", "a①", "a·b", "a٠", "²", "a\U0001d7d8", "model_loader_x y", "_", "a b\tc", "a-b", "ab‍", "á"]


def _sanitizer_scenarios(names):
    def gen(mod):
        out = []
        for n in names:
            def factory(n=n):
                return mod.BuiltinNameSanitizer.sanitize, {"self": mod.BuiltinNameSanitizer(), "name": n}
            out.append((repr(n), factory))
        return out
    return gen


def _d_strings(mod):
    from pyvc.universe import N_CELLS, rep
    return [rep(i) for i in range(N_CELLS) if isinstance(rep(i), str)]


SAN_POST = {
    "raises-nothing": "returned",
    # the result is used as (a part of) the name of a generated `def`: it must be an identifier, whatever the input was
    "identifier": ("implies(returned, py(lambda n, r: type(r) is str and (r == '' if n == '' else r.isidentifier() and not ISKW(r)), "
                   "name, result))"),
}
contract(FS, "BuiltinNameSanitizer.sanitize", name=f"{FS}:BuiltinNameSanitizer.sanitize[D]", props=["C19"],
         params={"self": ("constf", lambda m: m.BuiltinNameSanitizer()), "name": "D"}, prefer_shadow=True,
         requires=["py(lambda n: type(n) is str, name)"], post=SAN_POST, consts={"ISKW": __import__("keyword").iskeyword},
         scenarios=lambda mod: _sanitizer_scenarios(_d_strings(mod))(mod), cover=["returned"],
         clause_props={"raises-nothing": ["C19"], "identifier": ["C19"], "modifies-nothing": ["C20"]})
for i, hn in enumerate(HOSTILE_NAMES):
    contract(FS, "BuiltinNameSanitizer.sanitize", name=f"{FS}:BuiltinNameSanitizer.sanitize[hostile{i}]", props=["C19"],
             params={"self": ("constf", lambda m: m.BuiltinNameSanitizer()), "name": ("const", hn)}, post=SAN_POST,
             consts={"ISKW": __import__("keyword").iskeyword},
             scenarios=_sanitizer_scenarios([hn]), notes=[f"hostile name {hn!r}"],
             clause_props={"raises-nothing": ["C19"], "identifier": ["C19"], "modifies-nothing": ["C20"]})


# ---------------------------------------------------------------------------------------------- attribute access in generated dumpers (C19)
FD = "morphing/model/dumper_gen.py"
ATTR_NAMES = ["a", "from", "class", "None", "x y", "a.b", "ñ", "_private", "a'b", 'a"b', "import", "data", "1st", "a\nb"]


class _Holder:
    pass


def _access_ok(expr, name):
    """the access expression is valid source and reads exactly the attribute `name` of `data`"""
    h = _Holder()
    marker = object()
    try:
        setattr(h, name, marker)
        return eval(expr, {"__builtins__": builtins, "data": h}) is marker  # noqa: S307
    except BaseException:  # noqa: BLE001
        return False


def _field_for(name):
    def mk(m):
        from types import MappingProxyType

        from adaptix._internal.model_tools.definitions import NoDefault, OutputField, create_attr_accessor
        return OutputField(id="f", type=int, default=NoDefault(), metadata=MappingProxyType({}), original=None,
                           accessor=create_attr_accessor(name, is_required=True))
    return mk


for i, an in enumerate(ATTR_NAMES):
    contract(FD, "BuiltinModelDumperGen._gen_access_expr", name=f"{FD}:BuiltinModelDumperGen._gen_access_expr[attr{i}]", props=["C19"],
             params={"self": ("const", None), "namespace": ("const", None), "field": ("constf", _field_for(an))},
             consts={"ACCESS_OK": _access_ok, "NAME": an}, frame=False,
             post={"raises-nothing": "returned",
                   "reads-the-attribute": "implies(returned, py(lambda r: type(r) is str and ACCESS_OK(r, NAME), result))"},
             scenarios=(lambda mod, an=an: [(repr(an), (lambda: (mod.BuiltinModelDumperGen._gen_access_expr,
                                                                {"self": None, "namespace": None, "field": _field_for(an)(mod)},
                                                                {"ACCESS_OK": _access_ok, "NAME": an})))]),
             notes=[f"attribute named {an!r}"])
