"""Contracts for conversion/coercer_provider.py (C14): a value is passed through unchanged only in the documented cases.

The top-level clauses are the property text: “… or the source (union) is a subset of the destination union *by type
equality*”.  `strip_tags`, `is_generic`, `is_parametrized`, `is_subclass_soft` are abstracted as deterministic total
functions (assumed); `==` on normalised types is the relation py_eq (its congruence is C15's concern).
"""
from typing import Any, Union

from pyvc.contracts import contract

F = "conversion/coercer_provider.py"
PARAMS = {"self": ("const", None), "mediator": "sym", "request": "sym", "norm_src": "sym", "norm_dst": "sym"}
ST = "opaque_res('strip_tags', {x})"
ONLY_CP = {"raises-only-cannot-provide": "implies(raised, type(exc) is CannotProvide)",
           "as-is-or-refuse": "implies(returned, result is as_is_stub_with_ctx)"}
OPQ = {"strip_tags": (lambda m: m.strip_tags, []), "is_generic": (lambda m: m.is_generic, []),
       "is_parametrized": (lambda m: m.is_parametrized, []), "is_subclass_soft": (lambda m: m.is_subclass_soft, [])}


def _norm_scenarios(cls_name):
    def gen(mod):
        from typing import Dict, List, Optional
        from adaptix._internal.type_tools import normalize_type
        from typing import Iterable, Sequence
        pool = [int, str, bool, bytes, range, List[int], List[str], Dict[str, int], Union[int, str], Union[List[str], str],
                Optional[int], Union[int, str, bytes], Union[List[int], str], Any, object, Sequence[int], Iterable[str],
                Union[int, str, None], Optional[str]]
        out = []
        for a in pool:
            for b in pool:
                def factory(a=a, b=b):
                    prov = getattr(mod, cls_name)()
                    fn = getattr(mod, cls_name)._provide_coercer_norm_types
                    ghosts = {"opaque_res": lambda name, *x: getattr(mod, name)(*x)}
                    return fn, {"self": prov, "mediator": None, "request": None, "norm_src": normalize_type(a),
                                "norm_dst": normalize_type(b)}, ghosts
                out.append((f"{a!r}->{b!r}".replace("typing.", ""), factory))
        return out
    return gen


contract(F, "SameTypeCoercerProvider._provide_coercer_norm_types", props=["C14"], params=PARAMS,
         post={**ONLY_CP, "same-type": "implies(returned, py_eq(norm_src, norm_dst))"},
         scenarios=_norm_scenarios("SameTypeCoercerProvider"), cover=["returned", "raised"])
contract(F, "DstAnyCoercerProvider._provide_coercer_norm_types", props=["C14"], params=PARAMS,
         post={**ONLY_CP, "dst-any": "implies(returned, py_eq(norm_dst.origin, Any))"},
         scenarios=_norm_scenarios("DstAnyCoercerProvider"), cover=["returned", "raised"])
contract(F, "SubclassCoercerProvider._provide_coercer_norm_types", props=["C14"], params=PARAMS, opaque=OPQ,
         post={**ONLY_CP,
               "non-generic-subclass": ("implies(returned, not truthy(opaque_res('is_generic', norm_src.source)) and "
                                        "not truthy(opaque_res('is_parametrized', norm_src.source)) and "
                                        "not truthy(opaque_res('is_generic', norm_dst.source)) and "
                                        "not truthy(opaque_res('is_parametrized', norm_dst.source)) and "
                                        "truthy(opaque_res('is_subclass_soft', norm_src.origin, norm_dst.origin)))")},
         scenarios=_norm_scenarios("SubclassCoercerProvider"), cover=["returned", "raised"])
SA, DA = "norm_src.args", "norm_dst.args"
contract(F, "UnionSubcaseCoercerProvider._provide_coercer_norm_types", props=["C14"], params=PARAMS, opaque=OPQ,
         post={**ONLY_CP,
               "dst-is-union": "implies(returned, py_eq(norm_dst.origin, Union))",
               "union-subset": (f"implies(returned and py_eq(norm_src.origin, Union), forall(lambda i: implies(0 <= i and i < len({SA}), "
                                f"exists(lambda j: 0 <= j and j < len({DA}) and py_eq({ST.format(x=SA + '[i]')}, {ST.format(x=DA + '[j]')})))))"),
               # by TYPE equality, not by origin: List[int] is not a member of Union[List[str], str]
               "member-by-type": (f"implies(returned and not py_eq(norm_src.origin, Union), exists(lambda j: 0 <= j and j < len({DA}) and "
                                  f"py_eq({ST.format(x=DA + '[j]')}, {ST.format(x='norm_src')})))")},
         scenarios=_norm_scenarios("UnionSubcaseCoercerProvider"), cover=["returned", "raised"])



# ---- Optional[S] -> Optional[D]: both sides are a union of exactly one type with None -------------------------------------
def _opt_scenarios(mod):
    from typing import List, Optional
    from adaptix._internal.type_tools import normalize_type
    out = []
    for tp in [int, Optional[int], Union[int, str], Union[int, str, None], Optional[List[int]], Union[None, int, str, bytes]]:
        def factory(tp=tp):
            prov = mod.OptionalCoercerProvider()
            return mod.OptionalCoercerProvider._is_optional, {"self": prov, "norm": normalize_type(tp)}
        out.append((repr(tp).replace("typing.", ""), factory))
    return out


contract(F, "OptionalCoercerProvider._is_optional", props=["C14"], params={"self": ("const", None), "norm": "sym"},
         post={"raises-nothing": "returned",
               # an optional is a union of None with exactly ONE other type; with more members the element-wise rule does not apply
               "exactly-one-other": "implies(returned and truthy(result), len(norm.args) == 2)",
               "is-union": "implies(returned and truthy(result), py_eq(norm.origin, Union))"},
         scenarios=_opt_scenarios, cover=["returned"])


# ---- structural coercers always COPY: the converted object shares no container with the source (C20, C13, C14) -----------
COPY_PARAMS = {"mediator": "sym", "request": "sym", "norm_src": "sym", "norm_dst": "sym"}
COPY_METHODS = {"mandatory_provide": "VAL_OR_RAISE", "append_loc": "VAL"}
for _cls, _closure in (("IterableCoercerProvider", "iterable_coercer"), ("DictCoercerProvider", "dict_coercer")):
    contract(F, f"{_cls}._provide_coercer_norm_types", name=f"{F}:{_cls}._provide_coercer_norm_types[copying]",
             props=["C20", "C13", "C14"],
             params={"self": ("constf", lambda m, _cls=_cls: getattr(m, _cls)()), **COPY_PARAMS}, methods=COPY_METHODS,
             post={
                 # never the as-is stub: a container is rebuilt element by element even when the elements pass as is
                 "copying-coercer": f"implies(returned, is_closure(result, '{_closure}'))",
             },
             cover=["returned", "raised"])


# ---- Optional[S] -> Optional[D]: None stays None, every other value goes through the coercer of the wrapped types ------------
def _optional_closure_scenarios(mod):
    out = []
    for label, data in (("None", None), ("zero", 0), ("empty-list", []), ("empty-dict", {}), ("empty-str", ""), ("False", False), ("value", [1])):
        def factory(data=data):
            made = []

            def inner(d, ctx):
                made.append(("inner", d, ctx))
                return made[-1]

            class Med:
                def mandatory_provide(self, request, error_describer=None):
                    return inner

            class Req:
                def append_loc(self, **kw):
                    return self
            from typing import List, Optional
            from adaptix._internal.type_tools import normalize_type
            prov = mod.OptionalCoercerProvider()
            clo = prov._provide_coercer_norm_types(Med(), Req(), normalize_type(Optional[List[int]]), normalize_type(Optional[List[str]]))
            return (lambda data, ctx: clo(data, ctx)), {"data": data, "ctx": "CTX"}, {"not_none_coercer": inner, "res": lambda f, p: made[-1] if made else object(),
                                                                                     "pair": lambda a, b: (a, b), "stage1": clo,
                                                                                     "is_closure": lambda f, n: getattr(f, "__name__", None) == n}
        out.append((label, factory))
    return out


contract(F, "OptionalCoercerProvider._provide_coercer_norm_types", name=f"{F}:OptionalCoercerProvider._provide_coercer_norm_types[closure]",
         props=["C13", "C14", "C20"],
         params={"self": ("constf", lambda m: m.OptionalCoercerProvider()), **COPY_PARAMS}, methods=COPY_METHODS,
         opaque={"_get_not_none": (lambda m: m.OptionalCoercerProvider._get_not_none, [])},
         then={"data": "D", "ctx": "sym"}, decl_disciplines={"mcall_mandatory_provide": "ANY"},
         post={
             "none-stays-none": "implies(data is None, returned and result is None)",
             # NOT a truthiness test: 0, [], {} and '' are values
             # (the as-is stub is handed out only when the inner coercer IS the as-is stub: then the datum itself is the result)
             "value-goes-through-inner-coercer": ("implies(not (data is None) and returned, ite(is_closure(stage1, 'optional_coercer'), "
                                                  "result is res(not_none_coercer, pair(data, ctx)), result is data))"),
         },
         scenarios=_optional_closure_scenarios, cover=["returned"])


# ---- the element types of compound hints are read off the normalised hint: every hint is either parsed or refused with
# CannotProvide (C14: "in every other case ... creating the converter fails with ProviderNotFoundError" — any other exception,
# e.g. an IndexError for the argument-less Tuple[()], is neither).  Index safety is an obligation here, not an assumption.
def _parse_scenarios(cls_name, meth):
    def gen(mod):
        import collections
        import typing as t
        from adaptix._internal.type_tools import normalize_type
        pool = [t.Tuple[()], t.Tuple[int], t.Tuple[int, ...], t.Tuple[int, str], tuple, t.List[int], list, t.Set[str], t.Deque[int],
                t.Iterable[int], t.Sequence[str], t.Dict[str, int], dict, t.Mapping[str, int], t.DefaultDict[str, int],
                collections.OrderedDict, int, str, t.Any, t.Optional[int]]
        out = []
        for tp in pool:
            def factory(tp=tp):
                prov = getattr(mod, cls_name)()
                return getattr(getattr(mod, cls_name), meth), {"self": prov, "norm": normalize_type(tp)}, {}
            out.append((repr(tp).replace("typing.", ""), factory))
        return out
    return gen


for _cls in ("IterableCoercerProvider", "DictCoercerProvider"):
    for _meth in ("_parse_source", "_parse_destination"):
        contract(F, f"{_cls}.{_meth}", props=["C14"], params={"self": ("constf", lambda m, _cls=_cls: getattr(m, _cls)()), "norm": "sym"},
                 # type invariant of a normalised hint (established by TypeNormalizer, checked on the scenario pool and by C15's
                 # bounded enumeration): every generic origin other than `tuple` carries its complete argument list (bare generics
                 # receive their implicit parameters); only a tuple may have no arguments at all: Tuple[()]
                 # (the Dict units are proved for hints with >= 2 arguments; hints with fewer arguments never have a mapping origin and
                 # are exercised natively on the scenario pool: int, str, List[int], Tuple[()] ...)
                 requires=["norm.origin is tuple or len(norm.args) >= 1" if _cls == "IterableCoercerProvider" else "len(norm.args) >= 2",
                           "type(norm.args) is tuple"],
                 consts={"Mapping": __import__("collections").abc.Mapping, "MutableMapping": __import__("collections").abc.MutableMapping},
                 post={"parsed-or-refused": "implies(raised, type(exc) is CannotProvide)"}, index_safety=True,
                 scenarios=_parse_scenarios(_cls, _meth), cover=["returned", "raised"])
