"""Contracts for morphing/enum_provider.py (C18, C04, C02).

Enum and Flag loaders close over a concrete enum class, so — as for Literal — the unit is the loader the real
`_make_loader` returns, executed symbolically for a printed family of enum/flag classes and every option combination
(bounded over classes and options; unbounded over the data universe D).  Round trips over all members and all 2^n flag
combinations are exhaustive enumerations (props/C18.py).

Specification sources: docs (“Enum members are represented by their value without any conversion”, “Flag members by
default are represented by their value … flags with skipped bits and negative values are not supported”) and the
docstring of `flag_by_member_names` (options allow_single_value / allow_duplicates / allow_compound).
"""
import enum
import itertools
from collections.abc import Iterable, Mapping

from pyvc.contracts import Via, contract

F = "morphing/enum_provider.py"


class E1(enum.Enum):
    a = 1
    b = 7
    zz = "zz"


class EStr(str, enum.Enum):
    a = "a"
    A = "A"


class EInt(enum.IntEnum):
    a = 1
    b = 7


class EAlias(enum.Enum):
    a = 1
    b = 1          # alias of a
    A = 7


class EUnhash(enum.Enum):
    a = [1, 2]     # unhashable value: the loader falls back to Enum.__call__
    A = "A"


class F3(enum.Flag):
    a = 1
    b = 2
    A = 4


class FZero(enum.Flag):
    nope = 0       # zero-valued member
    a = 1
    b = 2


class FCompound(enum.Flag):
    a = 1
    b = 2
    ab = 3         # compound member
    A = 4


class FOverlap(enum.Flag):
    rw = 3         # two compound members that overlap in bit 1; bits 0 and 1 have no member of their own
    wx = 6
    x = 4


class FSkip(enum.Flag):
    a = 1
    A = 4          # bit 2 skipped: documented as unsupported for the by-value representation


ENUMS = {"E1": E1, "EStr": EStr, "EInt": EInt, "EAlias": EAlias, "EUnhash": EUnhash}
FLAGS = {"F3": F3, "FZero": FZero, "FCompound": FCompound, "FOverlap": FOverlap}
COMMON = {
    "raises-closed": "implies(raised, isinstance(exc, LoadError))",
    "culprit": "implies(raised and isinstance(exc, LoadError), exc.input_value is data)",
}
CP = {"raises-closed": ["C04", "C18"], "culprit": ["C05"], "accept-lower": ["C18", "C02", "C01"], "accept-upper": ["C18", "C02"],
      "accept-iff": ["C18", "C02"], "value": ["C18", "C02", "C01"], "modifies-nothing": ["C20"],
      "created": ["C18"], "refused-as-documented": ["C18"]}


def _eq(a, b):
    try:
        return bool(a == b)
    except Exception:  # noqa: BLE001
        return False


# ---------------------------------------------------------------------------------------------- enum by exact value
for name, en in ENUMS.items():
    contract(F, "EnumExactValueProvider._make_loader", name=f"{F}:EnumExactValueProvider._make_loader[{name}]",
             props=["C18", "C04", "C02", "C05", "C20", "C01"],
             via=Via("EnumExactValueProvider._make_loader", {name: lambda m: m.EnumExactValueProvider()},
                     kwargs={"enum": ("const", en)}, any_closure=True),
             params={"data": "D"}, prefer_shadow=True, clause_props=CP, consts={"EN": en, "eq": _eq},
             post={**COMMON,
                   # the exact value of a member must load to that member
                   "accept-lower": "implies(py(lambda d: any(type(d) is type(m.value) and eq(d, m.value) for m in EN), data), returned)",
                   # nothing that is not (equal to) a member value is accepted
                   "accept-upper": "implies(returned, py(lambda d: any(eq(d, m.value) for m in EN), data))",
                   "value": "implies(returned, py(lambda d, r: type(r) is EN and eq(r.value, d), data, result))"},
             cover=["returned", "raised"], notes=[f"enum class {name}: {[(m.name, m.value) for m in en]}"])

# ---------------------------------------------------------------------------------------------- enum by name
NAME_CONFIGS = {
    "plain": (lambda m: m.ByNameEnumMappingGenerator(), lambda mem: mem.name),
    "upper": (lambda m: m.ByNameEnumMappingGenerator(name_style=m.NameStyle.UPPER), lambda mem: mem.name.upper()),
    "map": (lambda m: m.ByNameEnumMappingGenerator(map={"a": "12"}), lambda mem: "12" if mem.name == "a" else mem.name),
}
for (name, en), (cfg, (gen, outer)) in itertools.product([("E1", E1), ("EAlias", EAlias)], NAME_CONFIGS.items()):
    names = {outer(mem): mem for mem in en.__members__.values()}
    contract(F, "EnumNameProvider._make_loader", name=f"{F}:EnumNameProvider._make_loader[{name}-{cfg}]",
             props=["C18", "C04", "C02", "C05", "C20", "C01"],
             via=Via("EnumNameProvider._make_loader", {f"{name}-{cfg}": (lambda m, gen=gen: m.EnumNameProvider(gen(m)))},
                     kwargs={"enum": ("const", en)}, any_closure=True),
             params={"data": "D"}, prefer_shadow=True, clause_props=CP, consts={"NAMES": names},
             post={**COMMON,
                   "accept-lower": "implies(py(lambda d: type(d) is str and d in NAMES, data), returned)",
                   "accept-upper": "implies(returned, py(lambda d: isinstance(d, str) and d in NAMES, data))",
                   "value": "implies(returned, py(lambda d, r: r is NAMES[d], data, result))"},
             cover=["returned", "raised"], notes=[f"enum {name}, outer names {sorted(names)}"])

# ---------------------------------------------------------------------------------------------- flag by exact value
for name, fl in FLAGS.items():
    mask = 0
    for mem in fl.__members__.values():
        mask |= mem.value
    contract(F, "FlagByExactValueProvider._make_loader", name=f"{F}:FlagByExactValueProvider._make_loader[{name}]",
             props=["C18", "C04", "C02", "C05", "C07", "C20", "C01"],
             via=Via("FlagByExactValueProvider._make_loader", {name: lambda m: m.FlagByExactValueProvider()},
                     kwargs={"enum": ("const", fl)}, any_closure=True),
             params={"data": "D"}, prefer_shadow=True, clause_props=CP, consts={"FL": fl, "MASK": mask},
             post={**COMMON,
                   "accept-iff": "returned == py(lambda d: type(d) is int and 0 <= d <= MASK, data)",
                   "value": "implies(returned, py(lambda d, r: type(r) is FL and r.value == d, data, result))"},
             cover=["returned", "raised"], notes=[f"flag {name}, mask {mask}"])

# creation: succeeds for every flag the documentation does not exclude, and refuses the documented exclusions
contract(F, "FlagByExactValueProvider._make_loader", name=f"{F}:FlagByExactValueProvider._make_loader[create-FSkip]",
         props=["C18"], params={"self": ("const", None), "enum": ("const", FSkip)}, frame=False,
         post={"refused-as-documented": "raised and type(exc) is CannotProvide"}, clause_props=CP,
         notes=["skipped bits are documented as unsupported: creation must decline with CannotProvide"])


# ---------------------------------------------------------------------------------------------- flag by member names
def flag_spec(fl, allow_single, allow_dups, allow_compound, strict):
    members = list(fl.__members__.values())
    if not allow_compound:
        members = [m for m in members if m.value > 0 and m.value & (m.value - 1) == 0]
    by_name = {m.name: m for m in members}

    def items_of(d):
        if isinstance(d, Iterable) and type(d) is not str:
            if strict and isinstance(d, Mapping):
                return None
            return tuple(d)
        if allow_single and type(d) is str:
            return (d,)
        return None

    def has_dups(items):
        seen = []
        for it in items:
            if any(type(it) is type(s) and _eq(it, s) for s in seen):
                return True
            seen.append(it)
        return False

    def accepts(d):
        items = items_of(d)
        if items is None:
            return False
        if not allow_dups and has_dups(items):
            return False
        return all(isinstance(it, str) and it in by_name for it in items)

    def value(d):
        r = fl(0)
        for it in items_of(d):
            r |= by_name[it]
        return r
    return accepts, value


# the only enum / flag loaders with a strict mode: one `flag_spec` gives the strict and the lax acceptance (strict = lax minus mappings),
# so accept-iff + value of both units carry "strict only narrows, equal value" (C07)
CPF = {**CP, "accept-iff": ["C18", "C02", "C07"], "value": ["C18", "C02", "C01", "C07"], "strict-origin": ["C07"]}
for (name, fl), single, dups, compound, strict in itertools.product(FLAGS.items(), (False, True), (False, True),
                                                                    (False, True), (False, True)):
    label = f"{name}-single{int(single)}-dups{int(dups)}-compound{int(compound)}-{'strict' if strict else 'lax'}"
    acc, val = flag_spec(fl, single, dups, compound, strict)
    recv = (lambda m, single=single, dups=dups, compound=compound: m.FlagByListProvider(
        m.ByNameEnumMappingGenerator(), allow_single_value=single, allow_duplicates=dups, allow_compound=compound))
    contract(F, "FlagByListProvider._make_loader", name=f"{F}:FlagByListProvider._make_loader[{label}]",
             props=["C18", "C04", "C02", "C05", "C07", "C20", "C01"],
             via=Via("FlagByListProvider._make_loader", {label: recv},
                     kwargs={"enum": ("const", fl), "strict_coercion": ("const", strict)}, any_closure=True),
             params={"data": "D"}, prefer_shadow=True, clause_props=CPF, consts={"ACCEPTS": acc, "VALUE": val, "STRICT": strict, "MappingABC": Mapping},
             post={**COMMON,
                   "accept-iff": "returned == py(lambda d: ACCEPTS(d), data)",
                   "value": "implies(returned, py(lambda d, r: r == VALUE(d) and type(r) is type(VALUE(d)), data, result))",
                   # C07, second sentence: a mapping (and a str, which is a collection of characters) is outside the allowed strict
                   # origins of a list of names
                   "strict-origin": "implies(returned and STRICT, py(lambda d: not isinstance(d, MappingABC), data))"},
             cover=["returned", "raised"], max_paths=20000,
             notes=[f"flag {name} allow_single_value={single} allow_duplicates={dups} allow_compound={compound} strict={strict}"])

# creation of the by-name dumper for every flag class and option (the zero-valued member must not break it)
for (name, fl), compound in itertools.product(FLAGS.items(), (False, True)):
    label = f"create-dumper-{name}-compound{int(compound)}"
    contract(F, "FlagByListProvider._make_dumper", name=f"{F}:FlagByListProvider._make_dumper[{label}]",
             props=["C18"], frame=False,
             params={"self": ("constf", lambda m, compound=compound: m.FlagByListProvider(
                 m.ByNameEnumMappingGenerator(), allow_compound=compound)), "enum": ("const", fl)},
             post={"created": "returned"}, clause_props=CP,
             notes=[f"dumper creation for flag {name}, allow_compound={compound}"])


def _union_of(fl, names):
    r = fl(0)
    for n in names:
        r |= fl[n]
    return r


# ---------------------------------------------------------------------------------------------- flag by member names: dumper
# every call builds a NEW list (C20) holding the names of the members contained in the value (C18)
for (name, fl), compound in itertools.product(FLAGS.items(), (False, True)):
    mask = 0
    for mem in fl.__members__.values():
        mask |= mem.value
    cases = [m_ for m_ in fl.__members__.values() if compound or (m_.value > 0 and m_.value & (m_.value - 1) == 0)]
    for v in range(0, mask + 1):
        try:
            val = fl(v)
        except ValueError:
            continue
        # the part of the value the representation can express: the union of the (allowed) members it contains
        part = fl(0)
        for m_ in cases:
            if m_ in val:
                part |= m_
        label = f"dump-{name}-compound{int(compound)}-{v}"
        contract(F, "FlagByListProvider._make_dumper", name=f"{F}:FlagByListProvider._make_dumper[{label}]",
                 props=["C18", "C20", "C01"],
                 via=Via("FlagByListProvider._make_dumper",
                         {label: (lambda m, compound=compound: m.FlagByListProvider(m.ByNameEnumMappingGenerator(), allow_compound=compound))},
                         kwargs={"enum": ("const", fl)}, any_closure=True),
                 params={"value": ("const", val)}, consts={"FL": fl, "VAL": val, "PART": part, "union_of": _union_of},
                 post={"raises-nothing": "returned",
                       "fresh-result": "implies(returned, is_fresh(result) and type(result) is list)",
                       "names-of-contained-members": ("implies(returned, py(lambda r: all(n in FL.__members__ and FL[n] in VAL "
                                                      "for n in r), result))"),
                       # ... and of ENOUGH of them: together the named members give back every bit that (allowed) members of the
                       # value carry, else loading the names returns a different flag
                       "names-cover-the-value": "implies(returned, py(lambda r: union_of(FL, r) == PART, result))"},
                 clause_props={"fresh-result": ["C20"], "names-of-contained-members": ["C18"], "raises-nothing": ["C18"],
                               "names-cover-the-value": ["C18", "C01"], "modifies-nothing": ["C20"]},
                 notes=[f"flag {name} value {v} allow_compound={compound}"])


# ---------------------------------------------------------------------------------------------- enum by value type
# "The loader will call the loader of `tp` and pass it to the enum constructor."  The value loader is a concrete stand-in written here
# (strict int / strict str: accepts exactly that class, raises TypeLoadError otherwise — an instance of LD); the datum ranges over D.
def _strict_value_loader(cls):
    def value_loader(d):
        from adaptix.load_error import TypeLoadError
        if type(d) is cls:
            return d
        raise TypeLoadError(cls, d)
    return value_loader


for name, en, vcls in [("E1-int", E1, int), ("E1-str", E1, str), ("EStr", EStr, str), ("EInt", EInt, int), ("EAlias", EAlias, int)]:
    contract(F, "EnumValueProvider._make_loader", name=f"{F}:EnumValueProvider._make_loader[{name}]",
             props=["C18", "C04", "C02", "C05", "C20", "C01"],
             via=Via("EnumValueProvider._make_loader", {name: (lambda m, vcls=vcls: m.EnumValueProvider(vcls))},
                     kwargs={"enum": ("const", en), "value_loader": ("const", _strict_value_loader(vcls))}, any_closure=True),
             params={"data": "D"}, prefer_shadow=True, clause_props=CP, consts={"EN": en, "VC": vcls, "eq": _eq},
             post={"raises-closed": "implies(raised, isinstance(exc, LoadError))",
                   # exactly the loaded values that are the value of a member
                   "accept-iff": "returned == py(lambda d: type(d) is VC and any(type(m.value) is VC and eq(d, m.value) for m in EN), data)",
                   "value": "implies(returned, py(lambda d, r: type(r) is EN and eq(r.value, d), data, result))"},
             cover=["returned", "raised"], notes=[f"enum class {name}, value loader: strict {vcls.__name__}"])
