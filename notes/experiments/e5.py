import z3, time
P = z3.DeclareSort('P'); O = z3.DeclareSort('O'); H = z3.DeclareSort('H')
ex = z3.Function('ex', P, z3.BoolSort()); org = z3.Function('org', P, O); hnd = z3.Function('hnd', P, H); m = z3.Function('m', P, z3.BoolSort())
ro = z3.Const('ro', O)
def matches(p): return z3.If(ex(p), org(p) == ro, m(p))
I = z3.IntSort()
cah = z3.Function('cah', I, P); cahlen = z3.Int('cahlen')
keys = z3.Function('keys', I, O); L = z3.Int('L'); vals = z3.Function('vals', O, H)
lo = z3.Int('lo'); j = z3.Int('j'); j2 = z3.Int('j2'); n = z3.Int('n'); n2=z3.Int('n2')
R = z3.And(lo >= 0, lo + L <= cahlen, L >= 2,
    z3.ForAll([j], z3.Implies(z3.And(0 <= j, j < L), z3.And(ex(cah(lo+j)), keys(j) == org(cah(lo+j)), vals(keys(j)) == hnd(cah(lo+j)))), patterns=[keys(j)]),
    z3.ForAll([j, j2], z3.Implies(z3.And(0 <= j, j < j2, j2 < L), keys(j) != keys(j2)), patterns=[z3.MultiPattern(keys(j), keys(j2))]))
itemmatch = z3.Exists([j], z3.And(0 <= j, j < L, keys(j) == ro))
linmatch = z3.Exists([n], z3.And(lo <= n, n < lo + L, matches(cah(n))))
def prove(name, claim, *hyp, **kw):
    s = z3.Solver(); s.set('timeout', 30000)
    for k,v in kw.items(): s.set(k, v)
    s.add(*hyp); s.add(z3.Not(claim))
    t = time.time(); r = s.check(); print(name, r, round(time.time()-t, 2))
prove('match-equiv =>', z3.Implies(itemmatch, linmatch), R)
prove('match-equiv <=', z3.Implies(linmatch, itemmatch), R)
prove('handler', z3.Implies(z3.And(lo <= n, n < lo+L, matches(cah(n))), vals(ro) == hnd(cah(n))), R)
prove('unique', z3.Implies(z3.And(lo <= n, n < n2, n2 < lo+L, matches(cah(n))), z3.Not(matches(cah(n2)))), R)
