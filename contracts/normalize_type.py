"""Contracts for type_tools/normalize_type.py (C15).

Within reach of unbounded proof: `_dedup` (order-preserving de-duplication by ==/hash).  It is sound and complete *for the
equality it uses*; the property needs more where Literal arguments are concerned: values of different types never collapse
(`Literal[0]` vs `Literal[False]`), so the de-duplication of literal arguments must be *typed*.  That requirement is the
clause `typed-support` on `_create_norm_literal`, checked for all argument tuples over a pool of confusable literal values
(bounded), and by the bounded rewrite check of props/C15.py on the whole `normalize_type`.
"""
from pyvc.contracts import LoopSpec, contract

F = "type_tools/normalize_type.py"
IN_RES = "exists(lambda k: 0 <= k and k < len(result) and py_eq(inp[{i}], result[k]))"
contract(F, "_dedup", props=["C15"], params={"inp": "sym"},
         post={
             "complete": f"implies(returned, forall(lambda i: implies(0 <= i and i < len(inp), {IN_RES.format(i='i')})))",
             "sound": "implies(returned, forall(lambda k: implies(0 <= k and k < len(result), exists(lambda i: 0 <= i and i < len(inp) and result[k] is inp[i]))))",
             "no-duplicates": ("implies(returned, forall(lambda k1, k2: implies(0 <= k1 and k1 < k2 and k2 < len(result), "
                               "not py_eq(result[k1], result[k2]))))"),
             "raises-nothing": "returned",
         },
         loops={0: LoopSpec(inv=[
             "len(in_set) == len(result)",
             "forall(lambda k: implies(0 <= k and k < len(result), in_set[k] is result[k]))",
             "forall(lambda i: implies(0 <= i and i < _i, exists(lambda k: 0 <= k and k < len(result) and py_eq(inp[i], result[k]))))",
             "forall(lambda k: implies(0 <= k and k < len(result), exists(lambda i: 0 <= i and i < _i and result[k] is inp[i])))",
             "forall(lambda k1, k2: implies(0 <= k1 and k1 < k2 and k2 < len(result), not py_eq(result[k1], result[k2])))",
         ])},
         notes=["py_eq is assumed reflexive and symmetric (an equivalence is not needed for these clauses)"],
         cover=["returned"])
