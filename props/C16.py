"""C16 (bounded stand-in, labelled bounded) + the deductive part in contracts/generic_resolver.py.

GenericResolver walks live typing objects (`__orig_bases__`, `__parameters__`, subscription of aliases) — reflection that cannot be
put under a contract.  The property is decided on a printed family of generic class hierarchies (multi-level, partially bound,
re-ordered, shadowed, bare, bound / constrained type variables, diamonds; dataclass, TypedDict, NamedTuple, attrs) x parametrisations
from a type pool:

  * the type every field is LOADED with is observed through the public API — data fitting the expected substitution must load, data
    fitting only another substitution must fail (conformance matrix of the pool measured on non-generic loaders of the same retort);
  * the expected substitution comes from an independent reference resolver written from the typing rules (PEP 484/560: the annotation as
    written in the most derived class that declares the field, evaluated in the environment that class's type variables get through
    the chain of `__orig_bases__`; a bare generic gets the documented implicit parameters: Any / bound / union of constraints)."""
import itertools
import time
import typing
from typing import Any, Dict, Generic, List, Optional, TypeVar, Union

LEVEL_TEXT = ("type-variable binding (_get_type_var_to_actual) proved for all arities; substitution through hierarchies decided on a "
              "bounded family of generic models against an independent reference resolver, observed by loading")

T = TypeVar("T")
U = TypeVar("U")
V = TypeVar("V")
TB = TypeVar("TB", bound=int)
TC = TypeVar("TC", int, str)

SOURCES = {
    "dataclass": '''
@dataclass
class G1(Generic[T]):
    a: T
    b: List[T]

@dataclass
class G2(Generic[T, U]):
    a: T
    b: U
    c: Dict[U, T]

@dataclass
class C1(G2[int, U], Generic[U]):
    d: U

@dataclass
class C2(G2[U, T], Generic[T, U]):
    e: T

@dataclass
class C3(C1[V], Generic[V]):
    f: List[V]

@dataclass
class C4(G2[T, List[T]], Generic[T]):
    g: T

@dataclass
class IntBox(G1[int]):
    pass

@dataclass
class Leaf(IntBox):
    z: str

@dataclass
class Labeled(IntBox, Generic[T]):
    label: T

@dataclass
class LabeledU(IntBox, Generic[U]):
    label: U

@dataclass
class S1(G1[int], Generic[U]):
    a: U

@dataclass
class S2(G1[int]):
    a: str

@dataclass
class S3(G1[T], Generic[T]):
    b: Dict[str, T]

@dataclass
class S4(G1[str], Generic[T]):
    b: List[T]

@dataclass
class B1(G1):
    c: int

@dataclass
class B2(G1, Generic[U]):
    c: U

@dataclass
class GB(Generic[TB]):
    a: TB
    b: List[TB]

@dataclass
class GC(Generic[TC]):
    a: TC

@dataclass
class GBChild(GB[bool], Generic[T]):
    c: T

@dataclass
class L(Generic[T]):
    l: T

@dataclass
class R(Generic[T]):
    r: List[T]

@dataclass
class Diamond(L[T], R[U], Generic[T, U]):
    d: Dict[T, U]

@dataclass
class Deep1(G2[T, U], Generic[T, U]):
    pass

@dataclass
class Deep2(Deep1[U, int], Generic[U]):
    pass

@dataclass
class Deep3(Deep2[str]):
    x: int

@dataclass
class Nested(Generic[T]):
    inner: G1[T]
    many: List[G1[T]]
''',
    "typeddict": '''
class G1(TypedDict, Generic[T]):
    a: T
    b: List[T]

class G2(TypedDict, Generic[T, U]):
    a: T
    b: U
    c: Dict[U, T]

class C1(G2[int, U], Generic[U]):
    d: U

class C2(G2[U, T], Generic[T, U]):
    e: T

class S1(G1[int], Generic[U]):
    a: U

class S3(G1[T], Generic[T]):
    b: Dict[str, T]

class IntBox(G1[int]):
    pass

class Labeled(IntBox, Generic[T]):
    label: T
''',
    "namedtuple": '''
class G1(NamedTuple, Generic[T]):
    a: T
    b: List[T]

class G2(NamedTuple, Generic[T, U]):
    a: T
    b: U
    c: Dict[U, T]
''',
    "pydantic": '''
class G1(BaseModel, Generic[T]):
    a: T
    b: List[T]

class G2(BaseModel, Generic[T, U]):
    a: T
    b: U
    c: Dict[U, T]

class C1(G2[int, U], Generic[U]):
    d: U
''',
    "attrs": '''
@define
class G1(Generic[T]):
    a: T
    b: List[T]

@define
class G2(Generic[T, U]):
    a: T
    b: U
    c: Dict[U, T]

@define
class C1(G2[int, U], Generic[U]):
    d: U

@define
class C2(G2[U, T], Generic[T, U]):
    e: T

@define
class S1(G1[int], Generic[U]):
    a: U

@define
class IntBox(G1[int]):
    pass

@define
class Labeled(IntBox, Generic[T]):
    label: T
''',
}


def build(kind):
    from dataclasses import dataclass
    from typing import NamedTuple, TypedDict
    ns = {"Generic": Generic, "List": List, "Dict": Dict, "T": T, "U": U, "V": V, "TB": TB, "TC": TC, "dataclass": dataclass,
          "TypedDict": TypedDict, "NamedTuple": NamedTuple, "__name__": f"c16_{kind}"}
    if kind == "attrs":
        from attrs import define
        ns["define"] = define
    if kind == "pydantic":
        from pydantic import BaseModel
        ns["BaseModel"] = BaseModel
    import sys
    import types
    mod = types.ModuleType(f"c16_{kind}")          # pydantic looks the defining module up in sys.modules
    mod.__dict__.update(ns)
    sys.modules[mod.__name__] = mod
    exec(compile(SOURCES[kind], f"<c16 {kind}>", "exec", dont_inherit=True), mod.__dict__)  # noqa: S102
    return {k: v for k, v in mod.__dict__.items() if isinstance(v, type) and v.__module__ == f"c16_{kind}" and "[" not in v.__name__}


# ------------------------------------------------------------------------------------------------ reference resolver
def implicit(tv):
    if tv.__constraints__:
        return Union[tv.__constraints__]
    if tv.__bound__ is not None:
        return tv.__bound__
    return Any


def subst(tp, env):
    if isinstance(tp, TypeVar):
        return env.get(tp, tp)
    args = typing.get_args(tp)
    if not args:
        return tp
    new = tuple(subst(a, env) for a in args)
    origin = typing.get_origin(tp)
    if origin is Union:
        return Union[new]
    if hasattr(tp, "copy_with"):
        return tp.copy_with(new)
    return origin[new]


def own_annotations(cls):
    ann = dict(cls.__dict__.get("__annotations__", {}))
    if typing.is_typeddict(cls):
        # a TypedDict class carries the MERGED annotations of its bases: its own ones are those it does not share with a base
        inherited = {}
        for b in getattr(cls, "__orig_bases__", cls.__bases__):
            o = typing.get_origin(b) or b
            inherited.update(getattr(o, "__annotations__", {}) if typing.is_typeddict(o) else {})
        return {n: a for n, a in ann.items() if not (n in inherited and inherited[n] == a)}
    return ann


def class_envs(cls, env, out):
    """every class of the hierarchy with the environment of ITS type variables (first visit wins: MRO order, most derived first)"""
    if cls in out or cls in (object, Generic):
        return
    out[cls] = env
    bases = getattr(cls, "__orig_bases__", None)
    if bases is None or "__orig_bases__" not in cls.__dict__:
        bases = cls.__bases__
    for base in bases:
        origin, args = _origin_args(base)
        if origin in (Generic, object) or not isinstance(origin, type):
            continue
        if origin.__name__ in ("TypedDict", "NamedTuple", "BaseModel"):
            continue
        params = getattr(origin, "__parameters__", ()) or tuple(getattr(origin, "__pydantic_generic_metadata__", {}).get("parameters", ()))
        if args:
            benv = dict(zip(params, (subst(a, env) for a in args)))
        else:
            benv = {p: implicit(p) for p in params}       # a bare generic base
        class_envs(origin, benv, out)


def _origin_args(tp):
    meta = getattr(tp, "__pydantic_generic_metadata__", None)
    if meta and meta.get("origin") is not None:
        return meta["origin"], tuple(meta["args"])          # pydantic: a parametrised model is a real subclass
    return (typing.get_origin(tp) or tp), typing.get_args(tp)


def reference_fields(tp):
    origin, args = _origin_args(tp)
    params = getattr(origin, "__parameters__", ()) or tuple(getattr(origin, "__pydantic_generic_metadata__", {}).get("parameters", ()))
    env = dict(zip(params, args)) if args else {p: implicit(p) for p in params}
    envs = {}
    class_envs(origin, env, envs)
    fields = {}
    order = [k for k in origin.__mro__ if k in envs] if hasattr(origin, "__mro__") and not _is_typeddict(origin) else list(envs)
    for k in order:                              # most derived first: the first declaration found wins
        for name, ann in own_annotations(k).items():
            if name not in fields:
                fields[name] = subst(ann, envs[k])
    return fields


def _is_typeddict(cls):
    return typing.is_typeddict(cls)


# ------------------------------------------------------------------------------------------------ observation by loading
POOL = {"int": int, "str": str, "bool": bool, "List[int]": List[int], "List[str]": List[str], "Dict[str,int]": Dict[str, int]}
SAMPLES = {"int": 5, "str": "s", "bool": True, "List[int]": [5], "List[str]": ["s"], "Dict[str,int]": {"k": 5}, "list-of-bool": [True],
           "dict-int-str": {5: "s"}, "dict-str-str": {"k": "s"}, "dict-str-liststr": {"k": ["s"]}, "dict-int-int": {5: 5}, "none": None,
           "float": 1.5, "model-int": {"a": 5, "b": [5]}, "model-str": {"a": "s", "b": ["s"]}, "dict-bool-bool": {True: True},
           "dict-str-bool": {"k": True}, "dict-bool-str": {True: "s"}, "dict-int-bool": {5: True}, "dict-bool-int": {True: 5},
           "list-model-int": [{"a": 5, "b": [5]}], "list-model-str": [{"a": "s", "b": ["s"]}], "dict-liststr-str": None}


def extra_checks(tier, seed):
    from adaptix import Retort
    t0 = time.time()
    retort = Retort()
    viol = []
    n_models = n_probes = 0
    accept_cache = {}

    def accepts(tp, sample_name):
        k = (repr(tp), sample_name)
        if k not in accept_cache:
            try:
                retort.get_loader(tp)(SAMPLES[sample_name])
                accept_cache[k] = True
            except Exception:  # noqa: BLE001
                accept_cache[k] = False
        return accept_cache[k]
    kinds = ["dataclass", "typeddict", "namedtuple", "attrs", "pydantic"]
    for kind in kinds:
        classes = build(kind)
        for cname, cls in classes.items():
            params = getattr(cls, "__parameters__", ()) or tuple(getattr(cls, "__pydantic_generic_metadata__", {}).get("parameters", ()))
            pool_names = list(POOL) if tier == "thorough" else ["int", "str", "bool", "List[str]"]
            combos = [()] + [c for c in itertools.product(pool_names, repeat=len(params))] if params else [()]
            for combo in combos:
                if combo and any(tv is TB and POOL[a] not in (int, bool) for tv, a in zip(params, combo)):
                    continue        # outside the bound
                if combo and any(tv is TC and POOL[a] not in (int, str) for tv, a in zip(params, combo)):
                    continue
                tp = cls[tuple(POOL[a] for a in combo)] if combo else cls
                label = f"{kind}:{cname}" + (f"[{', '.join(combo)}]" if combo else " (bare)" if params else "")
                n_models += 1
                try:
                    want = reference_fields(tp)
                except Exception as e:  # noqa: BLE001
                    viol.append({"unit": "reference resolver", "clause": "harness", "witness": label,
                                 "w": {"input": label, "native_outcome": f"reference resolver failed: {type(e).__name__}: {e}"}})
                    continue
                try:
                    loader = retort.get_loader(tp)
                except Exception as e:  # noqa: BLE001
                    viol.append({"unit": "GenericResolver", "clause": "loader-created", "witness": label,
                                 "w": {"input": label, "native_outcome": f"get_loader failed: {type(e).__name__}: {str(e)[:200]}"}})
                    continue
                # a fitting sample per field, under the EXPECTED substitution
                fit = {}
                for f, ftp in want.items():
                    fit[f] = next((s for s in SAMPLES if SAMPLES[s] is not None and accepts(ftp, s)), None)
                if any(v is None for v in fit.values()):
                    continue                      # no sample of the pool fits some expected type: nothing to observe
                base = {f: SAMPLES[s] for f, s in fit.items()}
                data = base
                n_probes += 1
                try:
                    loader(data)
                except Exception as e:  # noqa: BLE001
                    viol.append({"unit": "GenericResolver", "clause": "fitting-data-loads", "witness": label,
                                 "w": {"input": f"{label} <- {data!r}"[:300],
                                       "native_outcome": f"expected field types {_show(want)}; data fitting them is rejected: {type(e).__name__}"[:400]}})
                    continue
                for f, ftp in want.items():
                    for s in SAMPLES:
                        if SAMPLES[s] is None or accepts(ftp, s):
                            continue
                        bad = dict(base)
                        bad[f] = SAMPLES[s]
                        data = bad
                        n_probes += 1
                        try:
                            loader(data)
                            ok = True
                        except Exception:  # noqa: BLE001
                            ok = False
                        if ok:
                            viol.append({"unit": "GenericResolver", "clause": "other-substitution-fails", "witness": f"{label}.{f} <- {s}",
                                         "w": {"input": f"{label} <- {data!r}"[:300],
                                               "native_outcome": f"field {f} must be loaded as {_show_t(ftp)} but accepts {SAMPLES[s]!r}"[:400]}})
                            break
                if len(viol) > 40:
                    break
    return [{
        "obligations": 0, "discharged": 0, "violations": viol,
        "bounded": [{"unit": "GenericResolver over live typing objects",
                     "bound": f"{n_models} parametrised models from {sum(len(build(k)) for k in kinds)} classes in {len(kinds)} model kinds (hierarchies printed in "
                              f"props/C16.py), {n_probes} load probes"}],
        "samples": [{"models": n_models, "probes": n_probes, "failed": len(viol), "seconds": round(time.time() - t0, 1)}],
        "assumptions": ["reference resolver written from the typing rules (props/C16.py); acceptance of pool samples by non-generic loaders "
                        "of the same retort is the yardstick of 'fits'"],
        "solver_time": 0.0,
    }]


def _show_t(t):
    return getattr(t, "__name__", None) if isinstance(t, type) else repr(t).replace("typing.", "")


def _show(d):
    return {k: _show_t(v) for k, v in d.items()}
