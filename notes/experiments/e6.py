import z3, time
def prove(name, claim, *hyp, **kw):
    s = z3.Solver(); s.set('timeout', 30000)
    s.add(*hyp); s.add(z3.Not(claim))
    t = time.time(); r = s.check(); print(name, r, round(time.time()-t, 2)); return s
I = z3.IntSort()
# --- register_item preserves pending combo invariant (function encoding)
P = z3.DeclareSort('P'); O = z3.DeclareSort('O'); H = z3.DeclareSort('H')
ex = z3.Function('ex', P, z3.BoolSort()); org = z3.Function('org', P, O); hnd = z3.Function('hnd', P, H)
cah = z3.Function('cah', I, P); cahlen = z3.Int('cahlen')
keys = z3.Function('keys', I, O); L = z3.Int('L'); vals = z3.Array('vals', O, H)
keys2 = z3.Function('keys2', I, O); vals2 = z3.Array('vals2', O, H)
i = z3.Int('i'); j = z3.Int('j'); j2 = z3.Int('j2'); p = z3.Const('p', P)
def Pend(keys, L, vals, i):
    return z3.And(L >= 0, i - L >= 0, i <= cahlen,
      z3.ForAll([j], z3.Implies(z3.And(0 <= j, j < L), z3.And(ex(cah(i-L+j)), keys(j) == org(cah(i-L+j)), vals[keys(j)] == hnd(cah(i-L+j)))), patterns=[keys(j)]),
      z3.ForAll([j, j2], z3.Implies(z3.And(0 <= j, j < j2, j2 < L), keys(j) != keys(j2)), patterns=[z3.MultiPattern(keys(j), keys(j2))]))
defs = [z3.ForAll([j], keys2(j) == z3.If(j == L, org(p), keys(j)), patterns=[keys2(j)]), vals2 == z3.Store(vals, org(p), hnd(p))]
notin = z3.ForAll([j], z3.Implies(z3.And(0 <= j, j < L), keys(j) != org(p)), patterns=[keys(j)])
prove('register-preserves', Pend(keys2, L+1, vals2, i+1), Pend(keys, L, vals, i), i < cahlen, cah(i) == p, ex(p), notin, *defs)

# --- flag_dumper loop invariant with bit sets
B = z3.IntSort()
SetB = z3.SetSort(B)
cases = z3.Function('cases', I, SetB); n = z3.Int('n')   # bits of each case
v = z3.Const('v', SetB); acc = z3.Const('acc', SetB)
k = z3.Int('k')
Inv = lambda k, acc: z3.And(0 <= k, k <= n, z3.IsSubset(acc, v),
        z3.ForAll([j], z3.Implies(z3.And(0 <= j, j < k, z3.IsSubset(cases(j), v)), z3.IsSubset(cases(j), acc)), patterns=[cases(j)]))
c = cases(k)
take = z3.And(z3.IsSubset(c, v), z3.Not(z3.IsSubset(c, acc)))
acc2 = z3.If(take, z3.SetUnion(acc, c), acc)
prove('flag-dumper-step', Inv(k+1, acc2), Inv(k, acc), k < n)
# use: if v is a union of members (every bit of v is in some case contained in v) then acc == v at exit
b = z3.Int('b')
vunion = z3.ForAll([b], z3.Implies(z3.IsMember(b, v), z3.Exists([j], z3.And(0 <= j, j < n, z3.IsSubset(cases(j), v), z3.IsMember(b, cases(j))))))
prove('flag-dumper-use', acc == v, Inv(n, acc), vunion)
