"""Contracts for provider/facade/provider.py (C09 / C10): predicates given to a facade provider are combined by OR and
the combined checker can be evaluated for any number of requests (its children container is re-iterable)."""
from pyvc.contracts import contract

F = "provider/facade/provider.py"
KIDS = "result._loc_stack_checker._loc_stack_checkers"
contract(F, "bound_by_any", props=["C09", "C10"], params={"preds": "sym", "provider": "sym"},
         opaque={"create_loc_stack_checker": (lambda m: m.create_loc_stack_checker, [])},
         post={
             "no-preds": "implies(returned and len(preds) == 0, result is provider)",
             "one-pred": ("implies(returned and len(preds) == 1, type(result) is LocStackBoundingProvider and "
                          "result._loc_stack_checker is opaque_res('create_loc_stack_checker', preds[0]) and result._provider is provider)"),
             "many-or": ("implies(returned and len(preds) >= 2, type(result) is LocStackBoundingProvider and "
                         "type(result._loc_stack_checker) is OrLocStackChecker and result._provider is provider)"),
             "many-reiterable": f"implies(returned and len(preds) >= 2, reiterable({KIDS}))",
             "many-children": (f"implies(returned and len(preds) >= 2, len({KIDS}) == len(preds) and forall(lambda i: "
                               f"implies(0 <= i and i < len(preds), {KIDS}[i] is opaque_res('create_loc_stack_checker', preds[i]))))"),
             "raises-nothing": "returned",
         },
         cover=["returned and len(preds) == 0", "returned and len(preds) == 1", "returned and len(preds) >= 2"])
