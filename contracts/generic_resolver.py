"""Contract for type_tools/generic_resolver.py:GenericResolver._get_type_var_to_actual (C16): with plain type variables the i-th
variable of the class is bound to exactly the i-th argument of the parametrisation — for every arity (loop invariant).  The walk over
live typing objects (__orig_bases__, subscription) is reflection and is decided by the bounded family of props/C16.py."""
from pyvc.contracts import LoopSpec, contract

F = "type_tools/generic_resolver.py"


def _scenarios(mod):
    from typing import TypeVar
    out = []
    tvs = [TypeVar(f"T{i}") for i in range(4)]
    for n in range(0, 5):
        def factory(n=n):
            r = mod.GenericResolver(lambda tp: None)
            return mod.GenericResolver._get_type_var_to_actual, {"self": r, "type_vars": tuple(tvs[:n]), "args": tuple(f"arg{i}" for i in range(n))}
        out.append((f"arity{n}", factory))
    return out


BOUND = "has_key(result, type_vars[i]) and len(result[type_vars[i]]) == 1 and result[type_vars[i]][0] is args[i]"
contract(F, "GenericResolver._get_type_var_to_actual", props=["C16"],
         params={"self": ("obj", lambda m: m.GenericResolver, {"_raw_members_getter": "sym"}), "type_vars": "sym", "args": "sym"},
         requires=["len(args) == len(type_vars)",
                   # plain TypeVars (no TypeVarTuple), pairwise distinct — what `__parameters__` of a class is
                   "forall(lambda i: implies(0 <= i and i < len(type_vars), not isinstance(type_vars[i], typing.TypeVarTuple)))",
                   "forall(lambda i, j: implies(0 <= i and i < j and j < len(type_vars), not (type_vars[i] is type_vars[j])))"],
         consts={"TypeVarTuple": __import__("typing").TypeVarTuple},
         post={"raises-nothing": "returned",
               "positional-binding": f"implies(returned, forall(lambda i: implies(0 <= i and i < len(type_vars), {BOUND})))",
               "nothing-else-bound": "implies(returned, len(result) == len(type_vars))"},
         loops={0: LoopSpec(inv=["idx == _i", "len(result) == _i", "dict_wf(result)",
                                 # the precondition instantiated at the current element (a ground fact for the path search)
                                 "implies(_i < len(type_vars), not isinstance(type_vars[_i], typing.TypeVarTuple))",
                                 "forall_val(lambda x: implies(has_key(result, x), exists(lambda i: 0 <= i and i < _i and x is type_vars[i])))",
                                 f"forall(lambda i: implies(0 <= i and i < _i, {BOUND}))"])},
         scenarios=_scenarios, cover=["returned"],
         notes=["HAS_TV_TUPLE is true on the interpreter in use; TypeVarTuple variables are excluded by the precondition"])


# ---- substitution of ONE member hint (C16: "a type variable is replaced by exactly the actual bound to it; a hint without type
# variables is left as it is").  The third branch (`tp[...]` re-subscription of a parametrised hint) is typing reflection: excluded by
# the precondition and decided by the bounded family of props/C16.py.  `get_type_vars_of_parametrized` is abstracted to a deterministic
# function of its argument.
def _param_scenarios(mod):
    from typing import List, TypeVar
    T, U = TypeVar("T"), TypeVar("U")
    out = []
    for label, mapping, tp in [("bound-T", {T: (int,), U: (str,)}, T), ("bound-U", {T: (int,), U: (str,)}, U), ("closed-int", {T: (int,)}, int),
                               ("closed-list", {T: (int,)}, List[str]), ("empty-map", {}, bytes), ("bound-to-var", {T: (U,), U: (int,)}, T), ("two-actuals", {T: (int, str), U: (bytes,)}, T)]:
        def factory(mapping=mapping, tp=tp):
            r = mod.GenericResolver(lambda tp: None)
            return mod.GenericResolver._parametrize_by_dict, {"self": r, "type_var_to_actual": dict(mapping), "tp": tp}, {}
        out.append((label, factory))
    return out


GTV = "opaque_res('get_type_vars_of_parametrized', tp)"
contract(F, "GenericResolver._parametrize_by_dict", props=["C16"],
         params={"self": ("const", None), "type_var_to_actual": "dict", "tp": "sym"},
         opaque={"get_type_vars_of_parametrized": (lambda m: m.get_type_vars_of_parametrized, [])},
         requires=[f"has_key(type_var_to_actual, tp) or not truthy({GTV})",
                   "implies(has_key(type_var_to_actual, tp), len(type_var_to_actual[tp]) >= 1)"],
         post={"raises-nothing": "returned",
               "bound-variable": "implies(has_key(type_var_to_actual, tp), returned and result is type_var_to_actual[tp][0])",
               "closed-hint-untouched": "implies(not has_key(type_var_to_actual, tp), returned and result is tp)"},
         scenarios=_param_scenarios, cover=["returned", "returned and has_key(type_var_to_actual, tp)", "returned and not has_key(type_var_to_actual, tp)"],
         notes=["re-subscription `tp[...]` of a parametrised hint is excluded by the precondition (typing reflection; bounded family of props/C16.py)"])
