import z3, time
P = z3.DeclareSort('P'); O = z3.DeclareSort('O'); H = z3.DeclareSort('H')
ex = z3.Function('ex', P, z3.BoolSort()); org = z3.Function('org', P, O); hnd = z3.Function('hnd', P, H); m = z3.Function('m', P, z3.BoolSort())
ro = z3.Const('ro', O)
def matches(p): return z3.If(ex(p), org(p) == ro, m(p))
cah = z3.Const('cah', z3.SeqSort(P))
keys = z3.Const('keys', z3.SeqSort(O)); vals = z3.Const('vals', z3.ArraySort(O, H))
lo = z3.Int('lo'); j = z3.Int('j'); j2 = z3.Int('j2'); n = z3.Int('n'); n2=z3.Int('n2')
L = z3.Length(keys)
R = z3.And(lo >= 0, lo + L <= z3.Length(cah), L >= 2,
    z3.ForAll([j], z3.Implies(z3.And(0 <= j, j < L), z3.And(ex(cah[lo+j]), keys[j] == org(cah[lo+j]), vals[keys[j]] == hnd(cah[lo+j])))),
    z3.ForAll([j, j2], z3.Implies(z3.And(0 <= j, j < j2, j2 < L), keys[j] != keys[j2])))
itemmatch = z3.Exists([j], z3.And(0 <= j, j < L, keys[j] == ro))
linmatch = z3.Exists([n], z3.And(lo <= n, n < lo + L, matches(cah[n])))
def prove(name, claim, *hyp):
    s = z3.Solver(); s.set('timeout', 30000); s.add(*hyp); s.add(z3.Not(claim))
    t = time.time(); r = s.check(); print(name, r, round(time.time()-t, 2))
prove('match-equiv', itemmatch == linmatch, R)
# handler equality for least matching n
prove('handler', z3.Implies(z3.And(lo <= n, n < lo+L, matches(cah[n]), z3.ForAll([n2], z3.Implies(z3.And(lo <= n2, n2 < n), z3.Not(matches(cah[n2]))))), vals[ro] == hnd(cah[n])), R)
# uniqueness: no other match after n within combo (so continuing after combo == continuing after n)
prove('unique', z3.Implies(z3.And(lo <= n, n < n2, n2 < lo+L, matches(cah[n])), z3.Not(matches(cah[n2]))), R)
# buggy representation: stale key duplicates => distinctness hypothesis absent -> 'unique' must fail
R_nodistinct = z3.And(lo >= 0, lo + L <= z3.Length(cah), L >= 2,
    z3.ForAll([j], z3.Implies(z3.And(0 <= j, j < L), z3.And(ex(cah[lo+j]), keys[j] == org(cah[lo+j])))))
prove('unique-without-distinct(should be sat)', z3.Implies(z3.And(lo <= n, n < n2, n2 < lo+L, matches(cah[n])), z3.Not(matches(cah[n2]))), R_nodistinct)

# register_item: pending combo invariant preserved when appending a new exact origin not in keys
p = z3.Const('p', P); i = z3.Int('i')
keys2 = z3.Concat(keys, z3.Unit(org(p))); vals2 = z3.Store(vals, org(p), hnd(p))
L2 = z3.Length(keys2)
base = i - L
Pend = lambda keys, vals, i: z3.And(i - z3.Length(keys) >= 0, i <= z3.Length(cah),
    z3.ForAll([j], z3.Implies(z3.And(0 <= j, j < z3.Length(keys)), z3.And(ex(cah[i - z3.Length(keys)+j]), keys[j] == org(cah[i - z3.Length(keys)+j]), vals[keys[j]] == hnd(cah[i - z3.Length(keys)+j])))),
    z3.ForAll([j, j2], z3.Implies(z3.And(0 <= j, j < j2, j2 < z3.Length(keys)), keys[j] != keys[j2])))
notin = z3.ForAll([j], z3.Implies(z3.And(0 <= j, j < L), keys[j] != org(p)))
prove('register-preserves', Pend(keys2, vals2, i+1), Pend(keys, vals, i), i < z3.Length(cah), cah[i] == p, ex(p), notin)
