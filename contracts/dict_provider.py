"""Contracts for morphing/dict_provider.py: the composed loaders returned by `DictProvider._make_loader` for the three
debug-trail modes, against one mode-independent DictSpec.

Documented rule (specific-types-behavior.rst): "Loader accepts any Mapping and makes dict instances" — read inside D as
“has an `items` attribute” (within D exactly the mappings have one).
Evaluation order is CPython's: in `result[key_loader(k)] = value_loader(v)` the value is loaded first, so under DISABLE
the *value* error of the first bad item surfaces where FIRST reports the *key* error; both are among ALL's errors.
"""
from adaptix._internal.definitions import DebugTrail
from pyvc.contracts import LoopSpec, Via, contract

F = "morphing/dict_provider.py"
KL, VL = "key_loader", "value_loader"
N = "map_len(data)"
K = "key_at(data, {j})"
VV = "val_at(data, {j})"
IS_MAP = "py(lambda d: hasattr(d, 'items'), data)"
ITEM_OK = f"(ok({KL}, {K}) and ok({VL}, {VV}))"
ALL_OK = f"forall(lambda j: implies(0 <= j and j < {N}, {ITEM_OK.format(j='j')}))"


def result_inv(bound):
    return [
        f"forall(lambda j: implies(0 <= j and j < {bound}, has_key(result, res({KL}, {K.format(j='j')}))))",
        f"forall_val(lambda key: implies(has_key(result, key), exists(lambda j: 0 <= j and j < {bound} and "
        f"res({KL}, {K.format(j='j')}) == key and result[key] == res({VL}, {VV.format(j='j')}))))",
    ]


FIRST_BAD = (f"(0 <= {{k}} and {{k}} < {N} and not {ITEM_OK.format(j='{k}')} and "
             f"forall(lambda j: implies(0 <= j and j < {{k}}, {ITEM_OK.format(j='j')})))")
KEY_ERR = f"(is_err({{e}}, {KL}, {K}) and trail_top_is({{e}}, ItemKey({K})))"
VAL_ERR = f"(is_err({{e}}, {VL}, {VV}) and trail_top_is({{e}}, {K}))"

POST = {
    "accept-iff": f"returned == ({IS_MAP} and {ALL_OK})",
    "result-class": "implies(returned, type(result) is dict and is_fresh(result))",
    "value-keys": f"implies(returned, {result_inv(N)[0]})",
    "value-items": f"implies(returned, {result_inv(N)[1]})",
    "raises-closed": "implies(raised, isinstance(exc, LoadError))",
    "not-mapping": f"implies(not {IS_MAP}, raised and type(exc) is TypeLoadError and exc.input_value is data)",
}
ITEM_FAIL = f"(raised and {IS_MAP})"
POST_DISABLE = {
    # value is loaded before the key (CPython evaluation order of a subscript assignment)
    "first-error": (f"implies({ITEM_FAIL}, exists(lambda k: {FIRST_BAD.format(k='k')} and trail_unchanged(exc) and "
                    f"ite(ok({VL}, {VV.format(j='k')}), is_err(exc, {KL}, {K.format(j='k')}), is_err(exc, {VL}, {VV.format(j='k')}))))"),
}
POST_FIRST = {
    "first-error": (f"implies({ITEM_FAIL}, exists(lambda k: {FIRST_BAD.format(k='k')} and "
                    f"ite(ok({KL}, {K.format(j='k')}), {VAL_ERR.format(e='exc', j='k')}, {KEY_ERR.format(e='exc', j='k')})))"),
}
SUB = "exc.exceptions"
E_IS = ("(0 <= origin_idx({e}) and origin_idx({e}) < {bound} and "
        "((not ok({KL}, {kj}) and " + KEY_ERR.format(e="{e}", j="origin_idx({e})") + ") or "
        "(not ok({VL}, {vj}) and " + VAL_ERR.format(e="{e}", j="origin_idx({e})") + ")))")


def e_is(e, bound):
    return E_IS.format(e=e, bound=bound, KL=KL, VL=VL, kj=K.format(j=f"origin_idx({e})"), vj=VV.format(j=f"origin_idx({e})"))


def agg(errs, bound):
    return {
        "sound": f"forall(lambda m: implies(0 <= m and m < len({errs}), {e_is(errs + '[m]', bound)}))",
        "complete-key": (f"forall(lambda j: implies(0 <= j and j < {bound} and not ok({KL}, {K.format(j='j')}), exists(lambda m: "
                         f"0 <= m and m < len({errs}) and origin_idx({errs}[m]) == j and {KEY_ERR.format(e=errs + '[m]', j='j')})))"),
        "complete-val": (f"forall(lambda j: implies(0 <= j and j < {bound} and not ok({VL}, {VV.format(j='j')}), exists(lambda m: "
                         f"0 <= m and m < len({errs}) and origin_idx({errs}[m]) == j and {VAL_ERR.format(e=errs + '[m]', j='j')})))"),
        # key error before value error, items in order, hence every error exactly once
        "once": (f"forall(lambda m1, m2: implies(0 <= m1 and m1 < m2 and m2 < len({errs}), "
                 f"err_rank({errs}[m1]) < err_rank({errs}[m2])))"),
        "rank-bound": f"forall(lambda m: implies(0 <= m and m < len({errs}), err_rank({errs}[m]) < 2 * {bound}))",
    }


POST_ALL = {"agg-class": f"implies({ITEM_FAIL}, type(exc) is AggregateLoadError)"}
for _k, _v in agg(SUB, N).items():
    POST_ALL["agg-" + _k] = f"implies({ITEM_FAIL}, {_v})"

CP = {"accept-iff": ["C02", "C06", "C07"], "result-class": ["C02", "C20"], "value-keys": ["C02", "C06", "C01"],
      "value-items": ["C02", "C06", "C01"], "raises-closed": ["C04"], "not-mapping": ["C02", "C05"],
      "first-error": ["C05", "C06"], "agg-class": ["C05", "C04"], "agg-sound": ["C05"], "agg-complete-key": ["C05", "C06"],
      "agg-complete-val": ["C05", "C06"], "agg-once": ["C05"], "agg-rank-bound": ["C05"], "modifies-nothing": ["C20"]}

ITEMS_OK_UPTO = f"forall(lambda j: implies(0 <= j and j < _i, {ITEM_OK.format(j='j').replace('data', 'data')}))"
LOOPS = {
    ("dict_loader", 0): LoopSpec(inv=[ITEMS_OK_UPTO] + result_inv("_i")),
    ("dict_loader_dt_first", 0): LoopSpec(inv=[ITEMS_OK_UPTO] + result_inv("_i")),
    ("dict_loader_dt_all", 0): LoopSpec(
        havoc_trails=True,
        inv=["has_unexpected_error == False",
             f"(len(errors) == 0) == {ITEMS_OK_UPTO}"] +
            [f"implies(len(errors) == 0, {x})" for x in result_inv("_i")] +
            list(agg("errors", "_i").values())),
}

for dt in (DebugTrail.DISABLE, DebugTrail.FIRST, DebugTrail.ALL):
    post = dict(POST)
    post.update({"DISABLE": POST_DISABLE, "FIRST": POST_FIRST, "ALL": POST_ALL}[dt.name])
    contract(F, "DictProvider._make_loader", name=f"{F}:DictProvider._make_loader[{dt.name}]",
             props=["C01", "C02", "C04", "C05", "C06", "C07", "C20"],
             via=Via("DictProvider._make_loader", {dt.name: lambda m: m.DictProvider()},
                     kwargs={"key_loader": "LD", "value_loader": "LD"},
                     instance_kwargs={dt.name: {"debug_trail": ("const", dt)}}, any_closure=True),
             params={"data": "D"}, post=post, loops=LOOPS, clause_props=CP,
             cover=["returned", "raised", f"raised and {IS_MAP}"])


# ================================================================================================ dumpers
# the same DictSpec with the key / value dumpers; the dumped object is a mapping (precondition); ALL raises an exception group
def _d(text):
    return text.replace("key_loader", "key_dumper").replace("value_loader", "value_dumper")


D_POST = {
    "accept-iff": _d(f"returned == ({ALL_OK})"),
    "result-class": "implies(returned, type(result) is dict and is_fresh(result))",
    "value-keys": _d(f"implies(returned, {result_inv(N)[0]})"),
    "value-items": _d(f"implies(returned, {result_inv(N)[1]})"),
}
D_POST_DISABLE = {"first-error": _d(POST_DISABLE["first-error"]).replace(ITEM_FAIL, "raised")}
D_POST_FIRST = {"first-error": _d(POST_FIRST["first-error"]).replace(ITEM_FAIL, "raised")}
D_POST_ALL = {"agg-class": "implies(raised, type(exc) is CompatExceptionGroup)"}
for _k, _v in agg(SUB, N).items():
    D_POST_ALL["agg-" + _k] = _d(f"implies(raised, {_v})")
D_CP = {"accept-iff": ["C02", "C06"], "result-class": ["C02", "C20"], "value-keys": ["C02", "C06", "C01"], "value-items": ["C02", "C06", "C01"],
        "first-error": ["C05", "C06"], "agg-class": ["C05", "C06"], "agg-sound": ["C05"], "agg-complete-key": ["C05", "C06"],
        "agg-complete-val": ["C05", "C06"], "agg-once": ["C05"], "agg-rank-bound": ["C05"], "modifies-nothing": ["C20"]}
D_ITEMS_OK_UPTO = _d(ITEMS_OK_UPTO)
D_LOOPS = {
    ("dict_dumper_dt_disable", 0): LoopSpec(inv=[D_ITEMS_OK_UPTO] + [_d(x) for x in result_inv("_i")]),
    ("dict_dumper_dt_first", 0): LoopSpec(inv=[D_ITEMS_OK_UPTO] + [_d(x) for x in result_inv("_i")]),
    ("dict_dumper_dt_all", 0): LoopSpec(
        havoc_trails=True,
        inv=[f"(len(errors) == 0) == {D_ITEMS_OK_UPTO}"] +
            [_d(f"implies(len(errors) == 0, {x})") for x in result_inv("_i")] +
            [_d(x) for x in agg("errors", "_i").values()]),
}
for dt in (DebugTrail.DISABLE, DebugTrail.FIRST, DebugTrail.ALL):
    post = dict(D_POST)
    post.update({"DISABLE": D_POST_DISABLE, "FIRST": D_POST_FIRST, "ALL": D_POST_ALL}[dt.name])
    contract(F, "DictProvider._make_dumper", name=f"{F}:DictProvider._make_dumper[{dt.name}]",
             props=["C01", "C02", "C05", "C06", "C20"],
             via=Via("DictProvider._make_dumper", {dt.name: lambda m: m.DictProvider()},
                     kwargs={"key_dumper": "DUMP", "value_dumper": "DUMP"},
                     instance_kwargs={dt.name: {"debug_trail": ("const", dt)}}, any_closure=True),
             params={"data": "D"}, requires=[IS_MAP], post=post, loops=D_LOOPS, clause_props=D_CP,
             cover=["returned", "raised"],
             notes=["the dumped object is a mapping (precondition: dumpers are applied to values of the declared type)"])
