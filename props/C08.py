"""C08: decided by GENPROG (generated model loaders verified against the independent layout specification) in addition to the
unit contracts carrying this property."""
LEVEL_TEXT = ("generated model loaders (real generator output, captured per program) proved against the contract instantiated "
              "from the independent layout specification: bounded over programs, unbounded over inputs")


def extra_checks(tier, seed):
    from genprog.check import extra_for_property
    return [extra_for_property("C08", tier, seed), defaults_on_fabricating_mappings()]


def defaults_on_fabricating_mappings():
    """Bounded probe (labelled bounded): a field ABSENT from the input holds the declared default whatever mapping class carries the
    input — including mappings that fabricate a value when an absent key is subscripted (collections.defaultdict, Counter, a dict
    subclass with __missing__), which are outside the data universe D of the proofs.  Required fields are always present here (their
    extraction on such mappings is the recorded C20 finding)."""
    import collections
    import itertools
    import types
    from dataclasses import dataclass, field
    from decimal import Decimal

    from adaptix import DebugTrail, Retort

    @dataclass
    class M:
        a: int
        b: list = field(default_factory=lambda: ["untagged"])
        c: Decimal = Decimal("1")
        d: object = None
        e: int = 5

    class Missing(dict):
        def __missing__(self, key):
            return []

    kinds = {
        "dict": dict, "OrderedDict": collections.OrderedDict, "mappingproxy": lambda d: types.MappingProxyType(dict(d)),
        "defaultdict(int)": lambda d: collections.defaultdict(int, d), "defaultdict(list)": lambda d: collections.defaultdict(list, d),
        "Counter": collections.Counter, "dict-with-__missing__": Missing, "ChainMap": lambda d: collections.ChainMap(dict(d)),
    }
    values = {"b": ["x"], "c": "2.5", "d": 7, "e": 9}
    expected_present = {"b": ["x"], "c": Decimal("2.5"), "d": 7, "e": 9}
    defaults = {"b": ["untagged"], "c": Decimal("1"), "d": None, "e": 5}
    viol, n = [], 0
    for dt in DebugTrail:
        loader = Retort(debug_trail=dt).get_loader(M)
        for kname, mk in kinds.items():
            for present in itertools.chain.from_iterable(itertools.combinations("bcde", k) for k in range(0, 5)):
                n += 1
                raw = {"a": 1, **{k: values[k] for k in present}}
                try:
                    obj = loader(mk(raw))
                    outcome = {k: getattr(obj, k) for k in "bcde"}
                except Exception as e:  # noqa: BLE001
                    outcome = {"error": f"{type(e).__name__}: {e}"[:120]}
                bad = []
                for k in "bcde":
                    want = expected_present[k] if k in present else defaults[k]
                    got = outcome.get(k, outcome.get("error"))
                    if "error" in outcome or type(got) is not type(want) or got != want:
                        bad.append((k, got, want))
                if bad:
                    viol.append({"unit": "model loader: defaults on mapping kinds", "clause": "absent-field-gets-declared-default",
                                 "witness": f"{dt.name}; {kname}; present={''.join(present) or '-'}",
                                 "w": {"input": f"{kname}({raw!r}) loaded as M(a, b=['untagged'], c=Decimal('1'), d=None, e=5)"[:300],
                                       "native_outcome": "; ".join(f"{k}: got {g!r}, the model itself gives {w!r}" for k, g, w in bad)[:300]}})
    return {"obligations": 0, "discharged": 0, "violations": viol, "solver_time": 0.0,
            "bounded": [{"unit": "defaults of absent fields on every mapping kind (incl. mappings with __missing__; outside D)",
                         "bound": f"{n} inputs: 8 mapping classes x every subset of 4 optional keys x 3 debug-trail modes"}],
            "samples": [{"mapping_inputs": n, "wrong_defaults": len(viol)}],
            "assumptions": ["mappings that fabricate values on subscription are outside D; probed separately (bounded)"]}
