"""Concretisation of counter-models and native replay on the real code (DESIGN.md §4.2)."""
from __future__ import annotations

import copy
import json
import os
import traceback

import z3

from . import theory as T
from .concrete import concrete_env
from .universe import CELL_INDEX, CELL_NAMES, N_CELLS, rep


def native_env(mod):
    from .speceval import SPEC_CONSTS
    env = {}
    env.update({k: v for k, v in SPEC_CONSTS.items() if isinstance(v, type)})
    env.update(vars(mod))
    env.update(concrete_env())
    return env


class _Undefined:
    def __getattr__(self, item):
        raise AttributeError(item)

    def __repr__(self):
        return "<undefined>"


def run_native(fn, kwargs):
    """call the real function; returns outcome dict"""
    before = {k: _snap(v) for k, v in kwargs.items()}
    try:
        result = fn(**kwargs)
        # generators / lazy results are consumed, like the callers do
        out = {"returned": True, "raised": False, "result": result, "exc": _Undefined()}
    except Exception as e:  # noqa: BLE001
        out = {"returned": False, "raised": True, "result": _Undefined(), "exc": e}
    after = {k: _snap(v) for k, v in kwargs.items()}
    out["mutated"] = [k for k in kwargs if before[k] != after[k]]
    return out


def _snap(v):
    try:
        return repr(v) if not hasattr(v, "__next__") else "<iterator>"
    except Exception:  # noqa: BLE001
        return "<unrepr>"


def eval_clause(clause_expr, env):
    """True / False / ('error', text)"""
    try:
        return bool(eval(clause_expr, env))  # noqa: S307
    except Exception as e:  # noqa: BLE001
        return ("error", f"{type(e).__name__}: {e}")


def describe(o):
    try:
        return repr(o)[:200]
    except Exception:  # noqa: BLE001
        return "<unrepr>"


def replay_cells(contract, mod, label, clause_name, clause_expr, param, cells, positional=True):
    """Replay a failed clause of a unit whose only symbolic input is one datum of D: try the representative of every
    live cell of the failing path.  Returns list of witnesses (dict) that natively violate the clause."""
    fn = contract.native(mod, label) if contract.native else None
    if fn is None:
        return None
    witnesses = []
    for c in sorted(cells):
        data = rep(c)
        out = run_native(lambda **kw: fn(*kw.values()) if positional else fn(**kw), {param: data})
        env = native_env(mod)
        env.update(closure_vars(fn))
        env.update(out)
        env[param] = data
        if clause_name == "modifies-nothing":
            val = not out["mutated"]
        else:
            val = eval_clause(clause_expr, env)
        if isinstance(val, tuple):
            continue          # the clause could not be evaluated natively: not a witness (reported as replay trouble)
        if val is not True:
            witnesses.append({
                "cell": CELL_NAMES[c], "input": describe(rep(c)),
                "native_outcome": ("returned " + describe(out["result"])) if out["returned"] else
                                  (f"raised {type(out['exc']).__name__}: " + describe(out["exc"])),
                "clause_value": val if isinstance(val, bool) else list(val),
            })
    return witnesses


def closure_vars(fn):
    out = {}
    code = getattr(fn, "__code__", None)
    if code is not None and getattr(fn, "__closure__", None):
        for n, cell in zip(code.co_freevars, fn.__closure__):
            try:
                out[n] = cell.cell_contents
            except ValueError:
                pass
    return out


def model_cell(model, term, live):
    try:
        v = model.eval(T.F_cell(term), model_completion=True)
        c = v.as_long()
        if 0 <= c < N_CELLS and c in live:
            return c
    except Exception:  # noqa: BLE001
        pass
    return min(live) if live else None


def write_replay(path, payload):
    os.makedirs(os.path.dirname(path), exist_ok=True)
    with open(path, "w") as f:
        json.dump(payload, f, indent=1, default=str)
