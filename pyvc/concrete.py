"""Native counterparts of the contract-language ghosts: used (a) inside `py(lambda ...: ...)` predicates that are
evaluated per cell on concrete shadows and (b) when a clause is re-evaluated on a replayed concrete outcome."""
from __future__ import annotations

import math


def ctor_outcome(f, *a, **k):
    try:
        return ("ok", f(*a, **k))
    except Exception as e:  # noqa: BLE001
        return ("raise", e)


def ctor_ok(f, *a, **k):
    return ctor_outcome(f, *a, **k)[0] == "ok"


def ctor_exc(f, *a, **k):
    o = ctor_outcome(f, *a, **k)
    return type(o[1]) if o[0] == "raise" else None


def same(a, b):
    """same class and equal (NaN-aware); containers element-wise by ==, class-strict at the top level"""
    if type(a) is not type(b):
        return False
    if isinstance(a, float) and math.isnan(a) and math.isnan(b):
        return True
    try:
        if a != a and b != b:  # Decimal NaN etc.  # noqa: PLR0124
            return str(a) == str(b)
    except Exception:  # noqa: BLE001
        return str(a) == str(b)
    try:
        return bool(a == b)
    except Exception:  # noqa: BLE001
        return False


def implies(a, b):
    return (not a) or bool(b)


def iff(a, b):
    return bool(a) == bool(b)


def ite(c, a, b):
    return a if c else b


def py(f, *args):
    return f(*args)


def cell_in(x, *names):
    from .universe import CELL_INDEX, rep
    return any(same(x, rep(CELL_INDEX[n])) for n in names)


def finite_small(d, bound=10 ** 9):
    try:
        return bool(abs(d) < bound)
    except Exception:  # noqa: BLE001
        return False


def concrete_env():
    return {
        "ctor_ok": ctor_ok, "ctor_exc": ctor_exc, "ctor_outcome": ctor_outcome, "same": same,
        "implies": implies, "iff": iff, "ite": ite, "py": py, "cell_in": cell_in, "math": math, "finite_small": finite_small,
    }
