"""The program family of GENPROG: logical model specifications x name_mapping configurations x debug trail x coercion.

Every case builds a REAL model class and a REAL retort; the generated loader / dumper source is captured from adaptix
itself.  Field types are distinct opaque classes with user loaders, so the generated code calls `loader_<field>` (an
arbitrary callable under LD in the proof, a scripted stub in the native replay)."""
from __future__ import annotations

import itertools
from dataclasses import dataclass, field
from typing import Any

from .layout_spec import FieldSpec, layout

_types = {}


def opaque_type(name):
    t = _types.get(name)
    if t is None:
        t = _types[name] = type(f"T_{name}", (), {})
    return t


class Sentinel:
    def __repr__(self):
        return "<sentinel default>"


DEFAULT_OBJ = Sentinel()


import decimal, enum, fractions  # noqa: E401,E402


class Prio(enum.IntEnum):
    LOW = 2


class Level(enum.IntEnum):
    BASIC = 2


def make_model(fields, kwargs_param, name="M"):
    """a plain class whose __init__ has exactly the requested parameter kinds and records what it receives"""
    pos_only = [f for f in fields if f.kind == "pos_only"]
    pos_kw = [f for f in fields if f.kind == "pos_or_kw"]
    kw_only = [f for f in fields if f.kind == "kw_only"]
    ns = {"__defaults": {}}
    parts = []

    def par(f):
        ann = f"_types_[{f.name!r}]"
        if f.default is None:
            return f"{f.name}: {ann}"
        return f"{f.name}: {ann} = _dflt_[{f.name!r}]"
    parts += [par(f) for f in pos_only]
    if pos_only:
        parts.append("/")
    parts += [par(f) for f in pos_kw]
    if kw_only:
        parts.append("*")
        parts += [par(f) for f in kw_only]
    if kwargs_param:
        parts.append("**kwargs")
    body = "\n".join(f"        self.{f.name} = {f.name}" for f in fields) or "        pass"
    if kwargs_param:
        body += "\n        self.kwargs = kwargs"
    src = f"class {name}:\n    def __init__(self, {', '.join(parts)}):\n{body}\n        _calls_.append(self)\n"
    dflt = {}
    for f in fields:
        if f.default is not None:
            dflt[f.name] = f.default[1] if f.default[0] == "value" else _FactoryMarker(f.default[1])
    glob = {"_types_": {f.name: opaque_type(f.name) for f in fields}, "_dflt_": dflt, "_calls_": []}
    # annotations must be real objects: evaluate eagerly
    exec(src, glob)  # noqa: S102
    cls = glob[name]
    cls._calls = glob["_calls_"]
    return cls


class _FactoryMarker:
    """plain classes cannot declare default factories; such fields are modelled with dataclasses instead"""

    def __init__(self, fn):
        self.fn = fn


def make_dataclass_model(fields, name="M"):
    import dataclasses
    specs = []
    for f in fields:
        kw = {}
        if f.default is not None:
            if f.default[0] == "value":
                kw["default"] = f.default[1]
            else:
                kw["default_factory"] = f.default[1]
        if f.kind == "kw_only":
            kw["kw_only"] = True
        specs.append((f.name, opaque_type(f.name), dataclasses.field(**kw)))
    return dataclasses.make_dataclass(name, specs)


class LoggingFactory:
    """a default factory with state: every call returns a NEW value and is recorded, so a loader that calls it once when it is
    generated (and passes that value on every load) is distinguishable from one that calls it per omitted field"""

    def __init__(self):
        self.log = []

    def __call__(self):
        self.log.append(1000 + len(self.log))
        return self.log[-1]


def _derived_from_a(self):
    return ("derived from", self.a)


def make_attrs_model(fields, name="M"):
    """an attrs class; `param` becomes the attrs alias, i.e. the constructor parameter is named differently from the field"""
    import attrs
    ns = {}
    for f in fields:
        kw = {}
        if f.default is not None:
            # ("self-factory", fn): the default is computed by the constructor from the OTHER attributes; a loader cannot
            # produce it, it has to leave the parameter out
            kw["default"] = (f.default[1] if f.default[0] == "value" else
                             attrs.Factory(f.default[1], takes_self=f.default[0] == "self-factory"))
        if f.kind == "kw_only":
            kw["kw_only"] = True
        if f.param is not None:
            kw["alias"] = f.param
        ns[f.name] = attrs.field(**kw)
    ns["__annotations__"] = {f.name: opaque_type(f.name) for f in fields}
    return attrs.define(type(name, (), ns))


def make_attrs_custom_init_model(fields, name="M"):
    """an attrs class with a hand-written __init__ (attrs then generates __attrs_init__): the defaults that count are the
    ones of the real __init__ signature, the attribute declarations carry DIFFERENT ones"""
    import attrs
    ns = {}
    for f in fields:
        ns[f.name] = attrs.field(default=("attribute-level default", f.name)) if f.default is not None else attrs.field()
    ns["__annotations__"] = {f.name: opaque_type(f.name) for f in fields}
    pars = ", ".join(f"{f.name}: _t_[{f.name!r}]" if f.default is None else f"{f.name}: _t_[{f.name!r}] = _d_[{f.name!r}]"
                     for f in fields)
    glob = {"_d_": {f.name: f.default[1] for f in fields if f.default is not None},
            "_t_": {f.name: opaque_type(f.name) for f in fields}}
    exec(f"def __init__(self, {pars}):\n    self.__attrs_init__({', '.join(f.name for f in fields)})\n", glob)  # noqa: S102
    ns["__init__"] = glob["__init__"]
    return attrs.define(type(name, (), ns))


@dataclass
class Case:
    label: str
    fields: list
    nm: dict                      # arguments of layout(): map, as_list, trim, style, skip, only, extra_in
    debug_trail: Any = None
    strict: bool = True
    model_kind: str = "dataclass"   # dataclass | init
    kwargs_param: bool = False
    want_loader: bool = True
    want_dumper: bool = False
    model: Any = None
    layout: Any = None
    model_name: str = "M"
    nm_later: Any = None             # a second, general name_mapping placed LATER in the recipe (the earlier one overrides it per parameter)
    twin: Any = None                # hostile cases: the same program with harmless names and keys (structure reference)

    def build(self):
        if self.model_kind == "typeddict":
            from typing import NotRequired, TypedDict
            ann = {f.name: (opaque_type(f.name) if f.required else NotRequired[opaque_type(f.name)]) for f in self.fields}
            self.model = TypedDict(self.model_name, ann)
            self.layout = layout(self.fields, **self.nm)
            return self
        if self.model_kind == "attrs":
            self.model = make_attrs_model(self.fields)
        elif self.model_kind == "attrs-init":
            self.model = make_attrs_custom_init_model(self.fields)
        elif self.model_kind == "init" or self.kwargs_param:
            self.model = make_model(self.fields, self.kwargs_param, name=self.model_name if self.model_name.isidentifier() else "M")
            self.model.__name__ = self.model.__qualname__ = self.model_name
        else:
            self.model = make_dataclass_model(self.fields, name=self.model_name)
        self.layout = layout(self.fields, **self.merged_nm())
        return self

    def merged_nm(self):
        """documented: parameters given to an EARLIER name_mapping override the later provider's; `map` entries of the earlier one are
        consulted first"""
        if self.nm_later is None:
            return self.nm
        out = dict(self.nm_later)
        for k, v in self.nm.items():
            if k == "map" and "map" in out:
                out["map"] = {**out["map"], **v}
            else:
                out[k] = v
        return out

    def recipe(self):
        from adaptix import ExtraForbid, ExtraKwargs, ExtraSkip, NameStyle, dumper, loader, name_mapping
        provs = []
        for f in self.fields:
            t = opaque_type(f.name)
            provs.append(loader(t, _PassThrough(f.name)))
            provs.append(dumper(t, _PassThrough(f.name)))
        provs.append(name_mapping(self.model, **self._nm_kwargs(self.nm)))
        if self.nm_later is not None:
            later = {k: v for k, v in self.nm_later.items() if k != "extra_in"}
            provs.append(name_mapping(**self._nm_kwargs(later, extra=False)))
        return provs

    def _nm_kwargs(self, nm, extra=True):
        from adaptix import ExtraForbid, ExtraKwargs, ExtraSkip, NameStyle
        kw = {}
        if nm.get("map") is not None:
            kw["map"] = nm["map"]
        if nm.get("map_func") is not None:
            # a map given as (predicate, function): the function returns `...` (keep the generated key) for its fields
            ret = nm["map_func"]
            kw["map"] = [(fname, (lambda shape, fld, r=r: r)) for fname, r in ret.items()]
        if nm.get("as_list"):
            kw["as_list"] = True
        if "trim" in nm:
            kw["trim_trailing_underscore"] = nm["trim"]
        if "style" in nm and nm["style"] is None:
            kw["name_style"] = None           # explicitly: keep the names as they are
        if nm.get("style") is not None:
            kw["name_style"] = {"camelCase": NameStyle.CAMEL, "UPPER_SNAKE": NameStyle.UPPER_SNAKE, "PascalCase": NameStyle.PASCAL,
                                "lower-kebab": NameStyle.LOWER_KEBAB, "UPPER": NameStyle.UPPER, "lower": NameStyle.LOWER,
                                "lower_snake": NameStyle.LOWER_SNAKE}[nm["style"]]
        if nm.get("skip"):
            kw["skip"] = list(nm["skip"])
        if nm.get("only") is not None:
            kw["only"] = list(nm["only"])
        if extra:
            kw["extra_in"] = {"skip": ExtraSkip(), "forbid": ExtraForbid(), "kwargs": ExtraKwargs()}[nm.get("extra_in", "skip")]
        return kw


class _PassThrough:
    """the default field loader / dumper used when the real retort is built (replaced by stubs in replays)"""

    def __init__(self, name):
        self.name = name
        self.behaviour = None

    def __call__(self, x):
        if self.behaviour is not None:
            return self.behaviour(x)
        return x


R, O = True, False


def F(name, required=True, default=None, kind="pos_or_kw", param=None):
    return FieldSpec(name, required, default, kind, param)


def base_models():
    """logical model specifications"""
    hostile_default = DEFAULT_OBJ
    return {
        "req2": [F("a"), F("b")],
        "req-opt": [F("a"), F("b_", O, ("value", None))],
        "opt-only": [F("a", O, ("value", 0)), F("b", O, ("value", "x"))],
        "three": [F("a"), F("b", O, ("value", hostile_default)), F("c", O, ("factory", list))],
        "kwonly": [F("a"), F("b", O, ("value", 1), "kw_only"), F("c", True, None, "kw_only")],
        "lookalike-defaults": [F("a", O, ("value", True)), F("b", O, ("value", 1)), F("c", O, ("value", 1.0)),
                               F("d", O, ("factory", dict))],
        # defaults EQUAL TO the constants True / 0 / 1 without being them, one-element tuple, range with a step
        "constant-lookalike-defaults": [F("a", O, ("value", decimal.Decimal(1))), F("b", O, ("value", fractions.Fraction(0))),
                                        F("c", O, ("value", (7,))), F("d", O, ("value", range(0, 10, 2)))],
        # defaults that are not renderable as literals, equal and hash-equal to one another but of different types
        "equal-nonliteral-defaults": [F("a", O, ("value", Prio.LOW)), F("b", O, ("value", Level.BASIC)),
                                      F("c", O, ("value", decimal.Decimal("2.5"))), F("d", O, ("value", fractions.Fraction(5, 2)))],
    }


def name_mappings():
    return {
        "plain": {},
        "forbid": {"extra_in": "forbid"},
        "rename": {"map": {"a": "alpha"}},
        "nested": {"map": {"a": ("n", "x"), "b": ("n", "y")}},
        "nested-forbid": {"map": {"a": ("n", "x")}, "extra_in": "forbid"},
        "siblings": {"map": {"a": ("s1", "x"), "b": ("s2", "y")}},
        # two sibling sub-documents two levels deep under ONE top-level key (a wrong-typed sub-document must not hide its sibling)
        "deep-siblings": {"map": {"a": ("g", "s", "x"), "b": ("g", "e", "y")}},
        "list": {"as_list": True},
        "list-forbid": {"as_list": True, "extra_in": "forbid"},
        "list-nested": {"map": {"a": 0, "b": (1, "x")}},
        "notrim": {"trim": False},
        "camel": {"style": "camelCase"},
        "skip-b": {"skip": ["b", "b_"]},
        "func-ellipsis-camel": {"map_func": {"b_": ..., "b": ...}, "style": "UPPER_SNAKE"},
        "func-ellipsis-path": {"map_func": {"a": ("n", ...)}, "style": "UPPER_SNAKE"},
    }


# ------------------------------------------------------------------------------------------ hostile names and keys (C19)
HOSTILE_ID_GROUPS = {
    "gen-locals": ["data", "errors", "constructor", "getter"],
    "gen-locals2": ["value", "sentinel", "e", "result"],
    "gen-prefixed": ["loader_a", "a", "f_a", "r_a"],
    "builtins": ["len", "dict", "LoadError", "set"],
    "keywords": ["class_", "from_", "import_", "None_"],
    "non-ascii": ["\u00f1", "\u540d\u524d", "\u0394x", "\u00fcber"],
    "gen-consts": ["known_keys", "required_keys", "has_unexpected_error", "extra"],
    "gen-misc": ["model_identity", "packed_fields", "data_1", "append_trail"],
    "dunder-ish": ["_", "__", "_a", "a_"],
}
HOSTILE_KEYS = ["it's", 'say "hi"', "back\\slash", "{brace}", "{", "$ref", "${expr}", "line\nbreak",
                "'] = __import__('os').system('x') #", '"""', "%s %(a)s", "\x00nul", "tab\t", "\u00fcn\u00ef-k\u00f6d", "", " ",
                "$$", "f'{1/0}'", "\\", "#", "\r", "data", "None"]
HOSTILE_MODEL_NAMES = ["x y", "a\u00b2b", 'M"; import os #', "1st", "\u00dcn\u00ef", "a.b[c]", "M\nN", "$M", "{M}", "class", "M'", "\\"]


def _hostile_fields(ids, with_defaults=True, factories=True):
    out = []
    for i, n in enumerate(ids):
        if i < 2 or not with_defaults:
            out.append(F(n))
        elif i == 2:
            out.append(F(n, O, ("value", "x")))
        else:
            out.append(F(n, O, ("factory", list) if factories else ("value", 5)))
    return out


def _rank_names(names, prefix):
    """harmless names with the same relative order (generated code may sort keys / ids; the structure must be compared
    between programs whose data sort alike)"""
    order = {n: i for i, n in enumerate(sorted(set(names)))}
    # a leading underscore is kept: privacy of a field is a documented layout rule (skipped at dumping), not hostility
    return {n: ("_" if n.startswith("_") and prefix == "q" else "") + f"{prefix}{order[n]:03d}" for n in names}


def _benign_twin_fields(fields):
    ren = _rank_names([f.name for f in fields], "q")
    return [FieldSpec(ren[f.name], f.required, f.default, f.kind, None) for f in fields]


_KEY_RANK = None


def benign_key(k):
    global _KEY_RANK
    if _KEY_RANK is None:
        _KEY_RANK = _rank_names(HOSTILE_KEYS, "key")
    return _KEY_RANK.get(k, k)


def _rename_nm(nm, fields, twin_fields, key_of=benign_key):
    """the same name_mapping with field ids replaced by the twin's and every string key replaced by key_of(key)"""
    ren = {f.name: t.name for f, t in zip(fields, twin_fields)}
    out = dict(nm)
    if nm.get("map") is not None:
        def conv(v):
            if isinstance(v, tuple):
                return tuple(conv(x) for x in v)
            return key_of(v) if isinstance(v, str) else v
        out["map"] = {ren[k]: conv(v) for k, v in nm["map"].items()}
    for k in ("skip", "only"):
        if nm.get(k):
            out[k] = [ren[x] for x in nm[k]]
    return out


def hostile_loader_family(tier="quick"):
    from adaptix import DebugTrail
    cases = []
    quick = tier != "thorough"
    dts = [DebugTrail.ALL, DebugTrail.DISABLE] if quick else list(DebugTrail)
    keys = list(HOSTILE_KEYS)

    def add(label, fields, nm, dt, twin_fields=None, **kw):
        twin_fields = twin_fields or fields
        tkw = {k: v for k, v in kw.items() if k != "model_name"}
        c = Case(f"hostile:{label}/{dt.name}/strict", fields, nm, dt, True, **kw)
        c.twin = Case(f"twin:{label}/{dt.name}/strict", twin_fields, _rename_nm(nm, fields, twin_fields), dt, True, **tkw)
        cases.append(c)
    gi = 0
    for gname, ids in HOSTILE_ID_GROUPS.items():
        fields = _hostile_fields(ids)
        twin_fields = _benign_twin_fields(fields)
        two = fields[:2]
        two_twin = _benign_twin_fields(two)
        ks = [keys[(gi * 4 + j) % len(keys)] for j in range(4)]
        gi += 1
        for dt in dts:
            heavy = dt.name == "ALL"
            add(f"{gname}/plain", fields, {}, dt, twin_fields)
            add(f"{gname}/hostile-keys", fields, {"map": dict(zip(ids, ks))}, dt, twin_fields)
            if not (quick and heavy):
                add(f"{gname}/forbid", fields, {"extra_in": "forbid"}, dt, twin_fields)
            if gname in ("keywords", "dunder-ish") and not (quick and heavy):
                add(f"{gname}/notrim", fields, {"trim": False}, dt, twin_fields)
            if quick:
                add(f"{gname}/hostile-nested", two, {"map": {ids[0]: (ks[0], ks[1]), ids[1]: (ks[0], ks[2])}}, dt, two_twin)
            else:
                add(f"{gname}/hostile-nested", fields,
                    {"map": {ids[0]: (ks[0], ks[1]), ids[1]: (ks[0], ks[2]), ids[2]: (ks[3], ks[0])}, "extra_in": "forbid"}, dt, twin_fields)
            if gname in ("gen-locals", "builtins", "keywords", "gen-consts") and not (quick and heavy and gname != "keywords"):
                kf = _hostile_fields(ids, factories=False)      # a hand-written __init__ cannot declare default factories
                add(f"{gname}+kwargs/kwargs", kf, {"extra_in": "kwargs"}, dt, _benign_twin_fields(kf), model_kind="init", kwargs_param=True)
    # every hostile key once more, one per field, over a harmless model
    plain_fields = [F("a"), F("b"), F("c", O, ("value", 1)), F("d", O, ("factory", dict))]
    for i in range(0, len(keys), 4):
        ks = (keys[i:i + 4] + keys[:4])[:4]
        for dt in dts:
            nm = {"map": dict(zip("abcd", ks))}
            if not (quick and dt.name == "ALL"):
                nm["extra_in"] = "forbid"
            add(f"keys{i // 4}/map", plain_fields, nm, dt)
    # hostile model names
    small = [F("a"), F("b", O, ("value", 1))] if quick else plain_fields
    for i, mn in enumerate(HOSTILE_MODEL_NAMES):
        add(f"model-name{i}/plain", small, {}, dts[i % len(dts)], model_name=mn)
    # keyword keys of a TypedDict are legal field ids
    for dt in dts:
        add("typeddict-keywords/plain", [F("from"), F("class"), F("a", O)], {}, dt, [F("q001"), F("q000"), F("q002", O)][:0] or
            _benign_twin_fields([F("from"), F("class"), F("a", O)]), model_kind="typeddict")
    return cases


def loader_family(tier="quick", group="base"):
    if group == "hostile":
        return hostile_loader_family(tier)
    from adaptix import DebugTrail
    models = base_models()
    nms = name_mappings()
    cases = []
    for (mname, fields), (nname, nm), dt, strict in itertools.product(models.items(), nms.items(), DebugTrail, (True, False)):
        if not strict and not ("list" in nname):
            continue            # strict_coercion only matters for list layouts
        optional_in_list = any(not f.required for f in fields)
        if "list" in nname and optional_in_list:
            continue            # documented refusal: optional fields cannot be mapped to list elements
        if nname == "skip-b" and not any(f.name in ("b", "b_") and not f.required for f in fields):
            continue            # skipping a required field is a documented refusal
        if tier == "quick" and mname in ("lookalike-defaults", "equal-nonliteral-defaults", "constant-lookalike-defaults") and nname not in ("plain", "rename"):
            continue            # the four-field model is combined with every layout only in the thorough tier
        if tier == "quick" and mname in ("three", "kwonly") and nname == "nested-forbid" and dt.name == "ALL":
            continue
        if nname in ("nested", "list-nested", "rename", "nested-forbid", "siblings", "deep-siblings") and not all(k in [f.name for f in fields] for k in nm["map"]):
            continue
        cases.append(Case(f"{mname}/{nname}/{dt.name}/{'strict' if strict else 'lax'}", fields, nm, dt, strict))
    # chaining (partial overriding): "the result is computed by merging all parameters of matched name_mapping; the first provider
    # overrides parameters of next providers" — an explicit name_style=None of the earlier provider is a parameter too
    chains = {
        "style-none-over-camel": ({"style": None}, {"style": "camelCase"}),
        "style-over-none": ({"style": "UPPER_SNAKE"}, {"style": None}),
        "trim-off-over-style": ({"trim": False}, {"style": "camelCase"}),
        "map-over-map": ({"map": {"a": "first"}}, {"map": {"a": "second", "b_": "later_b", "b": "later_b"}, "style": "UPPER_SNAKE"}),
        "skip-plus-style": ({"skip": ["b", "b_"]}, {"style": "PascalCase", "trim": False}),
    }
    chain_models = {"snake": [F("user_name"), F("zip_code_", O, ("value", None))], "req-opt": models["req-opt"]}
    for (cname, (nm1, nm2)), (mname, fields), dt in itertools.product(chains.items(), chain_models.items(), DebugTrail):
        if tier == "quick" and dt.name == "FIRST":
            continue
        if cname == "map-over-map" and mname != "req-opt":
            continue
        if cname == "skip-plus-style" and mname != "req-opt":
            continue
        c = Case(f"{mname}/chain:{cname}/{dt.name}/strict", fields, nm1, dt, True)
        c.nm_later = nm2
        cases.append(c)
    # **kwargs collecting needs a model with **kwargs
    for dt in DebugTrail:
        cases.append(Case(f"req-opt+kwargs/kwargs/{dt.name}/strict", models["req-opt"], {"extra_in": "kwargs"}, dt, True,
                          model_kind="init", kwargs_param=True))
    # parameter kinds through a hand-written __init__
    for dt in DebugTrail:
        cases.append(Case(f"posonly/plain/{dt.name}/strict",
                          [F("a", True, None, "pos_only"), F("b", O, ("value", 5), "pos_or_kw"), F("c", O, ("value", 6), "kw_only")],
                          {}, dt, True, model_kind="init"))
        cases.append(Case(f"posonly/skip-b/{dt.name}/strict",
                          [F("a", True, None, "pos_only"), F("b", O, ("value", 5), "pos_or_kw"), F("c", O, ("value", 6), "pos_or_kw")],
                          {"skip": ["b"]}, dt, True, model_kind="init"))
    # constructor parameters named differently from the field (attrs alias), passed positionally and by keyword
    for dt in DebugTrail:
        cases.append(Case(f"attrs-alias/plain/{dt.name}/strict",
                          [F("a"), F("b", True, None, "pos_or_kw", "bee"), F("c", O, ("value", 6), "kw_only", "sea"),
                           F("d", True, None, "kw_only", "dee")],
                          {}, dt, True, model_kind="attrs"))
        cases.append(Case(f"attrs-alias/skip-b/{dt.name}/strict",
                          [F("a"), F("b", O, ("value", 5), "pos_or_kw", "bee"), F("c", O, ("value", 6), "pos_or_kw", "sea")],
                          {"skip": ["b"]}, dt, True, model_kind="attrs"))
        cases.append(Case(f"attrs-custom-init/plain/{dt.name}/strict",
                          [F("a"), F("b", O, ("value", 6543)), F("c", O, ("value", None))],
                          {}, dt, True, model_kind="attrs-init"))
        # a stateful factory (ids, tokens, timestamps): called once per load that omits the field, never at generation time
        cases.append(Case(f"stateful-factory/plain/{dt.name}/strict",
                          [F("a"), F("b", O, ("factory", LoggingFactory())), F("c", O, ("factory", list))], {}, dt, True))
        # a default the constructor computes from `self`: the parameter is left out when the key is absent, and the parameters
        # AFTER it must still reach their own slots
        cases.append(Case(f"attrs-self-factory/plain/{dt.name}/strict",
                          [F("a"), F("b", O, ("self-factory", _derived_from_a)), F("c", O, ("value", 6)), F("d", O, ("factory", list))],
                          {}, dt, True, model_kind="attrs"))
    return cases
