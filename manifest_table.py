# Source of MANIFEST.json (see tools_manifest.py).  A property is listed under CLAIMED only once its check is built
# and exits 0 on the unchanged tree; everything else stays under NOT_APPLICABLE with the reason.
NB = "check not built yet (contracts for this property are still being written; see DESIGN.md §10)"
for i in range(1, 21):
    NOT_APPLICABLE[f"C{i:02d}"] = NB
NOT_APPLICABLE["C12"] = ("quantifies over thread schedules: a function contract speaks about one activation in isolation; "
                         "no concurrent program logic for Python is available and an interleaving explorer would be a "
                         "model checker, i.e. a different technique family (DESIGN.md §6)")
NOT_APPLICABLE["C17"] = ("relates six introspectors that are thin reflective adapters over dataclasses/typing/attrs/pydantic/"
                         "sqlalchemy; a contract on them is only as strong as a hand-written model of those libraries "
                         "(DESIGN.md §6); the kind-independent downstream code is covered under C03/C08/C13")
