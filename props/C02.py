"""C02: unit contracts (contracts/*.py) plus the GENPROG obligations that carry this property (generated model loaders), plus a bounded
check of the documented TYPE ALIASES: specific-types-behavior.rst gives one rule for "Dict and Mapping", one for the abstract iterables
(loaded as tuple / list / frozenset / set of their implementation), one for ByteString — the loaders / dumpers of the abstract spelling
must behave exactly like those of the implementation the documentation names, element types included.  (The dispatch from the abstract
class to the implementation runs through provider search on live typing objects; it is outside the contracts, hence bounded.)"""
import itertools


def alias_checks():
    import collections.abc as cabc
    import typing
    from decimal import Decimal

    from adaptix import DebugTrail, Retort
    pairs = [
        (typing.Mapping, typing.Dict, 2), (typing.MutableMapping, typing.Dict, 2), (cabc.Mapping, dict, 2), (cabc.MutableMapping, dict, 2),
        (typing.Sequence, typing.Tuple, "var"), (typing.Iterable, typing.Tuple, "var"), (typing.Collection, typing.Tuple, "var"),
        (typing.MutableSequence, typing.List, 1), (typing.AbstractSet, typing.FrozenSet, 1), (typing.MutableSet, typing.Set, 1),
        (cabc.Sequence, tuple, "var"), (cabc.MutableSequence, list, 1),
    ]
    elem_types = [int, Decimal, bool, typing.List[Decimal]]
    load_samples = [{"a": "1.5"}, {"a": 1}, {"a": True}, {"a": ["2.5"]}, {1: 2}, ["1.5"], [1], [True], [["2.5"]], "ab", 5, None, {}, []]
    dump_samples = [{"a": Decimal("1.5")}, {"a": 1}, {"a": [Decimal("2.5")]}, [Decimal("1.5")], (1, 2), [[Decimal("2.5")]], {1}, frozenset({True}), {}, []]
    viol, n = [], 0

    def behaviour(fn, samples):
        out = []
        for s in samples:
            try:
                r = fn(s)
                out.append(("ret", type(r).__name__, repr(r)))
            except Exception as e:  # noqa: BLE001
                out.append(("raise", type(e).__name__))
        return out
    for (abstract, impl, arity), strict, dt in itertools.product(pairs, (True, False), (DebugTrail.DISABLE, DebugTrail.ALL)):
        retort = Retort(strict_coercion=strict, debug_trail=dt)
        arg_sets = [(str, e) for e in elem_types] if arity == 2 else [(e,) for e in elem_types]
        for args in arg_sets:
            a_tp = abstract[args]
            i_tp = impl[args + (...,)] if arity == "var" else impl[args]
            label = f"{getattr(abstract, '__module__', '')}.{getattr(abstract, '_name', None) or abstract.__name__}[{', '.join(getattr(x, '__name__', repr(x)) for x in args)}]"
            for kind, samples in (("load", load_samples), ("dump", dump_samples)):
                if kind == "dump" and arity != 2:
                    # documented: the dumper of every iterable produces a tuple (or a list for list children) — for an abstract
                    # iterable that is the tuple spelling, whatever container the LOADER builds
                    i_tp = typing.Tuple[args + (...,)]
                n += 1
                try:
                    fa = retort.get_loader(a_tp) if kind == "load" else retort.get_dumper(a_tp)
                    fi = retort.get_loader(i_tp) if kind == "load" else retort.get_dumper(i_tp)
                except Exception as e:  # noqa: BLE001
                    viol.append({"unit": "documented type aliases", "clause": "alias-created", "witness": f"{kind} {label}",
                                 "w": {"input": label, "native_outcome": f"{type(e).__name__}: {str(e)[:200]}"}})
                    continue
                ba, bi = behaviour(fa, samples), behaviour(fi, samples)
                if ba != bi:
                    k = next(i for i, (x, y) in enumerate(zip(ba, bi)) if x != y)
                    viol.append({"unit": "documented type aliases", "clause": "alias-behaves-like-implementation",
                                 "witness": f"{kind} {label} strict={strict} {dt.name}"[:160],
                                 "w": {"input": f"{kind} {samples[k]!r} as {label}"[:300],
                                       "native_outcome": f"{ba[k]!r}, but as {getattr(impl, '_name', None) or impl.__name__}[...] it gives {bi[k]!r}"[:300]}})
    return {"obligations": 0, "discharged": 0, "violations": viol[:40], "solver_time": 0.0,
            "bounded": [{"unit": "abstract collection hints vs the documented implementation (Mapping ~ Dict, Sequence ~ Tuple[..., ...], ...)",
                         "bound": f"{n} loader / dumper pairs: {len(pairs)} aliases x {len(elem_types)} element types x strict / lax x DISABLE / ALL, "
                                  f"{len(load_samples)} + {len(dump_samples)} samples"}],
            "samples": [{"alias_pairs": n, "failed": len(viol)}],
            "assumptions": ["alias equivalence is checked only on this bounded family"]}


def extra_checks(tier, seed):
    from genprog.check import extra_for_property
    return [extra_for_property("C02", tier, seed), alias_checks()]
