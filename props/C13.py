"""C13: decided by GENPROG for converters (genprog/conv.py): the real source text of every generated converter and of the
generated coercers it calls is executed symbolically against the expression tree fixed by the independent linking
specification (genprog/link_spec.py)."""
LEVEL_TEXT = ("every generated converter of a printed family proved, for a symbolic source object and symbolic extra arguments, to "
              "construct exactly the destination the documented linking rules fix: bounded over programs, unbounded over inputs")


def extra_checks(tier, seed):
    from genprog.check import extra_for_property
    return [extra_for_property("C13", tier, seed, group="conv")]
