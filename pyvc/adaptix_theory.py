"""Contracts of adaptix's own helper functions, used at call sites (modular verification: the caller sees the
contract, never the body).  Each one is *also* a unit under contract in contracts/struct_trail.py, where its body
is verified against the same statement; until then it is listed as an assumed contract in the evidence."""
from __future__ import annotations

import z3

from . import extract
from . import theory as T
from .builtins_theory import HANDLERS, iterate_concrete
from .interp import Interp
from .values import St, Unsupported, V, const

extract.ensure_repo_on_path()
from adaptix._internal import struct_trail as _st  # noqa: E402


def _append(interp: Interp, st: St, et, kt):
    interp.ensure_trails(st)
    ln = z3.Select(st.trail_len, et)
    arr = z3.Select(st.trail_arr, et)
    st.trail_arr = z3.Store(st.trail_arr, et, z3.Store(arr, ln, kt))
    st.trail_len = z3.Store(st.trail_len, et, ln + 1)


def h_append_trail(interp: Interp, st: St, args, kwargs):
    """append_trail(obj, el): trail'(obj) == [el] ++ trail(obj); returns obj; nothing else changes.
    (trails are stored outermost-last in the model, so this is an append)"""
    obj, el = args
    _append(interp, st, interp.term(st, obj), interp.term(st, el))
    interp.ctx.assume_note("contract of struct_trail.append_trail used at call sites (checked on the bounded helper family of props/C05.py)")
    yield st, ("ok", obj)


def h_extend_trail(interp: Interp, st: St, args, kwargs):
    """extend_trail(obj, sub): trail'(obj) == list(sub) ++ trail(obj); returns obj"""
    obj, sub = args
    et = interp.term(st, obj)
    for s, r in iterate_concrete(interp, st, sub):
        if r[0] != "ok":
            raise Unsupported("extend_trail with failing iterable")
        for it in reversed(r[1]):
            _append(interp, s, et, interp.term(s, it))
        interp.ctx.assume_note("contract of struct_trail.extend_trail used at call sites (checked on the bounded helper family of props/C05.py)")
        yield s, ("ok", obj)


def h_render(interp: Interp, st: St, args, kwargs):
    """render_trail_as_note(exc): returns exc; the trail is unchanged (only a note is added)"""
    interp.ctx.assume_note("contract of struct_trail.render_trail_as_note used at call sites: returns its argument, trail unchanged")
    yield st, ("ok", args[0])


def h_itemkey(interp: Interp, st: St, args, kwargs):
    (k,) = args
    t = T.F_ItemKey(interp.term(st, k))
    st.assume(T.F_cls(t) == interp.reg.cls(_st.ItemKey))
    yield st, ("ok", V("sym", t=t, ty=_st.ItemKey))


HANDLERS[_st.append_trail] = h_append_trail
HANDLERS[_st.extend_trail] = h_extend_trail
HANDLERS[_st.render_trail_as_note] = h_render
HANDLERS[_st.ItemKey] = h_itemkey
