"""C20: unit contracts (contracts/*.py) plus the GENPROG obligations that carry this property (generated model loaders, dumpers, converters),
plus a bounded probe with inputs OUTSIDE the data universe D: mappings whose own `__getitem__` has a side effect (collections.defaultdict).
D deliberately contains only mappings that are read without side effects; on a defaultdict even `data['key']` inserts the key, so what
adaptix may do at most is never to subscript a key it has not seen.  The probe snapshots the input before and after loading."""
import itertools


def side_effecting_mappings():
    from collections import defaultdict
    from dataclasses import dataclass, field

    from adaptix import DebugTrail, Retort

    @dataclass
    class M:
        a: int
        b: int
        c: int = 5
        d: list = field(default_factory=list)
    kinds = {"a": "required", "b": "required", "c": "optional", "d": "optional"}
    viol, n = [], 0
    for dt in DebugTrail:
        loader = Retort(debug_trail=dt).get_loader(M)
        for present in itertools.chain.from_iterable(itertools.combinations("abcd", k) for k in range(0, 5)):
            n += 1
            data = defaultdict(int, {k: ([] if k == "d" else 1) for k in present})
            before = dict(data)
            try:
                loader(data)
            except Exception:  # noqa: BLE001,S110
                pass
            inserted = sorted(set(data) - set(before))
            changed = sorted(k for k in before if data.get(k) != before[k])
            if inserted or changed:
                ik = "+".join(sorted({kinds.get(k, "unknown") for k in inserted})) or "none"
                viol.append({"unit": "model loader on a defaultdict", "clause": "input-unchanged",
                             "witness": f"{dt.name}; present={''.join(present) or '-'}; inserted-kinds={ik}",
                             "w": {"input": f"defaultdict(int, {before!r}) loaded as M(a, b, c=5, d=[]) under {dt.name}"[:300],
                                   "native_outcome": f"the input became {dict(data)!r}: keys {inserted} were inserted by subscripting"[:300]}})
    return {"obligations": 0, "discharged": 0, "violations": viol, "solver_time": 0.0,
            "bounded": [{"unit": "model loader on mappings with a side-effecting __getitem__ (collections.defaultdict; outside D)",
                         "bound": f"{n} inputs: every subset of 4 keys (2 required, 2 optional) x 3 debug-trail modes"}],
            "samples": [{"defaultdict_inputs": n, "mutated": len(viol)}],
            "assumptions": ["D contains only mappings read without side effects; defaultdict is probed separately (bounded)"]}


def extra_checks(tier, seed):
    from genprog.check import extra_for_property
    return [extra_for_property("C20", tier, seed), side_effecting_mappings()]
