"""Contracts for the memoisation points and the derived-state recomputation of retorts (C11).

A cache is transparent iff (K) keys that compare equal denote indistinguishable requests and (F) the cached factory is a function
of its arguments.  Per function:

  * BuiltinMediator.cached_call    hit: the stored value, the factory is not called, nothing is written;
                                   miss: the factory is called once with exactly the arguments, its result is stored under the key
                                   (func, *args, *kwargs.items()) and returned; a raising factory leaves the cache untouched
  * AdornedRetort.get_loader/get_dumper, AdornedConversionRetort.get_converter (no per-call recipe)
                                   the same statement for _loader_cache / _dumper_cache / _simple_converter_cache
  * _calculate_derived of SearchingRetort / AdornedRetort / AdornedConversionRetort
                                   every cache attribute is re-assigned to a NEW EMPTY dict — `_clone()` (copy + _calculate_derived) therefore
                                   shares no cache with the original: replace()/extend() cannot change the original or leak into it
  * FuncWrapper                    __eq__ / __hash__ are consistent (equal keys <=> equal wrappers, equal wrappers => equal hashes)

(K) itself — which argument sorts reach cached_call, and whether `==` on them is fine enough — is a statement about every call site; the
sites are enumerated from the AST in props/C11.py and the non-discriminating ones are exercised by histories.
"""
from pyvc.contracts import contract

FM = "retort/builtin_mediator.py"
MSELF = ("obj", lambda m: m.BuiltinMediator, {"_call_cache": "dict"})
OLD = "old(self._call_cache)"


def _cc_scenarios(nargs, kw):
    def gen(mod):
        out = []
        for present in (False, True):
            for raises in (False, True):
                def factory(present=present, raises=raises):
                    log, made = [], []

                    def func(*a, **k):
                        log.append((a, k))
                        if raises:
                            raise KeyError("factory failed")
                        made.append(("made", a, tuple(k.items())))
                        return made[-1]
                    args = tuple(f"v{i}" for i in range(nargs))
                    kwargs = {"k": "w"} if kw else {}
                    cache = {("other",): 1}
                    if present:
                        cache[(func, *args, *kwargs.items())] = "cached"
                    med = mod.BuiltinMediator({}, None, 0, None, cache)

                    def call(self, func, args):
                        return mod.BuiltinMediator.cached_call(self, func, *args, **kwargs)
                    return call, {"self": med, "func": func, "args": args}, {
                        "calls_to": lambda f: len(log), "res": lambda f, *a: made[-1] if made else None}
                out.append((f"present={present}|raises={raises}", factory))
        return out
    return gen


for nargs in (0, 1, 2):
    argnames = [f"args[{i}]" for i in range(nargs)]
    key = "pair(func" + "".join(f", {a}" for a in argnames) + ")" if nargs == 1 else None
    KEY = "(func, " + "".join(f"{a}, " for a in argnames) + ")"
    call_args = ", ".join(argnames)
    contract(FM, "BuiltinMediator.cached_call", name=f"{FM}:BuiltinMediator.cached_call[{nargs} args]", props=["C11"], frame=False,
             params={"self": MSELF, "func": "ANY", "args": ("tuple", ["sym"] * nargs)},
             post={
                 "hit-returns": f"implies(has_key({OLD}, {KEY}), returned)",
                 "hit-returns-stored": f"implies(has_key({OLD}, {KEY}) and returned, result is {OLD}[{KEY}])",
                 "hit-calls-nothing": f"implies(has_key({OLD}, {KEY}), calls_to(func) == 0)",
                 "hit-writes-nothing": f"implies(has_key({OLD}, {KEY}), dict_same(self._call_cache, {OLD}))",
                 "miss-calls-once": f"implies(not has_key({OLD}, {KEY}), calls_to(func) == 1)",
                 "miss-returns-made": (f"implies(not has_key({OLD}, {KEY}) and returned, result is res(func, {call_args}) and "
                                       f"has_key(self._call_cache, {KEY}) and self._call_cache[{KEY}] is result)") if nargs == 1 else
                                      (f"implies(not has_key({OLD}, {KEY}) and returned, has_key(self._call_cache, {KEY}) and "
                                       f"self._call_cache[{KEY}] is result)"),
                 "failed-factory-stores-nothing": f"implies(raised, dict_same(self._call_cache, {OLD}))",
                 "cache-wf": "dict_wf(self._call_cache)",
             },
             scenarios=_cc_scenarios(nargs, False), cover=["returned", "raised"],
             notes=["key = (func, *args, *kwargs.items()); keys are compared with == and hash (py_eq)"])


# ---------------------------------------------------------------------------------------------- facade caches
FR = "morphing/facade/retort.py"


def _facade_scenarios(method, cache_attr, maker):
    def gen(mod):
        from typing import List
        out = []
        for present in (False, True):
            for raises in (False, True):
                def factory(present=present, raises=raises):
                    calls = []

                    class R(mod.AdornedRetort):
                        pass

                    def make(self, tp):
                        calls.append(tp)
                        if raises:
                            raise mod.ProviderNotFoundError("no")
                        return ("made", tp)
                    setattr(R, maker, make)
                    r = R()
                    if present:
                        getattr(r, cache_attr)[List[int]] = "cached"
                    return getattr(mod.AdornedRetort, method), {"self": r, "tp": List[int]}, {"CALLS": calls}
                out.append((f"{method}|present={present}|raises={raises}", factory))
        return out
    return gen


for method, cache_attr, maker in (("get_loader", "_loader_cache", "_make_loader"), ("get_dumper", "_dumper_cache", "_make_dumper")):
    OLDC = f"old(self.{cache_attr})"
    contract(FR, f"AdornedRetort.{method}", props=["C11"], frame=False,
             params={"self": ("obj", lambda m: m.AdornedRetort, {cache_attr: "dict"}), "tp": "sym"},
             opaque={maker: ((lambda m, maker=maker: getattr(m.AdornedRetort, maker)), [Exception])},
             post={
                 "hit-returns-stored": f"implies(has_key({OLDC}, tp), returned and result is {OLDC}[tp] and dict_same(self.{cache_attr}, {OLDC}))",
                 "miss-stores-made": (f"implies(not has_key({OLDC}, tp) and returned, has_key(self.{cache_attr}, tp) and "
                                      f"self.{cache_attr}[tp] is result)"),
                 "failure-stores-nothing": f"implies(raised, dict_same(self.{cache_attr}, {OLDC}))",
             },
             scenarios=_facade_scenarios(method, cache_attr, maker), cover=["returned", "raised"],
             notes=[f"{maker} abstracted (deterministic, may raise): its history independence is the matter of cached_call and of "
                    f"the call sites"])


# ---------------------------------------------------------------------------------------------- derived state is fresh
def _derived_scenarios(cls_getter, attrs):
    def gen(mod):
        def factory():
            import inspect

            import adaptix
            cls0 = cls_getter(mod)
            r = (adaptix.Retort if inspect.isabstract(cls0) else cls0)()
            for a in attrs:
                getattr(r, a)["poison"] = 1
            cls = [k for k in type(r).__mro__ if "_calculate_derived" in k.__dict__ and all(
                a in k._calculate_derived.__code__.co_names for a in attrs)][0]
            return cls._calculate_derived, {"self": r}
        return [("warm retort", factory)]
    return gen


def _abs(path):
    import importlib
    mod, _, attr = path.rpartition(":")
    o = importlib.import_module(mod)
    for part in attr.split("."):
        o = getattr(o, part)
    return o


def derived_contract(file, cls_name, attrs, cls_getter, super_path, extra_attrs=None, opaque=None):
    post = {"raises-nothing": "returned"}
    for a in attrs:
        post[f"fresh:{a}"] = f"implies(returned, is_fresh(self.{a}) and len(self.{a}) == 0 and not same_object(self.{a}, old(self.{a})))"
    opq = {"super()._calculate_derived": (lambda m, p=super_path: _abs(p), [])}
    opq.update(opaque or {})
    contract(file, f"{cls_name}._calculate_derived", props=["C11"], frame=False,
             params={"self": ("obj", cls_getter, {**{a: "dict" for a in attrs}, **(extra_attrs or {})})},
             opaque=opq, post=post, scenarios=_derived_scenarios(cls_getter, attrs),
             notes=["_clone() = copy(self) followed by _calculate_derived(): the clone shares none of these dicts with the original",
                    "the inherited _calculate_derived is abstracted (it is under its own contract)"])


derived_contract(FR, "AdornedRetort", ["_loader_cache", "_dumper_cache"], lambda m: m.AdornedRetort,
                 "adaptix._internal.retort.searching_retort:SearchingRetort._calculate_derived")
derived_contract("conversion/facade/retort.py", "AdornedConversionRetort", ["_simple_converter_cache"],
                 lambda m: m.AdornedConversionRetort,
                 "adaptix._internal.retort.searching_retort:SearchingRetort._calculate_derived")
derived_contract("retort/searching_retort.py", "SearchingRetort", ["_call_cache"], lambda m: m.SearchingRetort,
                 "adaptix._internal.retort.base_retort:BaseRetort._calculate_derived", extra_attrs={"_full_recipe": "sym"},
                 opaque={"_create_request_cls_to_router": (lambda m: m.SearchingRetort._create_request_cls_to_router, []),
                         "_create_error_representor": (lambda m: _abs("adaptix._internal.retort.operating_retort:OperatingRetort._create_error_representor"), [])})
