"""Symbolic input data for generated model loaders: a lazily unfolded tree of nodes.

A node is a datum of unknown kind: mapping / sequence / str / other (scalar-like).  The generated code only ever
applies a fixed repertoire of operations to its input (constant-key subscripts, `in`, `.get`, `set(...)`, `len`,
`type(...) is str`, `isinstance(..., Sequence)`, iteration over the unknown keys); each is given here its CPython
outcome per kind (exception class included), so the loader is executed for ALL inputs: every key present or absent,
every container node of the right or the wrong kind, extra keys present or absent, every sub-value arbitrary.
"""
from __future__ import annotations

import collections.abc

import z3

from pyvc import theory as T
from pyvc.builtins_theory import HANDLERS
from pyvc.interp import RAISE, Interp
from pyvc.values import SeqIter, St, Unsupported, V, const


class SNode:
    _count = 0

    def __init__(self, interp: Interp, st: St, name: str, path=()):
        SNode._count += 1
        n = SNode._count
        self.name = name
        self.path = tuple(path)
        self.t = z3.Const(f"{name}!n{n}", T.Val)
        self.ismap = z3.Bool(f"ismap_{name}!n{n}")
        self.islist = z3.Bool(f"islist_{name}!n{n}")
        self.isstr = z3.Bool(f"isstr_{name}!n{n}")
        self.len = z3.Int(f"len_{name}!n{n}")
        self.nex = z3.Int(f"nex_{name}!n{n}")            # number of keys not probed individually (mappings)
        self.exkeys = z3.Const(f"exkeys_{name}!n{n}", T.Val)
        self.entries = {}        # constant key -> (has: z3 Bool, child SNode)
        self.items = {}          # int index -> child SNode
        self.exvals = {}         # id of symbolic index term -> child
        self.contains = {}       # for str / list nodes: `k in data` is an arbitrary Bool
        st.assume(z3.And(self.len >= 0, self.nex >= 0))
        st.assume(z3.And(z3.Not(z3.And(self.ismap, self.islist)), z3.Not(z3.And(self.ismap, self.isstr)),
                         z3.Not(z3.And(self.islist, self.isstr))))
        # kinds as classes: only what the generated code can observe
        st.assume(z3.Implies(self.isstr, T.F_cls(self.t) == interp.reg.cls(str)))
        st.assume(z3.Implies(T.F_cls(self.t) == interp.reg.cls(str), self.isstr))
        st.assume(z3.Implies(self.islist, z3.And(T.F_sub(T.F_cls(self.t), interp.reg.cls(collections.abc.Sequence)),
                                                 T.F_cls(self.t) != interp.reg.cls(str))))
        st.assume(z3.Implies(self.ismap, z3.And(T.F_sub(T.F_cls(self.t), interp.reg.cls(collections.abc.Mapping)),
                                                z3.Not(T.F_sub(T.F_cls(self.t), interp.reg.cls(collections.abc.Sequence))))))
        st.assume(z3.Implies(self.isstr, T.F_sub(T.F_cls(self.t), interp.reg.cls(collections.abc.Sequence))))
        st.assume(z3.Implies(z3.Not(z3.Or(self.ismap, self.islist, self.isstr)),
                             z3.And(z3.Not(T.F_sub(T.F_cls(self.t), interp.reg.cls(collections.abc.Sequence))),
                                    z3.Not(T.F_sub(T.F_cls(self.t), interp.reg.cls(collections.abc.Mapping))))))
        j1, j2 = z3.Int("xk1!"), z3.Int("xk2!")
        st.assume(z3.ForAll([j1, j2], z3.Implies(z3.And(0 <= j1, j1 < j2, j2 < self.nex),
                                                 T.F_keyat(self.exkeys, j1) != T.F_keyat(self.exkeys, j2)),
                            patterns=[z3.MultiPattern(T.F_keyat(self.exkeys, j1), T.F_keyat(self.exkeys, j2))]))
        interp.ctx.__dict__.setdefault("snodes", []).append(self)

    def entry(self, interp, st, key):
        e = self.entries.get(key)
        if e is None:
            has = z3.Bool(f"has_{self.name}_{_slug(key)}!n{SNode._count}")
            child = SNode(interp, st, f"{self.name}_{_slug(key)}", self.path + (key,))
            e = self.entries[key] = (has, child)
        return e

    def item(self, interp, st, idx: int):
        c = self.items.get(idx)
        if c is None:
            c = self.items[idx] = SNode(interp, st, f"{self.name}_{idx}", self.path + (idx,))
        return c

    def value(self):
        return V("node", self, t=self.t)


def _slug(k):
    return "".join(ch if ch.isalnum() else "_" for ch in str(k))[:20]


def is_node(v):
    return isinstance(v, V) and v.kind == "node"


class SymSet:
    """a set of keys: constant members under conditions + possibly the node's unprobed keys"""

    def __init__(self, members, ex_node=None, t=None):
        self.members = members      # [(key const, z3 Bool)]
        self.ex_node = ex_node
        self.t = t

    def nonempty(self):
        conds = [c for _, c in self.members]
        if self.ex_node is not None:
            conds.append(self.ex_node.nex > 0)
        return z3.Or(*conds) if conds else z3.BoolVal(False)


def symset_value(interp, s: SymSet):
    t = interp.ctx.fresh_val("keyset")
    s.t = t
    return V("symset", s, t=t)


def fork_kind(interp, st, node: SNode):
    """yield (st, kind) for kind in map / list / str / other"""
    for s1, m in interp.fork_on(st, node.ismap):
        if m:
            yield s1, "map"
            continue
        for s2, l in interp.fork_on(s1, node.islist):
            if l:
                yield s2, "list"
                continue
            for s3, ss in interp.fork_on(s2, node.isstr):
                yield s3, ("str" if ss else "other")


def exc(interp, st, cls):
    return (RAISE, interp.make_exception(st, cls, []))


# ------------------------------------------------------------------------------------------ operations
def node_getitem(interp: Interp, st: St, obj: V, key: V):
    node: SNode = obj.d
    if key.kind == "const" and isinstance(key.d, (str, int)) and not isinstance(key.d, bool):
        k = key.d
        for s, kind in fork_kind(interp, st, node):
            if kind == "map":
                has, child = node.entry(interp, s, k)
                for s2, hb in interp.fork_on(s, has):
                    if hb:
                        yield s2, ("ok", child.value())
                    else:
                        yield s2, exc(interp, s2, KeyError)
            elif kind == "list":
                if isinstance(k, int):
                    if k < 0:
                        raise Unsupported("negative index on symbolic data")
                    for s2, inb in interp.fork_on(s, node.len > k):
                        if inb:
                            yield s2, ("ok", node.item(interp, s2, k).value())
                        else:
                            yield s2, exc(interp, s2, IndexError)
                else:
                    yield s, exc(interp, s, TypeError)
            elif kind == "str":
                if isinstance(k, int):
                    for s2, inb in interp.fork_on(s, node.len > k):
                        if inb:
                            ch = node.item(interp, s2, k)
                            s2.assume(ch.isstr)
                            yield s2, ("ok", ch.value())
                        else:
                            yield s2, exc(interp, s2, IndexError)
                else:
                    yield s, exc(interp, s, TypeError)
            else:
                yield s, exc(interp, s, TypeError)
        return
    if key.tag and key.tag[0] == "exkey" and key.tag[1] is node:
        # data[key] for one of the node's unprobed keys (inside the loop collecting extras)
        idx = key.tag[2]
        child = node.exvals.get(idx.get_id())
        if child is None:
            child = node.exvals[idx.get_id()] = SNode(interp, st, f"{node.name}_ex", node.path + ("<extra>",))
            st.assume(child.t == T.F_valat(node.exkeys, idx))
        yield st, ("ok", child.value())
        return
    raise Unsupported(f"subscript of symbolic data with {key!r}")


def node_contains(interp, st, x: V, obj: V, negate):
    node: SNode = obj.d

    def out(s, e):
        return s, ("ok", V("bool", z3.Not(e) if negate else e))
    if not (x.kind == "const" and isinstance(x.d, (str, int))):
        raise Unsupported("membership of a non-constant in symbolic data")
    for s, kind in fork_kind(interp, st, node):
        if kind == "map":
            has, _ = node.entry(interp, s, x.d)
            yield out(s, has)
        elif kind in ("list", "str"):
            b = node.contains.get(x.d)
            if b is None:
                b = node.contains[x.d] = z3.Bool(f"in_{node.name}_{_slug(x.d)}!n{SNode._count}")
            if kind == "str" and not isinstance(x.d, str):
                yield s, exc(interp, s, TypeError)
            else:
                yield out(s, b)
        else:
            yield s, exc(interp, s, TypeError)


def node_getattr(interp, st, obj: V, name):
    node: SNode = obj.d
    if name == "get":
        for s, kind in fork_kind(interp, st, node):
            if kind == "map":
                g = V("getter", node)
                yield s, ("ok", g)
            else:
                yield s, exc(interp, s, AttributeError)
        return
    raise Unsupported(f"attribute {name} of symbolic data")


def getter_call(interp, st, g: V, args, kwargs):
    node: SNode = g.d
    key = args[0]
    default = args[1] if len(args) > 1 else const(None)
    if not (key.kind == "const" and isinstance(key.d, (str, int))):
        raise Unsupported("getter with non-constant key")
    has, child = node.entry(interp, st, key.d)
    for s, hb in interp.fork_on(st, has):
        yield s, ("ok", child.value() if hb else default)


def node_keyset(interp, st, obj: V):
    """set(data)"""
    node: SNode = obj.d
    for s, kind in fork_kind(interp, st, node):
        if kind == "map":
            yield s, ("ok", symset_value(interp, SymSet([(k, h) for k, (h, _) in node.entries.items()], ex_node=node)))
        elif kind in ("list", "str"):
            # a set of elements / characters: its relation to the known keys is arbitrary
            yield s, ("ok", symset_value(interp, SymSet([], ex_node=node)))
        else:
            yield s, exc(interp, s, TypeError)


def symset_sub(interp, st, a: V, b: V):
    """a - b where one side is a constant set"""
    if a.kind == "symset" and b.kind == "const":
        s: SymSet = a.d
        known = set(b.d)
        members = [(k, c) for k, c in s.members if k not in known]
        yield st, ("ok", symset_value(interp, SymSet(members, ex_node=s.ex_node)))
        return
    if a.kind == "const" and b.kind == "symset":
        s = b.d
        present = dict(s.members)
        members = []
        for k in sorted(a.d, key=repr):
            if k in present:
                members.append((k, z3.Not(present[k])))
            elif s.ex_node is not None and s.ex_node is not None:
                # a key never probed individually: create its presence flag now
                has, _ = s.ex_node.entry(interp, st, k)
                members.append((k, z3.Not(has)))
            else:
                members.append((k, z3.BoolVal(True)))
        yield st, ("ok", symset_value(interp, SymSet(members, ex_node=None)))
        return
    raise Unsupported("set difference of two symbolic sets")


def node_len(interp, st, obj: V):
    node: SNode = obj.d
    for s, kind in fork_kind(interp, st, node):
        if kind == "other":
            yield s, exc(interp, s, TypeError)
        else:
            yield s, ("ok", V("int", node.len))


def symset_iter(interp, st, v: V):
    """iteration over the node's unprobed keys (constant members must be absent: the generator subtracts the known keys)"""
    s: SymSet = v.d
    node = s.ex_node
    live = [c for _, c in s.members if not z3.is_false(z3.simplify(c))]
    if node is None or live:
        raise Unsupported("iteration over a key set with constant members")

    def elem(s2, i, node=node):
        t = T.F_keyat(node.exkeys, i)
        k = V("sym", t=t)
        k.tag = ("exkey", node, i)
        return k
    it = SeqIter(node.exkeys, elem_fn=elem)
    it.len_term = node.nex
    return V("iter", it)


# ------------------------------------------------------------------------------------------ wiring into the executor
def install():
    if getattr(install, "done", False):
        return
    install.done = True
    orig_getitem = HANDLERS["$getitem"]
    orig_compare = HANDLERS["$compare"]
    orig_getattr = HANDLERS["$getattr"]
    orig_len = HANDLERS[len]
    orig_set = HANDLERS[set]
    orig_binop = HANDLERS["$binop"]
    orig_type = HANDLERS[type]
    orig_isinstance = HANDLERS[isinstance]
    orig_call_symbolic = HANDLERS["$call_symbolic"]
    import ast

    def getitem(interp, st, obj, key):
        if is_node(obj):
            yield from node_getitem(interp, st, obj, key)
        else:
            yield from orig_getitem(interp, st, obj, key)

    def compare(interp, st, op, a, b):
        if is_node(b) and isinstance(op, (ast.In, ast.NotIn)):
            yield from node_contains(interp, st, a, b, isinstance(op, ast.NotIn))
        elif (is_node(a) or is_node(b)) and isinstance(op, (ast.Is, ast.IsNot)):
            ta, tb = interp.term(st, a), interp.term(st, b)
            if (a.kind == "const" or b.kind == "const") and not (a.kind == "const" and a.d is None) \
                    and not (b.kind == "const" and b.d is None):
                # data is never identical to one of the generator's private constants (sentinel ...)
                e = z3.BoolVal(False)
            else:
                e = ta == tb
            yield st, ("ok", V("bool", e if isinstance(op, ast.Is) else z3.Not(e)))
        else:
            yield from orig_compare(interp, st, op, a, b)

    def getattr_(interp, st, obj, name):
        if is_node(obj):
            yield from node_getattr(interp, st, obj, name)
        else:
            yield from orig_getattr(interp, st, obj, name)

    def len_(interp, st, args, kwargs):
        if len(args) == 1 and is_node(args[0]):
            yield from node_len(interp, st, args[0])
        else:
            yield from orig_len(interp, st, args, kwargs)

    def set_(interp, st, args, kwargs):
        if len(args) == 1 and is_node(args[0]):
            yield from node_keyset(interp, st, args[0])
        else:
            yield from orig_set(interp, st, args, kwargs)

    def binop(interp, st, op, a, b):
        if isinstance(op, ast.Sub) and ("symset" in (a.kind, b.kind)):
            yield from symset_sub(interp, st, a, b)
        else:
            yield from orig_binop(interp, st, op, a, b)

    def type_(interp, st, args, kwargs):
        if len(args) == 1 and is_node(args[0]):
            yield st, ("ok", V("type", T.F_cls(args[0].d.t)))
        else:
            yield from orig_type(interp, st, args, kwargs)

    def isinstance_(interp, st, args, kwargs):
        if is_node(args[0]):
            c = args[1]
            classes = c.d if isinstance(c.d, tuple) else (c.d,)
            e = z3.Or(*[T.F_sub(T.F_cls(args[0].d.t), interp.reg.cls(k)) for k in classes])
            yield st, ("ok", V("bool", e))
        else:
            yield from orig_isinstance(interp, st, args, kwargs)

    def call_symbolic(interp, st, f, args, kwargs):
        if f.kind == "getter":
            yield from getter_call(interp, st, f, args, kwargs)
        else:
            yield from orig_call_symbolic(interp, st, f, args, kwargs)
    HANDLERS["$getitem"] = getitem
    HANDLERS["$compare"] = compare
    HANDLERS["$getattr"] = getattr_
    HANDLERS[len] = len_
    HANDLERS[set] = set_
    HANDLERS["$binop"] = binop
    HANDLERS[type] = type_
    HANDLERS[isinstance] = isinstance_
    HANDLERS["$call_symbolic"] = call_symbolic

    orig_truth = Interp.truth

    def truth(self, st, v):
        if v.kind == "symset":
            yield from self.fork_on(st, v.d.nonempty())
        elif v.kind in ("node", "getter"):
            raise Unsupported("truth value of symbolic data")
        else:
            yield from orig_truth(self, st, v)
    Interp.truth = truth

    orig_term = Interp.term

    def term(self, st, v):
        if v.kind in ("node", "symset", "getter") and v.t is None:
            v.t = self.ctx.fresh_val(v.kind)
        return orig_term(self, st, v) if v.kind not in ("node", "symset", "getter") else v.t
    Interp.term = term

    from pyvc import loops
    orig_as_sym_seq = loops.as_sym_seq

    def as_sym_seq(interp, st, x):
        if x.kind == "symset":
            yield from orig_as_sym_seq(interp, st, symset_iter(interp, st, x))
        else:
            yield from orig_as_sym_seq(interp, st, x)
    loops.as_sym_seq = as_sym_seq
