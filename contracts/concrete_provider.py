"""Contracts for morphing/concrete_provider.py — scalar loaders and dumpers.

Top-level clauses are transcribed from docs/loading-and-dumping/specific-types-behavior.rst (table “Allowed strict
origins”, and “lax: all conversions that the corresponding constructor can perform”) and from the property texts:

* accept-iff      C02/C07  the loader returns normally exactly on the documented inputs
* value           C02      ... and returns exactly the documented value
* raises-closed   C04      every exception that leaves the loader is a LoadError
* culprit         C05/C06  the error carries the datum the loader was invoked on
* strict-origin   C07      strict acceptance implies an allowed strict origin
"""
from datetime import date, datetime, time, timedelta, timezone
from decimal import Decimal
from fractions import Fraction

from pyvc.contracts import Via, contract

F = "morphing/concrete_provider.py"
ALL = ["C02", "C04"]

# ---- the documented table ---------------------------------------------------------------------------------------
STRICT_ORIGINS = {
    "int": (int, "(int,)"),
    "float": (float, "(float, int)"),
    "str": (str, "(str,)"),
    "bool": (bool, "(bool,)"),
    "decimal": (Decimal, "(str, Decimal)"),
    "fraction": (Fraction, "(str, Fraction)"),
    "complex": (complex, "(str, complex)"),
}

COMMON_RAISE = {
    "raises-closed": "implies(raised, isinstance(exc, LoadError))",
    "culprit": "implies(raised, exc.input_value is data)",
}
CP = {"raises-closed": ["C04"], "culprit": ["C05", "C06"], "accept-iff": ["C02", "C07"], "value": ["C02", "C01"],
      "strict-origin": ["C07"], "type-vs-value": ["C02"], "pure": ["C20"]}


def strict(name, ctor_name, origins, value="ctor"):
    """strict loader: accepts exactly data whose *exact* class is an allowed origin and that the constructor accepts"""
    post = dict(COMMON_RAISE)
    post["accept-iff"] = f"returned == py(lambda d: type(d) in {origins} and ctor_ok({ctor_name}, d), data)"
    post["strict-origin"] = f"implies(returned, py(lambda d: type(d) in {origins}, data))"
    if value == "as-is":
        post["value"] = "implies(returned, result is data)"
    else:
        post["value"] = f"implies(returned, py(lambda d, r: same(r, {ctor_name}(d)), data, result))"
    post["type-vs-value"] = (f"implies(raised, (type(exc) is TypeLoadError) == "
                             f"py(lambda d: type(d) not in {origins}, data))")
    contract(F, name, props=["C02", "C04", "C05", "C06", "C07", "C01", "C20"], params={"data": "D"}, post=post,
             clause_props=CP, cover=["returned", "raised"],
             native=lambda mod, label, name=name: getattr(mod, name))


def lax(name, ctor_name, type_errors="(TypeError,)"):
    """lax loader: everything the constructor can convert, nothing else; constructor failures become LoadErrors"""
    post = dict(COMMON_RAISE)
    post["accept-iff"] = f"returned == py(lambda d: ctor_ok({ctor_name}, d), data)"
    post["value"] = f"implies(returned, py(lambda d, r: same(r, {ctor_name}(d)), data, result))"
    post["type-vs-value"] = (f"implies(raised, (type(exc) is TypeLoadError) == "
                             f"py(lambda d: ctor_exc({ctor_name}, d) in {type_errors}, data))")
    contract(F, name, props=["C02", "C04", "C05", "C06", "C07", "C01", "C20"], params={"data": "D"}, post=post,
             clause_props=CP, cover=["returned", "raised"],
             native=lambda mod, label, name=name: getattr(mod, name))


strict("int_strict_coercion_loader", "int", "(int,)", value="as-is")
lax("int_lax_coercion_loader", "int")
strict("float_strict_coercion_loader", "float", "(float, int)")
lax("float_lax_coercion_loader", "float")
strict("str_strict_coercion_loader", "str", "(str,)", value="as-is")
strict("bool_strict_coercion_loader", "bool", "(bool,)", value="as-is")
strict("decimal_strict_coercion_loader", "Decimal", "(str, Decimal)")
lax("decimal_lax_coercion_loader", "Decimal")
strict("fraction_strict_coercion_loader", "Fraction", "(str, Fraction)")
lax("fraction_lax_coercion_loader", "Fraction")
strict("complex_strict_coercion_loader", "complex", "(str, complex)")
lax("complex_lax_coercion_loader", "complex")

contract(F, "none_loader", props=["C02", "C04", "C05", "C06", "C07", "C20"], params={"data": "D"}, clause_props=CP,
         post={**COMMON_RAISE,
               "accept-iff": "returned == (data is None)",
               "value": "implies(returned, result is None)",
               "type-vs-value": "implies(raised, type(exc) is TypeLoadError)"},
         cover=["returned", "raised"], native=lambda mod, label: mod.none_loader)
