"""Contracts for morphing/concrete_provider.py — scalar loaders and dumpers.

Top-level clauses are transcribed from docs/loading-and-dumping/specific-types-behavior.rst (table “Allowed strict
origins”, and “lax: all conversions that the corresponding constructor can perform”) and from the property texts:

* accept-iff      C02/C07  the loader returns normally exactly on the documented inputs
* value           C02      ... and returns exactly the documented value
* raises-closed   C04      every exception that leaves the loader is a LoadError
* culprit         C05/C06  the error carries the datum the loader was invoked on
* strict-origin   C07      strict acceptance implies an allowed strict origin
"""
from datetime import date, datetime, time, timedelta, timezone
from decimal import Decimal
from fractions import Fraction

from pyvc.contracts import Via, contract

F = "morphing/concrete_provider.py"
ALL = ["C02", "C04"]

# ---- the documented table ---------------------------------------------------------------------------------------
STRICT_ORIGINS = {
    "int": (int, "(int,)"),
    "float": (float, "(float, int)"),
    "str": (str, "(str,)"),
    "bool": (bool, "(bool,)"),
    "decimal": (Decimal, "(str, Decimal)"),
    "fraction": (Fraction, "(str, Fraction)"),
    "complex": (complex, "(str, complex)"),
}

COMMON_RAISE = {
    "raises-closed": "implies(raised, isinstance(exc, LoadError))",
    "culprit": "implies(raised and isinstance(exc, LoadError), exc.input_value is data)",
}
CP = {"raises-closed": ["C04"], "culprit": ["C05", "C06"], "accept-iff": ["C02", "C07"], "value": ["C02", "C01"],
      "strict-origin": ["C07"], "type-vs-value": ["C02"], "pure": ["C20"]}


def strict(name, ctor_name, origins, value="ctor"):
    """strict loader: accepts exactly data whose *exact* class is an allowed origin and that the constructor accepts"""
    post = dict(COMMON_RAISE)
    post["accept-iff"] = f"returned == py(lambda d: type(d) in {origins} and ctor_ok({ctor_name}, d), data)"
    post["strict-origin"] = f"implies(returned, py(lambda d: type(d) in {origins}, data))"
    if value == "as-is":
        post["value"] = "implies(returned, result is data)"
    else:
        post["value"] = f"implies(returned, py(lambda d, r: same(r, {ctor_name}(d)), data, result))"
    post["type-vs-value"] = (f"implies(raised, (type(exc) is TypeLoadError) == "
                             f"py(lambda d: type(d) not in {origins}, data))")
    contract(F, name, props=["C02", "C04", "C05", "C06", "C07", "C01", "C20"], params={"data": "D"}, post=post,
             clause_props=CP, cover=["returned", "raised"],
             native=lambda mod, label, name=name: getattr(mod, name))


def lax(name, ctor_name, type_errors="(TypeError,)"):
    """lax loader: everything the constructor can convert, nothing else; constructor failures become LoadErrors"""
    post = dict(COMMON_RAISE)
    post["accept-iff"] = f"returned == py(lambda d: ctor_ok({ctor_name}, d), data)"
    post["value"] = f"implies(returned, py(lambda d, r: same(r, {ctor_name}(d)), data, result))"
    post["type-vs-value"] = (f"implies(raised, (type(exc) is TypeLoadError) == "
                             f"py(lambda d: ctor_exc({ctor_name}, d) in {type_errors}, data))")
    contract(F, name, props=["C02", "C04", "C05", "C06", "C07", "C01", "C20"], params={"data": "D"}, post=post,
             clause_props=CP, cover=["returned", "raised"],
             native=lambda mod, label, name=name: getattr(mod, name))


strict("int_strict_coercion_loader", "int", "(int,)", value="as-is")
lax("int_lax_coercion_loader", "int")
strict("float_strict_coercion_loader", "float", "(float, int)")
lax("float_lax_coercion_loader", "float")
strict("str_strict_coercion_loader", "str", "(str,)", value="as-is")
strict("bool_strict_coercion_loader", "bool", "(bool,)", value="as-is")
strict("decimal_strict_coercion_loader", "Decimal", "(str, Decimal)")
lax("decimal_lax_coercion_loader", "Decimal")
strict("fraction_strict_coercion_loader", "Fraction", "(str, Fraction)")
lax("fraction_lax_coercion_loader", "Fraction")
strict("complex_strict_coercion_loader", "complex", "(str, complex)")
lax("complex_lax_coercion_loader", "complex")

contract(F, "none_loader", props=["C02", "C04", "C05", "C06", "C07", "C20"], params={"data": "D"}, clause_props=CP,
         post={**COMMON_RAISE,
               "accept-iff": "returned == (data is None)",
               "value": "implies(returned, result is None)",
               "type-vs-value": "implies(raised, type(exc) is TypeLoadError)"},
         cover=["returned", "raised"], native=lambda mod, label: mod.none_loader)


# ---- closures reached through their real factory method ------------------------------------------------------------
def closure(qual, entry, receivers, post, props=("C02", "C04", "C05", "C06", "C20"), cover=("returned", "raised"),
            native=None, **kw):
    kw.setdefault("clause_props", CP)
    contract(F, qual, props=list(props), params={"data": "D"}, via=Via(entry, receivers), post=post,
             cover=list(cover), native=native, **kw)


ISO = {"date": lambda m: m.IsoFormatProvider(date), "time": lambda m: m.IsoFormatProvider(time),
       "datetime": lambda m: m.IsoFormatProvider(datetime)}
closure("IsoFormatProvider._make_loader.<locals>.isoformat_loader", "IsoFormatProvider._make_loader", ISO,
        {**COMMON_RAISE,
         "accept-iff": "returned == py(lambda d, f: ctor_ok(f, d), data, raw_loader)",
         "value": "implies(returned, py(lambda d, r, f: same(r, f(d)), data, result, raw_loader))",
         "type-vs-value": "implies(raised, (type(exc) is TypeLoadError) == py(lambda d: type(d) is not str and not isinstance(d, str), data))"},
        props=("C02", "C04", "C05", "C06", "C20", "C01"),
        native=lambda mod, label: ISO[label](mod)._make_loader())

closure("DatetimeFormatProvider._make_loader.<locals>.datetime_format_loader", "DatetimeFormatProvider._make_loader",
        {"ymd": lambda m: m.DatetimeFormatProvider("%Y-%m-%d"), "hms": lambda m: m.DatetimeFormatProvider("%H:%M:%S")},
        {**COMMON_RAISE,
         "accept-iff": "returned == py(lambda d, f: ctor_ok(datetime.strptime, d, f), data, fmt)",
         "value": "implies(returned, py(lambda d, r, f: same(r, datetime.strptime(d, f)), data, result, fmt))"},
        native=lambda mod, label: mod.DatetimeFormatProvider({"ymd": "%Y-%m-%d", "hms": "%H:%M:%S"}[label])._make_loader())

closure("DatetimeTimestampProvider._make_loader.<locals>.datetime_timestamp_loader",
        "DatetimeTimestampProvider._make_loader",
        {"utc": lambda m: m.DatetimeTimestampProvider(timezone.utc), "local": lambda m: m.DatetimeTimestampProvider(None)},
        {**COMMON_RAISE,
         "accept-iff": "returned == py(lambda d, z: ctor_ok(datetime.fromtimestamp, d, tz=z), data, tz)",
         "value": "implies(returned, py(lambda d, r, z: same(r, datetime.fromtimestamp(d, tz=z)), data, result, tz))"},
        native=lambda mod, label: mod.DatetimeTimestampProvider({"utc": timezone.utc, "local": None}[label])._make_loader())

def utc_date(ts):
    """the calendar date (UTC) of a UNIX timestamp.  `date_by_timestamp` dumps a date as the timestamp of its UTC midnight, so this
    is the one reading of "date from UNIX timestamp" under which load(dump(x)) == x can hold in every process time zone (C01);
    the dumper's `inverse` clause below is stated with the same function."""
    return datetime.fromtimestamp(ts, tz=timezone.utc).date()


# the process time zone is part of what the properties quantify over: dates and naive datetimes are converted through local time
TZ_AXIS = {"tz-default": None, "tz-west5": {"TZ": "VRF5"}, "tz-east9": {"TZ": "VRF-9"}}
for _tzl, _env in TZ_AXIS.items():
    closure("DateTimestampProvider._make_loader.<locals>.date_timestamp_loader", "DateTimestampProvider._make_loader",
            {_tzl: lambda m: m.DateTimestampProvider()},
            {**COMMON_RAISE,
             "accept-iff": "returned == py(lambda d: d is not None and ctor_ok(utc_date, d), data)",
             "value": "implies(returned, py(lambda d, r: same(r, utc_date(d)), data, result))"},
            props=("C02", "C04", "C05", "C06", "C20", "C01"),
            name=f"{F}:DateTimestampProvider._make_loader.<locals>.date_timestamp_loader[{_tzl}]",
            consts={"utc_date": utc_date}, env=_env,
            native=lambda mod, label: mod.DateTimestampProvider()._make_loader())

closure("SecondsTimedeltaProvider._make_loader.<locals>.timedelta_loader", "SecondsTimedeltaProvider._make_loader",
        {"": lambda m: m.SecondsTimedeltaProvider()},
        {**COMMON_RAISE,
         # documented: "Loader accepts instance of int, float or Decimal representing seconds"
         "strict-origin": "implies(returned, py(lambda d: type(d) in (int, float, Decimal), data))",
         "type-vs-value": "implies(raised, (type(exc) is TypeLoadError) == py(lambda d: type(d) not in (int, float, Decimal), data))",
         "value": "implies(returned, py(lambda d, r: type(r) is timedelta and abs(r.total_seconds() - float(d)) < 1e-6, data, result))",
         "accept-finite": "implies(py(lambda d: type(d) in (int, float, Decimal) and finite_small(d), data), returned)"},
        props=("C02", "C04", "C05", "C06", "C20", "C01", "C07"),
        clause_props={**CP, "accept-finite": ["C02"], "value": ["C02", "C01"]},
        native=lambda mod, label: mod.SecondsTimedeltaProvider()._make_loader())

closure("BytesBase64Provider._make_loader.<locals>.bytes_base64_loader", "BytesBase64Provider._make_loader",
        {"": lambda m: m.BytesBase64Provider()},
        {**COMMON_RAISE,
         "strict-origin": "implies(returned, py(lambda d: isinstance(d, str), data))",
         "type-vs-value": "implies(raised, (type(exc) is TypeLoadError) == py(lambda d: not isinstance(d, str), data))",
         "value": "implies(returned, py(lambda d, r: type(r) is bytes and r == a2b_base64(d.encode('ascii')), data, result))",
         "accept-iff": "returned == py(lambda d: isinstance(d, str) and d.isascii() and bool(B64_PATTERN.fullmatch(d.encode('ascii'))) and ctor_ok(a2b_base64, d.encode('ascii')), data)"},
        props=("C02", "C04", "C05", "C06", "C20", "C01", "C07"),
        native=lambda mod, label: mod.BytesBase64Provider()._make_loader())

closure("RegexPatternProvider._make_loader.<locals>.regex_loader", "RegexPatternProvider._make_loader",
        {"": lambda m: m.RegexPatternProvider()},
        {**COMMON_RAISE,
         "accept-iff": "returned == py(lambda d: isinstance(d, str) and ctor_ok(re.compile, d), data)",
         "value": "implies(returned, py(lambda d, r: isinstance(r, re.Pattern) and r.pattern == d and r.flags == re.compile(d, flags).flags, data, result))",
         "type-vs-value": "implies(raised, (type(exc) is TypeLoadError) == py(lambda d: not isinstance(d, str), data))"},
        props=("C02", "C04", "C05", "C06", "C20", "C01", "C07"),
        native=lambda mod, label: mod.RegexPatternProvider()._make_loader())

# wrappers around another loader: modular — the wrapped loader is any callable under LD
for _qual, _entry, _recv, _ctor in [
    ("BytesIOBase64Provider._make_loader.<locals>.bytes_io_base64_loader", "BytesIOBase64Provider._make_loader",
     lambda m: m.BytesIOBase64Provider(), "BytesIO"),
    ("BytearrayBase64Provider._make_loader.<locals>.bytearray_base64_loader", "BytearrayBase64Provider._make_loader",
     lambda m: m.BytearrayBase64Provider(), "bytearray"),
]:
    contract(F, _qual, props=["C02", "C04", "C05", "C20"], params={"data": "D"},
             via=Via(_entry, {"": _recv}, args={"loader": "LD"}), clause_props=CP,
             post={"raises-closed": "implies(raised, isinstance(exc, LoadError))",
                   "accept-iff": "returned == ok(loader, data)",
                   "culprit": "implies(raised, is_err(exc, loader, data))"},
             requires=["res_is_bytes(loader)"], stubs={"result": lambda x: repr(x).encode()},
             cover=["returned", "raised"])


# =====================================================================================================================
# Scalar DUMPERS.  C02: "dump returns exactly the documented outer form" (specific-types-behavior.rst: date / time /
# datetime -> isoformat string, timedelta -> seconds, bytes-likes -> base64 string, Decimal / Fraction / complex -> str,
# re.Pattern -> its pattern, int / float / str / bool / None as is).  C01: the clause `inverse` applies the SAME spec
# function the loader's `value` clause is stated with to the dumped form and demands the datum back, so
# load(dump(x)) == x is a two-line lemma over the two contracts (loader.value: load(y) == S(y); dumper.inverse: S(dump(x)) == x).
# The argument is a datum of D restricted by `requires` to the cells of the dumped type (a dumper is only ever invoked
# on values of its type); the stdlib methods are probed per live cell like every other built-in.
# =====================================================================================================================
DCP = {"returns": ["C02"], "form": ["C02"], "inverse": ["C01"], "loadable": ["C01", "C02"], "modifies-nothing": ["C20"]}
DPROPS = ["C01", "C02", "C20"]


def dump_closure(qual, entry, receivers, typ, post, name=None, consts=None, env=None, notes=()):
    contract(F, qual, name=name, props=DPROPS, params={"data": "D"}, via=Via(entry, receivers),
             requires=[f"py(lambda d: {typ}, data)"], post={"returns": "returned", **post}, clause_props=DCP,
             cover=["returned"], consts=dict(consts or {}), env=env, notes=list(notes))


def dump_returned(qual, label, recv, typ, post, consts=None, extra_params=None):
    """the unit is a method that hands out the dumper (a stdlib method or a repository function); second stage: the dumper
    applied to a datum of its type"""
    params = {"self": ("constf", recv)}
    params.update(extra_params or {})
    contract(F, qual, name=f"{F}:{qual}[{label}]", props=DPROPS, params=params, then={"data": "D"},
             then_requires=[f"py(lambda d: {typ}, data)"], post={"returns": "returned", **post}, clause_props=DCP,
             cover=["returned"], consts=dict(consts or {}), frame=True)


B64 = {"form": "implies(returned, py(lambda r: type(r) is str, result))",
       "loadable": "implies(returned, py(lambda r: type(r) is str and r.isascii() and bool(B64_PATTERN.fullmatch(r.encode('ascii'))), result))"}
dump_closure("_Base64DumperMixin._make_dumper.<locals>.bytes_base64_dumper", "_Base64DumperMixin._make_dumper",
             {"bytes": lambda m: m.BytesBase64Provider(), "bytearray": lambda m: m.BytearrayBase64Provider()},
             "type(d) in (bytes, bytearray)",
             {**B64, "inverse": "implies(returned, py(lambda d, r: a2b_base64(r.encode('ascii')) == bytes(d), data, result))"})
dump_closure("BytesIOBase64Provider._make_dumper.<locals>.bytes_io_base64_dumper", "BytesIOBase64Provider._make_dumper",
             {"": lambda m: m.BytesIOBase64Provider()}, "type(d) is BytesIO",
             {**B64, "inverse": "implies(returned, py(lambda d, r: a2b_base64(r.encode('ascii')) == d.getvalue(), data, result))"})

for _lab, _fmt, _back in [("ymd", "%Y-%m-%d", "datetime(d.year, d.month, d.day)"),
                          ("full", "%Y-%m-%dT%H:%M:%S.%f", "d")]:
    dump_closure("DatetimeFormatProvider._make_dumper.<locals>.datetime_format_dumper", "DatetimeFormatProvider._make_dumper",
                 {_lab: (lambda m, _fmt=_fmt: m.DatetimeFormatProvider(_fmt))}, "type(d) is datetime and d.tzinfo is None",
                 {"form": "implies(returned, py(lambda r: type(r) is str, result))",
                  "inverse": f"implies(returned, py(lambda d, r, f: datetime.strptime(r, f) == {_back}, data, result, fmt))"},
                 name=f"{F}:DatetimeFormatProvider._make_dumper.<locals>.datetime_format_dumper[{_lab}]")

for _tzl, _env in TZ_AXIS.items():
    for _lab, _tz in [("utc", timezone.utc), ("local", None)]:
        dump_closure("DatetimeTimestampProvider._make_dumper.<locals>.datetime_timestamp_dumper",
                     "DatetimeTimestampProvider._make_dumper",
                     {_lab: (lambda m, _tz=_tz: m.DatetimeTimestampProvider(_tz))},
                     "type(d) is datetime and (d.tzinfo is None) == (TZ is None)",
                     {"form": "implies(returned, py(lambda r: type(r) is float, result))",
                      "inverse": "implies(returned, py(lambda d, r: datetime.fromtimestamp(r, tz=TZ) == d, data, result))"},
                     name=f"{F}:DatetimeTimestampProvider._make_dumper.<locals>.datetime_timestamp_dumper[{_lab},{_tzl}]",
                     consts={"TZ": _tz}, env=_env)
    dump_closure("DateTimestampProvider._make_dumper.<locals>.date_timestamp_dumper", "DateTimestampProvider._make_dumper",
                 {_tzl: lambda m: m.DateTimestampProvider()}, "type(d) is date",
                 {"form": "implies(returned, py(lambda r: type(r) is float, result))",
                  "inverse": "implies(returned, py(lambda d, r: utc_date(r) == d, data, result))"},
                 name=f"{F}:DateTimestampProvider._make_dumper.<locals>.date_timestamp_dumper[{_tzl}]",
                 consts={"utc_date": utc_date}, env=_env)

for _lab, _cls in [("date", date), ("time", time), ("datetime", datetime)]:
    dump_returned("IsoFormatProvider._make_dumper", _lab, (lambda m, _cls=_cls: m.IsoFormatProvider(_cls)), "type(d) is CLS",
                  {"form": "implies(returned, py(lambda r: type(r) is str, result))",
                   "inverse": "implies(returned, py(lambda d, r: same(CLS.fromisoformat(r), d), data, result))"},
                  consts={"CLS": _cls})

dump_returned("SecondsTimedeltaProvider._make_dumper", "", lambda m: m.SecondsTimedeltaProvider(), "type(d) is timedelta",
              {"form": "implies(returned, py(lambda r: type(r) in (float, int), result))",
               "inverse": "implies(returned, py(lambda d, r: abs(timedelta(seconds=r) - d) <= timedelta(microseconds=1), data, result))"})

_NOREQ = {"mediator": ("const", None), "request": ("const", None)}
for _lab, _ctor, _typ in [("decimal", Decimal, "type(d) is Decimal"), ("fraction", Fraction, "type(d) is Fraction"),
                          ("complex", complex, "type(d) is complex")]:
    dump_returned("ScalarProvider.provide_dumper", _lab, (lambda m, _lab=_lab: getattr(m, _lab.upper() + "_PROVIDER")), _typ,
                  {"form": "implies(returned, py(lambda r: type(r) is str, result))",
                   "inverse": "implies(returned, py(lambda d, r: same(CTOR(r), d), data, result))"},
                  consts={"CTOR": _ctor}, extra_params=_NOREQ)
for _lab, _typ in [("int", "type(d) is int"), ("float", "type(d) is float"), ("str", "type(d) is str"), ("bool", "type(d) is bool")]:
    dump_returned("ScalarProvider.provide_dumper", _lab, (lambda m, _lab=_lab: getattr(m, _lab.upper() + "_PROVIDER")), _typ,
                  {"form": "implies(returned, result is data)", "inverse": "implies(returned, result is data)"},
                  extra_params=_NOREQ)
dump_returned("NoneProvider.provide_dumper", "", lambda m: m.NoneProvider(), "d is None",
              {"form": "implies(returned, result is None)", "inverse": "implies(returned, result is None)"}, extra_params=_NOREQ)

contract(F, "_regex_dumper", props=DPROPS, params={"data": "D"}, requires=["py(lambda d: isinstance(d, re.Pattern), data)"],
         post={"returns": "returned",
               "form": "implies(returned, py(lambda r: type(r) is str, result))",
               "inverse": "implies(returned, py(lambda d, r: re.compile(r).pattern == d.pattern, data, result))"},
         clause_props=DCP, cover=["returned"], native=lambda mod, label: mod._regex_dumper)
