"""C15 extras (bounded stand-in, labelled bounded): the live-`typing` dispatch of TypeNormalizer.normalize cannot be brought
under contract (reflection over typing objects), so the canonical-form claims are checked on the hint grammar of the
property up to a stated depth: meaning-preserving rewrites must give equal normal forms with equal hashes, single
meaning-changing edits must give different ones, normalisation is idempotent, bare generics get the documented implicit
parameters."""
import enum
import itertools
import time
import typing
from typing import Any, Dict, List, Literal, Optional, Sequence, Set, Tuple, TypeVar, Union

LEVEL_TEXT = ("`_dedup` proved for all sequences (loop invariant); canonical-form behaviour of normalize_type on live typing "
              "objects checked by a bounded rewrite enumeration (labelled bounded)")


class Col(enum.Enum):
    R = 1
    G = 2


T1 = TypeVar("T1")
TB = TypeVar("TB", bound=int)
TC = TypeVar("TC", int, str)


def extra_checks(tier, seed):
    from adaptix._internal.type_tools import normalize_type
    t0 = time.time()
    viol, n_eq, n_ne = [], 0, 0

    def norm(tp):
        return normalize_type(tp)

    def same(a, b, why):
        nonlocal n_eq
        n_eq += 1
        try:
            na, nb = norm(a), norm(b)
            ok = na == nb and hash(na) == hash(nb)
            detail = f"{na!r} vs {nb!r}"
        except Exception as e:  # noqa: BLE001
            ok, detail = False, f"{type(e).__name__}: {e}"
        if not ok:
            viol.append({"unit": "normalize_type", "clause": "equal-forms", "witness": f"{why}: {a!r} ~ {b!r}"[:180],
                         "w": {"native_outcome": detail[:300], "input": f"{a!r} | {b!r}"[:200]}})

    def differ(a, b, why):
        nonlocal n_ne
        n_ne += 1
        try:
            na, nb = norm(a), norm(b)
            ok = na != nb
            detail = f"{na!r} vs {nb!r}"
        except Exception as e:  # noqa: BLE001
            ok, detail = False, f"{type(e).__name__}: {e}"
        if not ok:
            viol.append({"unit": "normalize_type", "clause": "distinct-forms", "witness": f"{why}: {a!r} !~ {b!r}"[:180],
                         "w": {"native_outcome": detail[:300], "input": f"{a!r} | {b!r}"[:200]}})

    # ---- the same relation observed where the property says it is used: loaders, dumpers and predicates of ONE shared retort
    # (equal forms behave identically; different hints keep their own behaviour although both were requested from the same retort)
    from adaptix import Retort
    from adaptix._internal.provider.loc_stack_filtering import LocStack, create_loc_stack_checker
    from adaptix._internal.provider.location import TypeHintLoc
    load_samples = [0, 1, False, True, "a", b"a", None, 1.0, 2, "x", [1], ["a"], [0, False], {"a": 1}, (1, "a"), [1, "a"], "YQ=="]
    dump_samples = [0, 1, False, True, "a", b"a", None, 1.0, [1], {"a": 1}, (1, "a"), Col.R, Col.G, {1}]
    shared = {True: Retort(strict_coercion=True), False: Retort(strict_coercion=False)}
    counts = {"behaviour": 0, "predicate": 0}
    fresh_cache = {}

    def behaviour(retort, tp):
        out = []
        for kind, samples in (("load", load_samples), ("dump", dump_samples)):
            try:
                fn = retort.get_loader(tp) if kind == "load" else retort.get_dumper(tp)
            except Exception as e:  # noqa: BLE001
                out.append((kind, "not-created", type(e).__name__))
                continue
            for x in samples:
                try:
                    r = fn(x)
                    out.append((kind, repr(x), "ret", type(r).__name__, repr(r)))
                except Exception as e:  # noqa: BLE001
                    out.append((kind, repr(x), "raise", type(e).__name__))
        return out

    def fresh_behaviour(tp, strict):
        key = (repr(tp), strict)
        if key not in fresh_cache:
            fresh_cache[key] = behaviour(Retort(strict_coercion=strict), tp)
        return fresh_cache[key]

    def first_diff(x, y):
        return next((f"{p!r} vs {q!r}" for p, q in zip(x, y) if p != q), f"{len(x)} vs {len(y)} observations")

    def predicate_matches(pred, tp):
        return create_loc_stack_checker(pred).check_loc_stack(None, LocStack(TypeHintLoc(type=tp)))

    def same_behaviour(a, b, why):
        for strict, retort in shared.items():
            counts["behaviour"] += 1
            ba, bb = behaviour(retort, a), behaviour(retort, b)
            if ba != bb:
                viol.append({"unit": "equal hints on one retort", "clause": "equivalent-loaders-and-dumpers",
                             "witness": f"{why}: {a!r} ~ {b!r} strict={strict}"[:180],
                             "w": {"native_outcome": first_diff(ba, bb)[:300], "input": f"{a!r} | {b!r}"[:200]}})
                return
        if not isinstance(a, type) and a is not None:
            counts["predicate"] += 1
            try:
                ok, detail = predicate_matches(a, b) is True, "predicate built from the first hint does not match a location of the second"
            except Exception as e:  # noqa: BLE001
                ok, detail = False, f"{type(e).__name__}: {e}"
            if not ok:
                viol.append({"unit": "equal hints on one retort", "clause": "equivalent-predicates", "witness": f"{why}: {a!r} ~ {b!r}"[:180],
                             "w": {"native_outcome": detail[:300], "input": f"{a!r} | {b!r}"[:200]}})

    def never_collapse(a, b, why):
        for strict, retort in shared.items():
            for first, second in ((a, b), (b, a)):
                counts["behaviour"] += 1
                behaviour(retort, first)
                got, want = behaviour(retort, second), fresh_behaviour(second, strict)
                if got != want:
                    viol.append({"unit": "different hints on one retort", "clause": "never-collapse",
                                 "witness": f"{why}: {second!r} requested after {first!r} strict={strict}"[:180],
                                 "w": {"native_outcome": ("behaves differently from the same hint on a new retort: " + first_diff(got, want))[:300],
                                       "input": f"{first!r} then {second!r}"[:200]}})
                    return
        if not isinstance(a, type) and a is not None:
            counts["predicate"] += 1
            try:
                ok, detail = predicate_matches(a, b) is False, "predicate built from the first hint matches a location of the second"
            except Exception as e:  # noqa: BLE001
                ok, detail = False, f"{type(e).__name__}: {e}"
            if not ok:
                viol.append({"unit": "different hints on one retort", "clause": "never-collapse-predicates",
                             "witness": f"{why}: {a!r} !~ {b!r}"[:180],
                             "w": {"native_outcome": detail[:300], "input": f"{a!r} | {b!r}"[:200]}})
    _same, _differ = same, differ

    def same(a, b, why):  # noqa: F811
        _same(a, b, why)
        if len(viol) < 40:
            same_behaviour(a, b, why)

    def differ(a, b, why):  # noqa: F811
        _differ(a, b, why)
        if len(viol) < 40:
            never_collapse(a, b, why)

    atoms = [int, str, bytes, float, None, List[int], Dict[str, int], Tuple[int, str], Col]
    # --- unions: reordering, nesting, duplication, Optional, `|`
    for k in (2, 3):
        for combo in itertools.combinations(atoms, k):
            base = Union[combo]
            for perm in itertools.islice(itertools.permutations(combo), 6):
                same(base, Union[perm], "reorder")
            same(base, Union[(combo[0], Union[combo[1:]])] if k > 2 else Union[combo[0], Union[combo[1], combo[1]]], "nest/dup")
            same(base, Union[combo + (combo[0],)], "duplicate")
            if all(c is not None for c in combo):
                same(Optional[base], Union[combo + (None,)], "optional")
                differ(base, Optional[base], "optional-changes-meaning")
            try:
                piped = combo[0] if combo[0] is not None else type(None)
                for c in combo[1:]:
                    piped = piped | (c if c is not None else type(None))
                same(base, piped, "pipe")
            except TypeError:
                pass
            differ(base, Union[combo[:-1]] if k > 2 else combo[0], "member-removed")
    # --- typing aliases vs builtin generics, bare generics and implicit parameters
    same(List[int], list[int], "alias")
    same(Dict[str, int], dict[str, int], "alias")
    same(Tuple[int, str], tuple[int, str], "alias")
    same(Set[int], set[int], "alias")
    same(List, List[Any], "bare-generic")
    same(list, List[Any], "bare-generic")
    same(Dict, Dict[Any, Any], "bare-generic")
    same(dict, dict[Any, Any], "bare-generic")
    same(Sequence, Sequence[Any], "bare-generic")
    same(Tuple, Tuple[Any, ...], "bare-generic")
    differ(List[int], List[str], "argument-changed")
    differ(List[int], Set[int], "origin-changed")
    differ(Dict[str, int], Dict[int, str], "arguments-swapped")

    class G(typing.Generic[T1, TB, TC]):
        pass
    same(G, G[Any, int, Union[int, str]], "implicit-params: Any / bound / union of constraints")
    # --- literals: merge / split / None / typed members
    lits = [0, 1, False, True, "a", b"a", Col.R, Col.G]
    for a, b in itertools.combinations(lits, 2):
        same(Literal[a, b], Union[Literal[a], Literal[b]], "literal-split")
        same(Literal[a, b], Literal[b, a], "literal-reorder")
        same(Literal[a, b], Union[Literal[b], Literal[a], Literal[a]], "literal-dup")
        differ(Literal[a], Literal[b], "literal-member-changed (typed)")
        differ(Literal[a, b], Literal[a], "literal-member-removed")
        same(Optional[Literal[a, b]], Union[Literal[a], None, Literal[b]], "literal-optional")
    for a, b, c in itertools.combinations(lits, 3):
        same(Literal[a, b, c], Union[Literal[a], Literal[b, c]], "literal-merge3")
        differ(Literal[a, b, c], Literal[a, b], "literal-member-removed3")
    # literals holding None next to separately written literals (merge happens after unfolding)
    for a, b in itertools.combinations(["a", 1, Col.R, b"a"], 2):
        same(Union[Literal[a], Literal[None, b]], Optional[Literal[a, b]], "literal-none-merge")
        same(Union[Literal[a], Literal[None, b]], Literal[a, b, None], "literal-none-merge")
        same(Union[Literal[None, a], Literal[None, b]], Optional[Literal[a, b]], "literal-none-merge")
        same(Union[Literal[a], Literal[None, b], int], Union[None, int, Literal[a, b]], "literal-none-merge")
    # the spelling of nested arguments (typing alias vs builtin generic) never influences the normal form
    spell = [(List[int], list[int]), (Dict[str, int], dict[str, int]), (Set[int], set[int])]
    for (t_alias, t_builtin), (x, y) in itertools.product(spell, [(float, int), (str, bytes), (int, str)]):
        same(Union[Tuple[t_alias, x], Tuple[t_builtin, y]], Union[Tuple[t_builtin, x], Tuple[t_alias, y]], "nested-alias-spelling")
        same(Union[Tuple[t_alias, x], Tuple[t_builtin, y]], Union[tuple[t_builtin, y], tuple[t_builtin, x]], "nested-alias-spelling")
        same(Union[Dict[str, t_alias], Dict[str, x]], Union[dict[str, x], dict[str, t_builtin]], "nested-alias-spelling")
        same(List[Union[t_alias, x]], list[Union[x, t_builtin]], "nested-alias-spelling")
    same(Literal[None], None, "Literal[None]")
    same(Optional[int], Union[int, Literal[None]], "Literal[None] in union")
    # --- idempotence on everything seen
    pool = atoms + [Union[int, str], Optional[List[int]], Literal[0, False], Literal["a", 1], List, Dict, G,
                    Union[Literal[0], Literal[False], str]]
    n_id = 0
    for tp in pool:
        n_id += 1
        try:
            n1 = norm(tp)
            n2 = norm(n1.source)
            ok = n1 == n2 and hash(n1) == hash(n2)
            detail = f"{n1!r} vs {n2!r}"
        except Exception as e:  # noqa: BLE001
            ok, detail = False, f"{type(e).__name__}: {e}"
        if not ok:
            viol.append({"unit": "normalize_type", "clause": "idempotent", "witness": f"{tp!r}"[:160],
                         "w": {"native_outcome": detail[:300], "input": repr(tp)[:200]}})
    # ---- canonical member order of a union does not depend on the written order, WITHOUT the help of normalize_type's lru_cache (typing
    # makes Union[A, B] == Union[B, A], so the cached public function answers the second spelling with the first result; the cache is
    # missed for hints that are not hashable — Annotated with a list as metadata — and after eviction).  Every permutation of a pool of
    # pairwise different members, normalised by a NEW TypeNormalizer each, must give equal forms with equal hashes.
    import contextvars
    import decimal
    t = typing
    from adaptix._internal.type_tools.normalize_type import ImplicitParamsGetter, TypeNormalizer
    order_pools = [
        ("look-alike literals inside members", [t.List[t.Literal[1]], t.List[t.Literal["1"]]]),
        ("look-alike literal members of a tuple", [t.Tuple[t.Literal["None"], int], t.Tuple[None, int]]),
        ("same-named classes of two modules", [decimal.Context, contextvars.Context]),
        ("same-named classes inside members", [t.List[decimal.Context], t.List[contextvars.Context], int]),
        ("plain members", [int, str, bytes]),
        ("nested generic members", [t.Dict[str, int], t.Dict[int, str], t.List[int]]),
        ("bool / int literal look-alikes", [t.List[t.Literal[0]], t.List[t.Literal[False]], t.List[t.Literal["0"]]]),
    ]
    n_perm = 0
    for why, pool in order_pools:
        forms = []
        for perm in itertools.permutations(pool):
            n_perm += 1
            try:
                forms.append((perm, TypeNormalizer(ImplicitParamsGetter()).normalize(t.Union[perm])))
            except Exception as e:  # noqa: BLE001
                forms.append((perm, f"{type(e).__name__}: {e}"))
        p0, f0 = forms[0]
        for perm, f in forms[1:]:
            if isinstance(f, str) or isinstance(f0, str) or f != f0 or hash(f) != hash(f0):
                viol.append({"unit": "_UnionNormType._order_args", "clause": "order-independent", "witness": f"{why}: {perm!r}"[:160].replace("typing.", ""),
                             "w": {"input": f"Union{list(p0)!r} vs Union{list(perm)!r} (each normalised by a new TypeNormalizer: no lru_cache)"[:300],
                                   "native_outcome": f"{f0!r} vs {f!r}"[:300]}})
                break
    return [{
        "obligations": 0, "discharged": 0, "violations": viol,
        "bounded": [{"unit": "_UnionNormType._order_args / _make_orderable (canonical member order without the lru_cache)",
                     "bound": f"{len(order_pools)} pools of pairwise different members incl. look-alikes, all {n_perm} permutations, one new TypeNormalizer each"},
                    {"unit": "TypeNormalizer.normalize on live typing objects",
                     "bound": f"hint grammar over {len(atoms)} atoms, unions of 2-3 members, literals over {len(lits)} confusable "
                              f"values: {n_eq} equal-form pairs, {n_ne} distinct-form pairs, {n_id} idempotence checks"},
                    {"unit": "loaders / dumpers / predicates of one shared retort for the same pairs",
                     "bound": f"{counts['behaviour']} behaviour comparisons ({len(load_samples)} load + {len(dump_samples)} dump samples, strict and "
                              f"lax; a different hint requested after the other one must behave as on a new retort), "
                              f"{counts['predicate']} predicate evaluations"}],
        "samples": [{"equal_pairs": n_eq, "distinct_pairs": n_ne, "idempotence": n_id, "failed": len(viol)}],
        "assumptions": ["typing reflection (get_origin/get_args/__parameters__) is outside the contracts"],
        "solver_time": 0.0,
    }]
