"""Side-car contract objects (DESIGN.md §2.3).  Contracts never live in /repo: they are keyed by
(file, qualified name[, loop ordinal]) and attached to the AST re-extracted from the working tree on every run."""
from __future__ import annotations

REGISTRY = {}          # name -> Contract
BY_PROP = {}           # prop id -> [Contract]


class LoopSpec:
    def __init__(self, inv=(), binds=None, modifies=(), havoc_trails=False, decreases=None, ghost=None):
        self.inv = list(inv)
        self.binds = dict(binds or {})
        self.modifies = list(modifies)
        self.havoc_trails = havoc_trails
        self.decreases = decreases
        self.ghost = dict(ghost or {})       # name -> (init expr, update expr) evaluated by the *code* evaluator


class Via:
    """Reach a closure through the real factory method, executed symbolically on a real receiver."""

    def __init__(self, entry, receivers=None, args=None, kwargs=None, instance_kwargs=None, any_closure=False):
        self.entry = entry
        self.receivers = receivers or {"": None}     # label -> callable(module) -> receiver object | None (function)
        self.args = args or {}
        self.kwargs = kwargs or {}
        self.instance_kwargs = instance_kwargs or {}  # label -> {name: kind} (overrides kwargs)
        self.any_closure = any_closure                # the unit is whatever closure the factory returns


class Contract:
    def __init__(self, file, qual, *, props, params=None, free=None, via=None, requires=(), post=None, loops=None,
                 cover=(), native=None, name=None, clause_props=None, generator=False, notes=(), stubs=None,
                 callee_contracts=None, bounded_ok=False, ghosts=None, replayer=None, consts=None, methods=None, scenarios=None, opaque=None, decl_disciplines=None, then=None, prefer_shadow=False, frame=True, max_paths=None, trusted=False, max_depth=None, then_requires=(), env=None, index_safety=False, resolve_method=None):
        self.file = file
        self.qual = qual
        self.name = name or f"{file}:{qual}"
        self.props = list(props)
        self.params = dict(params or {})
        self.free = dict(free or {})
        self.via = via
        self.requires = list(requires)
        self.post = dict(post or {})
        self.loops = dict(loops or {})
        self.cover = list(cover)
        self.native = native              # callable(module, label, **free consts) -> the real python callable (replay)
        self.clause_props = clause_props or {}   # clause name -> [props]; default: all props of the contract
        self.generator = generator
        self.notes = list(notes)
        self.stubs = stubs
        self.callee_contracts = callee_contracts or {}
        self.bounded_ok = bounded_ok
        self.frame = frame                # add the implicit `modifies nothing` clause (C20)
        self.trusted = trusted
        self.max_paths = max_paths
        self.max_depth = max_depth          # inlining depth of repo callees (default 12)
        self.ghosts = dict(ghosts or {})
        self.replayer = replayer
        self.consts = dict(consts or {})
        self.scenarios = scenarios
        self.prefer_shadow = prefer_shadow
        self.then = dict(then or {})         # call the returned closure with these further parameters
        self.then_requires = list(then_requires)   # preconditions over the parameters of the second stage
        self.resolve_method = resolve_method   # (getter(module) -> class, method name): the unit is the method the class resolves to
        self.index_safety = index_safety     # integer subscripts of symbolic tuples may be out of range (IndexError path)
        self.env = dict(env or {})           # process environment of the unit's run (e.g. TZ: the property quantifies over it)
        self.decl_disciplines = dict(decl_disciplines or {})
        self.opaque = dict(opaque or {})     # name -> (getter(module) -> callable, [exception classes])
        self.methods = dict(methods or {})   # method name -> discipline for calls on symbolic objects
        if (self.scenarios is None and via is None and native is None and replayer is None and "." not in qual and self.params
                and all(k == "D" or (isinstance(k, tuple) and k[0] in ("const", "constf")) for k in self.params.values())):
            self.scenarios = self._plain_scenarios
        if self.name in REGISTRY:
            raise ValueError(f"duplicate contract {self.name}")
        REGISTRY[self.name] = self
        for p in self.props:
            BY_PROP.setdefault(p, []).append(self)

    def _plain_scenarios(self, mod):
        """native scenarios of a module-level function whose parameters are data of D and/or constants: the real function on
        the representative of every cell (x the constants)"""
        import itertools

        from .universe import CELL_NAMES, N_CELLS, rep
        fn = getattr(mod, self.qual)
        axes = []
        for n, k in self.params.items():
            if k == "D":
                axes.append([(n, CELL_NAMES[i], (lambda i=i: rep(i))) for i in range(N_CELLS)])
            elif k[0] == "const":
                axes.append([(n, None, (lambda v=k[1]: v))])
            else:
                axes.append([(n, None, (lambda f=k[1]: f(mod)))])
        for combo in itertools.product(*axes):
            label = ",".join(f"{n}={cn}" for n, cn, _ in combo if cn is not None) or "constants"
            yield label, (lambda combo=combo: (fn, {n: mk() for n, _, mk in combo}, dict(self.consts)))

    def props_of(self, clause):
        base = clause.split("/")[0]
        return self.clause_props.get(base, self.props)


def contract(*a, **k):
    return Contract(*a, **k)
