#!/bin/bash
# usage: tools/sweep_seed.sh <seed-id> [property]   e.g. tools/sweep_seed.sh C05-2      (DESIGN.md 0.4)
# Applies seeded/<seed-id>/patch.diff to /repo's working tree, runs the property's quick check, prints a summary line and restores the
# tree.  Never commits anything.  /repo must be clean before.
id=$1; prop=${2:-${id%%-*}}; here=$(cd "$(dirname "$0")/.." && pwd)
[ -z "$(git -C /repo status --porcelain)" ] || { echo "$id: /repo is not clean"; exit 2; }
git -C /repo apply --check "$here/seeded/$id/patch.diff" 2>/dev/null || { echo "$id: STALE patch"; exit 0; }
git -C /repo apply "$here/seeded/$id/patch.diff"
out=$(cd "$here" && ./check "$prop" 2>&1); code=$?
git -C /repo checkout -- .
nv=$(echo "$out" | grep -c "^VIOLATION")
echo "$id under $prop: exit=$code violations=$nv | $(echo "$out" | grep "^VIOLATION" | head -1 | sed 's/.*replay=.*\/replays\///' | cut -c1-140)"
