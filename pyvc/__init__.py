"""PyVC: verification-condition generator for the real adaptix source (see DESIGN.md)."""
