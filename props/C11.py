"""C11 extras.

(1) Census of the memoisation sites (static, from the AST of /repo's working tree): every `mediator.cached_call(...)` site is
    enumerated and every argument expression is sorted into a class whose `==` is known to be fine enough as a cache key
    (bound method of a provider, callables, classes, flags) or is FLAGGED (raw literal values, normalised types, recursion stubs).
    An argument the table cannot sort makes the check undecided — a new memoisation point cannot appear unnoticed.  The transparency
    of the cache mechanism itself is the contract of BuiltinMediator.cached_call (contracts/caches.py).
(2) Histories (bounded stand-in, labelled bounded): sequences of facade calls over a pool of mutually confusable types on one retort,
    followed by a probe that is compared with the same probe on a freshly constructed equal retort; the same for replace()/extend().
    Flagged sites are the ones the pool is built to confuse.
(3) The converter histories of GENPROG-converters (obligations tagged C11)."""
import ast
import glob
import itertools
import os
import re
import time

LEVEL_TEXT = ("cache mechanism proved transparent per function (cached_call, facade caches, derived state re-created on clone); every "
              "cached_call site sorted by key sort from the AST; flagged sorts and replace/extend exercised by bounded histories")

SORTS = [
    ("provider-method", re.compile(r"^self\._(make|get|single)\w*$")),
    ("callable", re.compile(r"^(\w+=)?((tuple\()?(\w*_)?(loader|dumper|loaders|dumpers)\)?|not_none_(loader|dumper)|self\._BYTES_PROVIDER\.provide_loader\(mediator, request\)|"
                            r"(Ordered)?MappingHashWrapper\((enum_dumpers|fields_dumpers|field_loaders)\))$")),
    ("flag", re.compile(r"^(strict_coercion|debug_trail)=(strict_coercion|debug_trail|mediator\.mandatory_provide\((StrictCoercion|DebugTrail)Request\(loc_stack=request\.loc_stack\)\))$")),
    ("class", re.compile(r"^(enum=(enum|request\.last_loc\.type)|origin=norm\.origin|iter_factory=iter_factory)$")),
    ("structural-record", re.compile(r"^(shape=shape|name_layout=name_layout|model_identity=.*|closure_name=.*|file_name=.*|"
                                     r"code_gen_hook=AlwaysEqualHashWrapper\(.*\))$")),
    ("type-hint", re.compile(r"^request\.last_loc\.type$")),
    # flagged: `==` on these is coarser than behaviour unless the call site adds what is missing
    ("FLAG:normalised-type", re.compile(r"^(norm|norm\.source)$")),
    ("FLAG:raw-literal-values", re.compile(r"^(cases=norm\.args|bytes_cases=bytes_cases|allowed_values_repr=allowed_values_repr)$")),
    ("typed-literal-key", re.compile(r"^cases_types=.*$")),
]


def census():
    root = os.path.join(os.environ.get("VERIF_REPO", "/repo"), "src", "adaptix")
    rows, unknown = [], []
    for p in sorted(glob.glob(root + "/**/*.py", recursive=True)):
        src = open(p).read()
        if "cached_call" not in src:
            continue
        tree = ast.parse(src)
        for fn in ast.walk(tree):
            if not isinstance(fn, (ast.FunctionDef,)):
                continue
            for n in ast.walk(fn):
                if isinstance(n, ast.Call) and isinstance(n.func, ast.Attribute) and n.func.attr == "cached_call":
                    exprs = [ast.unparse(a) for a in n.args] + [f"{k.arg}={ast.unparse(k.value)}" for k in n.keywords]
                    sorts = []
                    for e in exprs:
                        s = next((name for name, rx in SORTS if rx.match(e)), None)
                        if s is None:
                            unknown.append((os.path.relpath(p, root), n.lineno, e))
                        sorts.append((e, s))
                    rows.append({"file": os.path.relpath(p, root), "line": n.lineno, "function": fn.name, "args": sorts})
    # a call is found once per enclosing def (nested defs would repeat it): de-duplicate by position
    seen, out = set(), []
    for r in rows:
        k = (r["file"], r["line"])
        if k not in seen:
            seen.add(k)
            out.append(r)
    return out, sorted(set(unknown))


# ------------------------------------------------------------------------------------------------ histories
def _behaviour(fn, samples):
    out = []
    for s in samples:
        try:
            r = fn(s())
            out.append(("ret", type(r).__name__, repr(r)[:80]))
        except Exception as e:  # noqa: BLE001
            out.append(("raise", type(e).__name__))
    return out


def pool():
    import enum
    from dataclasses import dataclass
    from typing import Annotated, List, Literal, NewType, Optional, Sequence, Union

    class Weird:           # no loader / dumper exists for it: requests mentioning it fail
        pass

    @dataclass
    class M1:
        a: int
        b: str = "x"

    @dataclass
    class M2:
        a: int
        b: str = "x"

    @dataclass
    class D0:
        f: int = 0

    @dataclass
    class DF:
        f: bool = False

    class Color(enum.Enum):
        R = 1

    # a diamond below two union cases: the union dumper picks a case by the class of the datum (nearest ancestor in the MRO);
    # what was dumped EARLIER through the same dumper must not influence that choice
    @dataclass
    class Base:
        id: int

    @dataclass
    class Named(Base):
        name: str = "n"

    @dataclass
    class Tagged(Base):
        tag: str = "t"

    @dataclass
    class NamedTagged(Named, Tagged):
        pass

    class Flag01(enum.IntEnum):
        Z = 0
        O = 1
    # mutually recursive models one of which cannot be served (the recursion stub of a failed request)
    g = {"Optional": Optional, "dataclass": dataclass, "Weird": Weird}
    exec("@dataclass\nclass RA:\n    b: 'RB'\n@dataclass\nclass RB:\n    a: Optional[RA] = None\n    bad: Optional[Weird] = None\n"  # noqa: S102
         "@dataclass\nclass Outer:\n    b: RB\n", g)
    g["RA"].__annotations__["b"] = g["RB"]
    N = NewType("N", int)
    # two DISTINCT classes that print alike (same name, module and field ids) but differ in a default
    import dataclasses
    RowV1 = dataclasses.make_dataclass("Row", [("a", int), ("b", int, dataclasses.field(default=1))])
    RowV2 = dataclasses.make_dataclass("Row", [("a", int), ("b", int, dataclasses.field(default=2))])
    types = {
        "RowV1": RowV1, "RowV2": RowV2,
        "Literal[0,1]": Literal[0, 1], "Literal[False,True]": Literal[False, True], "Literal[1,0]": Literal[1, 0],
        "Literal[0]": Literal[0], "Literal[False]": Literal[False], "Literal['a',1]": Literal["a", 1], "Literal['a',True]": Literal["a", True],
        "List[int]": List[int], "list[int]": list[int], "Sequence[int]": Sequence[int], "List[bool]": List[bool],
        "Union[int,str]": Union[int, str], "Union[str,int]": Union[str, int], "Optional[int]": Optional[int], "Optional[bool]": Optional[bool],
        "M1": M1, "M2": M2, "D0": D0, "DF": DF, "N": N, "int": int, "bool": bool, "Annotated[int,x]": Annotated[int, "x"],
        "Annotated[int,y]": Annotated[int, "y"], "Color": Color, "Flag01": Flag01, "Literal[Color.R,1]": Literal[Color.R, 1],
        "List[Literal[0,1]]": List[Literal[0, 1]], "List[Literal[False,True]]": List[Literal[False, True]],
        "Union[Base,Tagged]": Union[Base, Tagged], "Weird": Weird, "List[Weird]": List[Weird], "RA": g["RA"], "RB": g["RB"], "Outer": g["Outer"],
    }
    load_samples = [lambda: {"a": 0}, lambda: 0, lambda: 1, lambda: False, lambda: True, lambda: "a", lambda: [0, 1], lambda: [False, True], lambda: None,
                    lambda: {"a": 1}, lambda: {"a": True, "b": "y"}, lambda: {}, lambda: {"f": 1}, lambda: "R", lambda: [],
                    lambda: {"b": {"a": None}}, lambda: {"b": {"a": {"b": {}}}}, lambda: 1.0]
    dump_samples = [lambda: RowV1(0), lambda: RowV2(0), lambda: 0, lambda: True, lambda: [1, True], lambda: M1(1), lambda: M2(2, "q"), lambda: D0(), lambda: DF(), lambda: Color.R,
                    lambda: "a", lambda: None, lambda: Flag01.O, lambda: g["RB"](), lambda: g["Outer"](g["RB"]()),
                    lambda: Named(1), lambda: NamedTagged(1), lambda: Tagged(2), lambda: Base(3)]
    return types, load_samples, dump_samples


def extra_checks(tier, seed):
    from adaptix import DebugTrail, Retort
    t0 = time.time()
    viol, undecided = [], []
    sites, unknown = census()
    for f, ln, e in unknown:
        undecided.append((f"{f}:{ln}", f"cached_call argument `{e}` is of no known key sort: a new memoisation point needs a transparency "
                                      f"argument (props/C11.py SORTS)"))
    flagged = [(s["file"], s["line"], e, srt) for s in sites for e, srt in s["args"] if srt and srt.startswith("FLAG")]
    types, load_samples, dump_samples = pool()
    names = list(types)
    thorough = tier == "thorough"
    n_hist = 0

    def probe(retort, kind, tname):
        try:
            fn = retort.get_loader(types[tname]) if kind == "load" else retort.get_dumper(types[tname])
        except Exception as e:  # noqa: BLE001
            return ("creation-raise", type(e).__name__)
        return _behaviour(fn, load_samples if kind == "load" else dump_samples)
    fresh_cache = {}

    def fresh(kind, tname, mk_key, mk):
        k = (kind, tname, mk_key)
        if k not in fresh_cache:
            fresh_cache[k] = probe(mk(), kind, tname)
        return fresh_cache[k]

    def report(clause, history, kind, tname, got, want):
        if len(viol) > 30:
            return
        diff = next(((i, a, b) for i, (a, b) in enumerate(zip(got, want)) if a != b), None) if isinstance(got, list) and isinstance(want, list) \
            else (None, got, want)
        viol.append({"unit": "facade history", "clause": clause, "witness": f"{' ; '.join(history)} ; probe {kind} {tname}"[:200],
                     "w": {"input": f"history: {history}; probe: {kind} {tname}"[:300],
                           "native_outcome": f"warmed retort behaves differently from a fresh one: sample #{diff[0]}: {diff[1]!r} vs fresh {diff[2]!r}"[:400]}})

    def mk_default():
        return Retort()
    # (a) one or two earlier requests, then a probe
    warm_names = names if thorough else [n for n in names if n not in ("Literal[1,0]", "Literal['a',True]", "Annotated[int,y]", "N", "Optional[bool]")]
    for kind in ("load", "dump"):
        for w, p in itertools.product(warm_names, names):
            if w == p:
                continue
            r = Retort()
            probe(r, kind, w)
            got = probe(r, kind, p)
            n_hist += 1
            want = fresh(kind, p, "default", mk_default)
            if got != want:
                report("history-independent", [f"{kind} {w}"], kind, p, got, want)
    # (a') ONE obtained loader / dumper applied to the whole sample sequence (in both orders) behaves on each sample as a freshly
    # obtained one applied to that sample alone: "every loader already obtained from it" keeps no memory of earlier data
    for kind in ("load", "dump"):
        samples = load_samples if kind == "load" else dump_samples
        for tname in names:
            try:
                r = Retort()
                fn = r.get_loader(types[tname]) if kind == "load" else r.get_dumper(types[tname])
            except Exception:  # noqa: BLE001
                continue
            forward = _behaviour(fn, samples)
            backward = _behaviour(fn, samples[::-1])[::-1]
            n_hist += 1
            alone = []
            for smp in samples:
                r1 = Retort()
                f1 = r1.get_loader(types[tname]) if kind == "load" else r1.get_dumper(types[tname])
                alone.extend(_behaviour(f1, [smp]))
            for label, got in (("in order", forward), ("in reverse order", backward)):
                if got != alone:
                    report("call-history-independent", [f"one {kind}er of {tname} applied to all samples {label}"], kind, tname, got, alone)
    # the other direction of the facade (a dumper request warms what a loader request uses and vice versa)
    for w, p in itertools.product(warm_names, names):
        r = Retort()
        probe(r, "dump", w)
        got = probe(r, "load", p)
        n_hist += 1
        if got != fresh("load", p, "default", mk_default):
            report("history-independent", [f"dump {w}"], "load", p, got, fresh("load", p, "default", mk_default))
    if thorough:
        for kind in ("load",):
            for w1, w2, p in itertools.product(warm_names[:14], warm_names[:14], names[:20]):
                r = Retort()
                probe(r, kind, w1)
                probe(r, kind, w2)
                got = probe(r, kind, p)
                n_hist += 1
                if got != fresh(kind, p, "default", mk_default):
                    report("history-independent", [f"{kind} {w1}", f"{kind} {w2}"], kind, p, got, fresh(kind, p, "default", mk_default))
    # (b) replace / extend: the clone behaves like a fresh retort built that way, the original like a fresh original — whatever
    # was requested from either before or after
    variants = {
        "strict_coercion=False": (lambda r: r.replace(strict_coercion=False), lambda: Retort(strict_coercion=False)),
        "debug_trail=DISABLE": (lambda r: r.replace(debug_trail=DebugTrail.DISABLE), lambda: Retort(debug_trail=DebugTrail.DISABLE)),
        "strict=False,trail=FIRST": (lambda r: r.replace(strict_coercion=False, debug_trail=DebugTrail.FIRST),
                                     lambda: Retort(strict_coercion=False, debug_trail=DebugTrail.FIRST)),
        "hide_traceback=False": (lambda r: r.replace(hide_traceback=False), lambda: Retort(hide_traceback=False)),
        "extend()": (lambda r: r.extend(recipe=[]), lambda: Retort()),
    }
    probe_types = ["int", "bool", "List[int]", "M1", "Optional[int]", "Literal[0,1]", "D0"]
    for vname, (derive, mk) in variants.items():
        for p in probe_types:
            for order in ("orig-first", "clone-first", "derive-first"):
                orig = Retort()
                if order == "derive-first":
                    clone = derive(orig)
                    first = [("clone", clone), ("orig", orig)]
                else:
                    probe(orig, "load", p)
                    clone = derive(orig)
                    first = [("orig", orig), ("clone", clone)] if order == "orig-first" else [("clone", clone), ("orig", orig)]
                for who, r in first:
                    got = probe(r, "load", p)
                    n_hist += 1
                    want = fresh("load", p, "default" if who == "orig" else vname, mk_default if who == "orig" else mk)
                    if got != want:
                        report("clone-independent", [f"load {p} on the original", f"{vname} ({order})", f"probe on the {who}"], "load", p, got, want)
    # (b') a failed request for a recursive model must not poison later requests of the same retort
    from adaptix import P, loader
    Outer, RA, RB = types["Outer"], types["RA"], types["RB"]

    def mk_rec():
        return Retort(recipe=[loader(P[Outer].b.bad, lambda x: x)])
    for warm in (["RA"], ["RB"], ["RA", "RB"], ["List[Weird]", "RA"]):
        r = mk_rec()
        for w in warm:
            probe(r, "load", w)
        got = probe(r, "load", "Outer")
        n_hist += 1
        want = fresh("load", "Outer", "rec", mk_rec)
        if got != want:
            report("history-independent", [f"load {w} (fails)" for w in warm] + ["retort: loader(P[Outer].b.bad, ...)"], "load", "Outer", got, want)
    # (c) a loader obtained before replace() keeps its behaviour
    r = Retort()
    before = r.get_loader(types["List[int]"])
    b0 = _behaviour(before, load_samples)
    r.replace(strict_coercion=False).get_loader(types["List[int]"])
    r.extend(recipe=[]).get_loader(types["List[int]"])
    if _behaviour(before, load_samples) != b0:
        report("loader-stable", ["get_loader(List[int])", "replace/extend and use of the clones"], "load", "List[int]", _behaviour(before, load_samples), b0)
    out = [{
        "obligations": 0, "discharged": 0, "violations": viol, "undecided": undecided,
        "bounded": [{"unit": "facade call histories (get_loader/get_dumper/replace/extend)",
                     "bound": f"{n_hist} histories over a pool of {len(names)} confusable types x {len(load_samples)}+{len(dump_samples)} samples; "
                              f"histories of length <= {3 if thorough else 2}"}],
        "samples": [{"cached_call_sites": len(sites), "flagged_arguments": [f"{f}:{ln} {e} [{s}]" for f, ln, e, s in flagged],
                     "histories": n_hist, "failed": len(viol), "seconds": round(time.time() - t0, 1)}],
        "assumptions": ["key sorts of cached_call sites are assigned by the table in props/C11.py (regular expressions over the argument "
                        "expressions); `==` of provider methods, callables, classes and flags is taken as discriminating"],
        "solver_time": 0.0,
    }]
    from genprog.check import extra_for_property
    out.append(extra_for_property("C11", tier, seed, group="conv"))
    return out
