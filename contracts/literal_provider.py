"""Contracts for LiteralProvider._make_loader (morphing/generic_provider.py).

Documented rule: "Loader accepts only values listed in Literal.  If strict_coercion is enabled, the loader will
distinguish equal bool and int instances, otherwise they will be considered as same values.  Enum instances will be
loaded via its loaders, bytes instances via its loaders as well; enum loaders are applied first."

The unit is the loader that the real `_make_loader` returns, executed symbolically for a family of *concrete* case
tuples (bounded over Literal configurations — printed in the evidence — and unbounded over the data universe D and over
the behaviour of enum / bytes sub-loaders under LD).
"""
import enum

from pyvc.contracts import Via, contract

F = "morphing/generic_provider.py"


class Color(enum.Enum):
    RED = "red"
    BLUE = "blue"


class Num(enum.Enum):
    ONE = 1


# (label, cases, strict, number of enum loaders)
FAMILY = [
    ("str2", ("A", "zz"), True, 0),
    ("str2-lax", ("A", "zz"), False, 0),
    ("int01-strict", (0, 1), True, 0),
    ("int01-lax", (0, 1), False, 0),
    ("bool-strict", (True, False), True, 0),
    ("mixed-strict", (1, "zz", None), True, 0),
    ("mixed7-strict", (7, "zz", None), True, 0),          # no bool / 0 / 1 case: plain membership even when strict
    ("five-strict", (7, 2, 3, 4, 5), True, 0),           # > tuple_size_limit: a set
    ("five01-strict", (0, 1, 2, 3, 4), True, 0),         # a set of (type, value) pairs
    ("five-lax", ("A", "zz", "c", "d", "e"), False, 0),
    ("pairs7-strict", ("A", "zz", "12", 0, False, 1, True), True, 0),   # both members of each look-alike pair, > limit
    ("pairs4-strict", (0, False, 1, True), True, 0),                      # the same at the tuple size
    ("pairs7-lax", ("A", "zz", "12", 0, False, 1, True), False, 0),
    ("none", (None,), True, 0),
    ("bytes", (b"ab", "zz"), True, 0),
    ("bytes01", (b"ab", 1), True, 0),
    ("enum1", (Color.RED, "zz"), True, 1),
    ("enum2", (Color.RED, Num.ONE, "zz"), True, 2),
    ("enum-bytes", (Color.RED, b"ab", "zz"), True, 1),
    ("enum01", (Color.RED, 1), True, 1),
]


TYPED = "py(lambda d: any(type(d) is type(c) and ctor_ok(lambda: d == c) and d == c for c in basic_cases), data)"


def loose(strict):
    """upper bound of what may be accepted: equal to a case; strict additionally never confuses bool with int
    (the documented distinction).  Look-alikes the documentation is silent about (1.0 for Literal[1]) lie between the
    two bounds, so neither accepting nor rejecting them is reported."""
    if strict:
        return ("py(lambda d: any(ctor_ok(lambda: d == c) and d == c and not (isinstance(d, int) and isinstance(c, int) and "
                "isinstance(d, bool) != isinstance(c, bool)) for c in allowed), data)")
    return "py(lambda d: any(ctor_ok(lambda: d == c) and d == c for c in allowed), data)"


for label, cases, strict, n_enum in FAMILY:
    bytes_cases = tuple(c for c in cases if isinstance(c, bytes))
    basic = tuple(c for c in cases if not isinstance(c, (enum.Enum, bytes)))
    enum_terms = " or ".join(f"(ok(enum_loaders[{i}], data) and contains(allowed, res(enum_loaders[{i}], data)))"
                             for i in range(n_enum)) or "False"
    bytes_term = "(ok(bytes_loader, data) and contains(allowed, res(bytes_loader, data)))" if bytes_cases else "False"
    post = {
        "raises-closed": "implies(raised, isinstance(exc, LoadError))",
        "accept-lower": f"implies({enum_terms} or {bytes_term} or {TYPED}, returned)",
        "accept-upper": f"implies(returned, {enum_terms} or {bytes_term} or {loose(strict)})",
        "culprit": "implies(raised and isinstance(exc, LoadError), type(exc) is BadVariantLoadError and exc.input_value is data)",
    }
    if not n_enum and not bytes_cases:
        post["value"] = "implies(returned, result is data)"
    contract(F, "LiteralProvider._make_loader", name=f"{F}:LiteralProvider._make_loader[{label}]",
             props=["C02", "C04", "C05", "C07", "C20", "C01"],
             via=Via("LiteralProvider._make_loader", {label: lambda m: m.LiteralProvider()},
                     kwargs={"cases": ("const", cases), "strict_coercion": ("const", strict),
                             "enum_loaders": ("tuple", ["LD"] * n_enum),
                             "allowed_values_repr": ("const", frozenset(map(repr, cases))),
                             "bytes_cases": ("const", bytes_cases), "bytes_loader": "LD"},
                     any_closure=True),
             ghosts={}, params={"data": "D"}, post=post,
             clause_props={"raises-closed": ["C04"], "accept-lower": ["C02", "C01"], "accept-upper": ["C02", "C07"], "culprit": ["C05"],
                           "value": ["C02", "C01"], "modifies-nothing": ["C20"]},
             requires=[], cover=["returned", "raised"],
             notes=[f"Literal configuration: cases={cases!r} strict={strict} enum_loaders={n_enum}"],
             consts={"basic_cases": basic, "allowed": cases})


# ================================================================================================ Literal DUMPERS
# Documented: "Enum instances will be dumped via its dumpers, bytes instances via its dumpers as well" — everything else is a plain
# literal value and passes as is.  The closures are reached through the real factory methods; the enum / bytes dumpers are arbitrary
# callables (DUMP discipline), the datum ranges over D (the IntEnum cell, both bytes cells and everything else).
from pyvc.universe import rep_class, CELL_INDEX  # noqa: E402

_IntE = rep_class(CELL_INDEX["intenum"])
IS_ENUM = "py(lambda d: isinstance(d, Enum), data)"
IS_BYTES = "py(lambda d: isinstance(d, bytes), data)"
LD_CP = {"as-is": ["C02", "C01"], "enum-by-enum-dumper": ["C02", "C01"], "bytes-by-bytes-dumper": ["C02", "C01"],
         "error-is-the-dumpers": ["C02"], "modifies-nothing": ["C20"]}

contract(F, "LiteralProvider._get_bytes_literal_dumper.<locals>.literal_dumper_with_bytes", props=["C02", "C01", "C20"],
         via=Via("LiteralProvider._get_bytes_literal_dumper", {"": lambda m: m.LiteralProvider()}, args={"bytes_dumper": "DUMP"}),
         params={"data": "D"},
         post={"as-is": f"implies(not {IS_BYTES}, returned and result is data)",
               "bytes-by-bytes-dumper": f"implies({IS_BYTES}, returned == ok(bytes_dumper, data) and implies(returned, result == res(bytes_dumper, data)))",
               "error-is-the-dumpers": "implies(raised, is_err(exc, bytes_dumper, data))"},
         clause_props=LD_CP, cover=["returned", "raised"])

# one enum class: its dumper for every Enum instance
contract(F, "LiteralProvider._get_enum_dumper.<locals>.literal_dumper_with_single_enum", props=["C02", "C01", "C20"],
         via=Via("LiteralProvider._get_enum_dumper", {"": lambda m: m.LiteralProvider()},
                 args={"enum_dumpers": ("const", {_IntE: (lambda d: ("dumped-enum", d))})}),
         params={"data": "D"}, consts={"STUB": (lambda d: ("dumped-enum", d))},
         post={"as-is": f"implies(not {IS_ENUM}, returned and result is data)",
               "enum-by-enum-dumper": f"implies({IS_ENUM}, returned and py(lambda d, r: r == STUB(d), data, result))"},
         clause_props=LD_CP, cover=["returned"])


class _OtherE(enum.Enum):
    Z = "z"


# several enum classes: the dumper registered for the class of the datum
contract(F, "LiteralProvider._get_enum_dumper.<locals>.literal_dumper_with_enums", props=["C02", "C01", "C20"],
         via=Via("LiteralProvider._get_enum_dumper", {"": lambda m: m.LiteralProvider()},
                 args={"enum_dumpers": ("const", {_OtherE: (lambda d: ("wrong-class", d)), _IntE: (lambda d: ("dumped-enum", d))})}),
         params={"data": "D"}, consts={"STUB": (lambda d: ("dumped-enum", d))},
         post={"as-is": f"implies(not {IS_ENUM}, returned and result is data)",
               "enum-by-enum-dumper": f"implies({IS_ENUM}, returned and py(lambda d, r: r == STUB(d), data, result))"},
         clause_props=LD_CP, cover=["returned"])
