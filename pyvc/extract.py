"""Extraction of the verified text from /repo's *current working tree* on every run (DESIGN.md §2.1)."""
from __future__ import annotations

import ast
import hashlib
import importlib
import os
import sys

REPO = os.environ.get("VERIF_REPO", "/repo")
SRC_ROOT = os.path.join(REPO, "src", "adaptix", "_internal")

_tree_cache = {}


def ensure_repo_on_path():
    p = os.path.join(REPO, "src")
    if p not in sys.path:
        sys.path.insert(0, p)


def module_ast(relpath):
    """relpath relative to src/adaptix/_internal, e.g. 'morphing/concrete_provider.py'"""
    e = _tree_cache.get(relpath)
    if e is None:
        path = os.path.join(SRC_ROOT, relpath)
        with open(path, encoding="utf-8") as f:
            src = f.read()
        tree = ast.parse(src, filename=path)
        e = _tree_cache[relpath] = (tree, src, path)
    return e


def import_module(relpath):
    ensure_repo_on_path()
    name = "adaptix._internal." + relpath[:-3].replace("/", ".")
    return importlib.import_module(name)


def find(tree, qualname):
    """Locate a def by qualified name: 'f', 'Cls.method', 'Cls.method.<locals>.closure', ... (first match in order)."""
    parts = [p for p in qualname.split(".") if p != "<locals>"]
    cur = tree
    for p in parts:
        nxt = None
        todo = list(ast.iter_child_nodes(cur))
        # breadth-first inside the current scope, not crossing other def/class boundaries except at the top
        while todo:
            n = todo.pop(0)
            if isinstance(n, (ast.FunctionDef, ast.ClassDef, ast.AsyncFunctionDef)):
                if n.name == p:
                    nxt = n
                    break
                continue
            todo.extend(ast.iter_child_nodes(n))
        if nxt is None:
            raise LookupError(f"{qualname}: component {p!r} not found")
        cur = nxt
    return cur


def segment(relpath, node):
    _, src, _ = module_ast(relpath)
    seg = ast.get_source_segment(src, node) or ""
    return seg, hashlib.sha256(seg.encode()).hexdigest()[:16], node.lineno, getattr(node, "end_lineno", node.lineno)


def loop_ordinals(fn_node):
    """id(loop node) -> ordinal, counting For/While of the function in source order, nested defs excluded."""
    out = {}
    loops = []

    def visit(n):
        for ch in ast.iter_child_nodes(n):
            if isinstance(ch, (ast.FunctionDef, ast.Lambda, ast.AsyncFunctionDef, ast.ClassDef)):
                continue
            if isinstance(ch, (ast.For, ast.While)):
                loops.append(ch)
            visit(ch)
    visit(fn_node)
    loops.sort(key=lambda x: (x.lineno, x.col_offset))
    for k, l in enumerate(loops):
        out[id(l)] = k
    return out


def dropped_decorators(node):
    out = []
    for d in getattr(node, "decorator_list", []):
        try:
            out.append(ast.unparse(d))
        except Exception:  # noqa: BLE001
            out.append("?")
    return out


def module_loop_ordinals(tree, target_node):
    """id(loop) -> key for every function of the module: the target's own loops are keyed by their ordinal `k`,
    loops of any other function by `(function name, k)`."""
    out = {}
    for fn in ast.walk(tree):
        if isinstance(fn, (ast.FunctionDef, ast.AsyncFunctionDef)):
            for lid, k in loop_ordinals(fn).items():
                out[lid] = k if fn is target_node else (fn.name, k)
    return out
