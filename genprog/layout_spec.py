"""Independent statement of the documented name-layout rules (docs/loading-and-dumping/extended-usage.rst, the
docstring of `name_mapping`, and the text of property C03) — written WITHOUT looking at
morphing/name_layout/component.py or crown_builder.py.  DESIGN.md Appendix D.1.

key(f)  = index of f                                  if as_list
        = the entry of `map` for f                    (dict by field id; `...` -> generated key; None -> skipped)   [map wins]
        = style(trim(f.id))                           trim: one trailing "_" is stripped iff enabled and the id ends
                                                      with exactly one; style: name_style conversion of snake_case ids
present(f) = not skip(f) and only(f)                  [skip > only]
dumping: a field whose id starts with "_" and that has no explicit map entry is skipped (extended-usage.rst, private fields)
"""
from __future__ import annotations

import re
from dataclasses import dataclass, field
from typing import Any, Optional


@dataclass
class FieldSpec:
    name: str
    required: bool = True
    default: Optional[tuple] = None      # ("value", obj) | ("factory", callable)
    kind: str = "pos_or_kw"             # pos_only | pos_or_kw | kw_only
    param: Optional[str] = None          # constructor parameter name when it differs from the field id (attrs alias)


@dataclass
class Layout:
    paths: dict                          # field name -> tuple path | None (skipped)
    extra_in: str = "skip"               # skip | forbid | kwargs
    crown: Any = None


def convert_style(name: str, style: str) -> str:
    parts = [p for p in name.split("_") if p != ""]
    lead = len(name) - len(name.lstrip("_"))
    trail = len(name) - len(name.rstrip("_")) if name.strip("_") else 0
    if style == "lower_snake":
        body = "_".join(p.lower() for p in parts)
    elif style == "UPPER_SNAKE":
        body = "_".join(p.upper() for p in parts)
    elif style == "camelCase":
        body = parts[0].lower() + "".join(p.title() for p in parts[1:]) if parts else ""
    elif style == "PascalCase":
        body = "".join(p.title() for p in parts)
    elif style == "lower-kebab":
        body = "-".join(p.lower() for p in parts)
    elif style == "lower":
        body = "".join(p.lower() for p in parts)
    elif style == "UPPER":
        body = "".join(p.upper() for p in parts)
    else:
        raise ValueError(style)
    return "_" * lead + body + "_" * trail


def generated_key(f: FieldSpec, *, trim=True, style=None):
    name = f.name
    if trim and name.endswith("_") and not name.endswith("__"):
        name = name[:-1]
    if style is not None:
        name = convert_style(name, style)
    return name


def layout(fields, *, map=None, as_list=False, trim=True, style=None, skip=(), only=None, extra_in="skip",  # noqa: A002
           map_func=None, dumping=False):
    if map_func is not None:
        # documented: a map element may be a function; `...` in its result stands for the key that would be generated
        map = dict(map or {})  # noqa: A001
        for k, v in map_func.items():
            if any(f.name == k for f in fields):
                map[k] = v
    paths = {}
    for idx, f in enumerate(fields):
        if f.name in skip:
            paths[f.name] = None
            continue
        if only is not None and f.name not in only:
            paths[f.name] = None
            continue
        if map is not None and f.name in map:
            m = map[f.name]
            if m is None:
                paths[f.name] = None
                continue
            if m is Ellipsis:
                paths[f.name] = (generated_key(f, trim=trim, style=style),)
            elif isinstance(m, tuple):
                paths[f.name] = tuple(generated_key(f, trim=trim, style=style) if p is Ellipsis else p for p in m)
            else:
                paths[f.name] = (m,)
            continue
        if as_list:
            paths[f.name] = (idx,)
            continue
        if dumping and f.name.startswith("_"):
            # documented ("Private fields dumping"): by default fields starting with an underscore are skipped at dumping
            paths[f.name] = None
            continue
        paths[f.name] = (generated_key(f, trim=trim, style=style),)
    return Layout(paths=paths, extra_in=extra_in, crown=build_crown(paths))


@dataclass
class DictNode:
    children: dict = field(default_factory=dict)


@dataclass
class ListNode:
    children: dict = field(default_factory=dict)     # index -> node (gaps = missing indexes)

    @property
    def size(self):
        return max(self.children) + 1 if self.children else 0


@dataclass
class Leaf:
    field: str


def build_crown(paths):
    root = None
    for fname, path in paths.items():
        if path is None:
            continue
        if root is None:
            root = DictNode() if isinstance(path[0], str) else ListNode()
        node = root
        for i, key in enumerate(path):
            want = DictNode if isinstance(key, str) else ListNode
            if not isinstance(node, want):
                raise ValueError("inconsistent layout: str and int keys at one node")
            last = i == len(path) - 1
            if last:
                if key in node.children:
                    raise ValueError("two fields share a path")
                node.children[key] = Leaf(fname)
            else:
                nxt = node.children.get(key)
                if nxt is None:
                    nxt = node.children[key] = DictNode() if isinstance(path[i + 1], str) else ListNode()
                if isinstance(nxt, Leaf):
                    raise ValueError("one path is a prefix of another")
                node = nxt
    return root if root is not None else DictNode()
