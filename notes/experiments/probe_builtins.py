import math, re, binascii, collections
from decimal import Decimal
from fractions import Fraction
from datetime import date, time, datetime, timedelta
from uuid import UUID
from ipaddress import IPv4Address
from pathlib import Path
from binascii import a2b_base64
W = collections.OrderedDict([
 ('None', None), ('True', True), ('int', 7), ('int-', -7), ('int-huge', 10**400), ('float', 1.5), ('float-', -1.5), ('nan', float('nan')), ('inf', float('inf')),
 ('str-num', '12'), ('str-frac', '1/2'), ('str-1/0', '1/0'), ('str-junk', 'zz'), ('str-empty', ''), ('str-nonascii', 'é'), ('str-iso', '2020-01-02'),
 ('bytes', b'ab'), ('bytearray', bytearray(b'ab')), ('Decimal', Decimal('1.5')), ('Decimal-nan', Decimal('NaN')), ('Decimal-inf', Decimal('Infinity')), ('Fraction', Fraction(1,2)), ('complex', 1+2j),
 ('list', [1]), ('list-unhashable-el', [[1]]), ('tuple', (1,)), ('dict', {'a': 1}), ('dict-intkey', {0: 1}), ('set', {1}), ('frozenset', frozenset({1})), ('iterator', None), ('object', object()),
])
def fresh(k):
    return iter([1]) if k == 'iterator' else W[k]
F = collections.OrderedDict([
 ('int(x)', int), ('float(x)', float), ('str(x)', str), ('bool(x)', bool), ('complex(x)', complex), ('Decimal(x)', Decimal), ('Fraction(x)', Fraction),
 ('len(x)', len), ('iter(x)', iter), ('tuple(x)', tuple), ('set(x)', set), ('x in {1,2,3,4,5}', lambda x: x in {1,2,3,4,5}), ('x in (1,2)', lambda x: x in (1,2)),
 ('x["k"]', lambda x: x["k"]), ('x[0]', lambda x: x[0]), ('x.get', lambda x: x.get), ('x.items', lambda x: x.items), ('x.encode("ascii")', lambda x: x.encode('ascii')),
 ('x % 1', lambda x: x % 1), ('timedelta(seconds=int(x))', lambda x: timedelta(seconds=int(x))), ('date.fromisoformat(x)', date.fromisoformat), ('datetime.fromtimestamp(x)', datetime.fromtimestamp),
 ('re.compile(x)', re.compile), ('UUID(x)', UUID), ('IPv4Address(x)', IPv4Address), ('Path(x)', Path), ('math.log2(x)', math.log2), ('hash(x)', hash), ('{}[x]', lambda x: {}[x]),
])
rows = []
for fname, f in F.items():
    cells = []
    for k in W:
        try: f(fresh(k)); cells.append('ok')
        except BaseException as e: cells.append(type(e).__name__)
    rows.append((fname, cells))
# print grouped compactly: for each function, map outcome -> witnesses
for fname, cells in rows:
    g = collections.OrderedDict()
    for k, c in zip(W, cells): g.setdefault(c, []).append(k)
    print(f"{fname}: " + "; ".join(f"{c} <- {','.join(ks)}" for c, ks in g.items()))
