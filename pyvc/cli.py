"""./check <PROP> [--tier quick|thorough] | ./check replay <file> | ./check list"""
from __future__ import annotations

import argparse
import importlib
import json
import os
import sys


def main(argv=None):
    ap = argparse.ArgumentParser()
    ap.add_argument("what")
    ap.add_argument("arg", nargs="?")
    ap.add_argument("--tier", default=os.environ.get("VERIF_TIER", "quick"))
    ap.add_argument("--only", default=None)
    a = ap.parse_args(argv)
    seed = int(os.environ.get("VERIF_SEED", "0") or 0)
    if a.what == "replay":
        from . import replay_cmd
        return replay_cmd.main(a.arg)
    if a.what == "list":
        from .runner import load_contracts
        reg, by = load_contracts()
        for p in sorted(by):
            print(p, len(by[p]))
        return 0
    prop = a.what
    try:
        pm = importlib.import_module(f"props.{prop}")
    except ModuleNotFoundError:
        pm = None
    from .runner import run_property
    extra = getattr(pm, "extra_checks", None) if pm else None
    text = getattr(pm, "LEVEL_TEXT", None) if pm else None
    return run_property(prop, a.tier, seed, extra_checks=extra, level_text=text, only=a.only)


if __name__ == "__main__":
    try:
        sys.exit(main())
    except SystemExit:
        raise
    except BaseException:  # noqa: BLE001
        import traceback
        traceback.print_exc()
        sys.exit(3)
