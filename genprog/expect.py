"""Contract of a generated loader, instantiated from the layout specification (DESIGN.md Appendix D.2, A.14).

Where neither the documentation nor the property fixes the behaviour the contract is deliberately two-sided:
  accept-lower  every container node of the layout present with the right kind, every required field present, every
                present field accepted by its loader, no forbidden extras  ==>  the loader returns
  accept-upper  the loader returns  ==>  no *definite* error (root of the wrong kind, required field unreachable, present
                field rejected, forbidden extras at a reached node, list too short / too long when forbidden)
so a change inside the gap (e.g. an absent intermediate node whose fields are all optional) is never reported.
"""
from __future__ import annotations

import z3

from pyvc import theory as T
from pyvc.values import HDict, HList, V

from .layout_spec import DictNode, Leaf, ListNode
from .symdata import SNode


_CONSTANT_FACTORIES = (int, float, complex, bool, str, bytes, tuple, frozenset)


class Expect:
    def __init__(self, run, layout, fields, strict, mode):
        self.run = run
        self.interp = run.interp
        self.layout = layout
        self.fields = {f.name: f for f in fields}
        self.order = [f.name for f in fields]
        self.strict = strict
        self.mode = mode
        self.st = run.st0            # facts about freshly created nodes go to the shared entry state
        self.leaf_info = {}          # field -> (present Bool, value SNode, path)
        self.nodes = []              # (crown node, SNode, reached Bool, path)
        self._walk(layout.crown, run.root, z3.BoolVal(True), ())

    # structural walk -------------------------------------------------------------------------------------------
    def kind_ok(self, cnode, sn: SNode):
        if isinstance(cnode, DictNode):
            return sn.ismap
        # strict: a sequence that is not a str; lax: a str is an (iterable) sequence of characters too
        return sn.islist if self.strict else z3.Or(sn.islist, sn.isstr)

    def _walk(self, cnode, sn: SNode, reached, path):
        if isinstance(cnode, Leaf):
            self.leaf_info[cnode.field] = (reached, sn, path)
            return
        self.nodes.append((cnode, sn, reached, path))
        ok = z3.And(reached, self.kind_ok(cnode, sn))
        for key, child in cnode.children.items():
            if isinstance(cnode, DictNode):
                has, csn = sn.entry(self.interp, self.st, key)
                self._walk(child, csn, z3.And(ok, has), path + (key,))
            else:
                csn = sn.item(self.interp, self.st, key)
                self._walk(child, csn, z3.And(ok, sn.len > key), path + (key,))

    def extras_present(self, cnode: DictNode, sn: SNode):
        conds = [sn.nex > 0]
        for k, (has, _) in sn.entries.items():
            if k not in cnode.children:
                conds.append(has)
        return z3.Or(*conds)

    def non_keyword_extra(self, sn: SNode):
        """some unknown key of the root mapping is not a string: it cannot be delivered as **kwargs"""
        j = z3.Int("nk!")
        return z3.Exists([j], z3.And(j >= 0, j < sn.nex, T.F_cls(T.F_keyat(sn.exkeys, j)) != self.interp.reg.cls(str)))

    def loader_ok(self, fname):
        present, sn, _ = self.leaf_info[fname]
        return T.F_ok(self.run.loaders[fname].t, sn.t)

    # the two bounds --------------------------------------------------------------------------------------------
    def definite_errors(self):
        errs = []
        root_c, root_s = self.layout.crown, self.run.root
        errs.append(("root-kind", z3.Not(self.kind_ok(root_c, root_s))))
        for fname, (present, sn, path) in self.leaf_info.items():
            if self.fields[fname].required:
                errs.append((f"required-missing:{fname}", z3.Not(present)))
            errs.append((f"field-rejected:{fname}", z3.And(present, z3.Not(self.loader_ok(fname)))))
        for cnode, sn, reached, path in self.nodes:
            ok = z3.And(reached, self.kind_ok(cnode, sn))
            if isinstance(cnode, DictNode) and self.layout.extra_in == "forbid":
                errs.append((f"extra-fields@{path}", z3.And(ok, self.extras_present(cnode, sn))))
            if isinstance(cnode, DictNode) and self.layout.extra_in == "kwargs" and path == ():
                errs.append(("extra-key-not-a-keyword", z3.And(ok, self.non_keyword_extra(sn))))
            if isinstance(cnode, ListNode):
                errs.append((f"short-list@{path}", z3.And(ok, sn.len < cnode.size)))
                if self.layout.extra_in == "forbid":
                    errs.append((f"long-list@{path}", z3.And(ok, sn.len > cnode.size)))
        return errs

    def all_fine(self):
        conj = []
        for cnode, sn, reached, path in self.nodes:
            conj.append(z3.And(reached, self.kind_ok(cnode, sn)))
            if isinstance(cnode, ListNode):
                conj.append(sn.len >= cnode.size)
                if self.layout.extra_in == "forbid":
                    conj.append(sn.len == cnode.size)
            if isinstance(cnode, DictNode) and self.layout.extra_in == "forbid":
                conj.append(z3.Not(self.extras_present(cnode, sn)))
            if isinstance(cnode, DictNode) and self.layout.extra_in == "kwargs" and path == ():
                conj.append(z3.Not(self.non_keyword_extra(sn)))
        for fname, (present, sn, path) in self.leaf_info.items():
            if self.fields[fname].required:
                conj.append(present)
            conj.append(z3.Implies(present, self.loader_ok(fname)))
        return z3.And(*conj)

    # obligations per path ---------------------------------------------------------------------------------------
    def clauses(self, s, r):
        """[(clause name, props, z3 goal, note)] for one path"""
        from adaptix._internal.morphing.load_error import LoadError
        out = []
        returned = r[0] == "ok"
        if returned:
            defs = self.definite_errors()
            out.append(("accept-upper", ["C03", "C02"], z3.Not(z3.Or(*[c for _, c in defs])),
                        "returned although a definite error is present"))
            out.extend(self.binding_clauses(s, r))
        else:
            out.append(("accept-lower", ["C03", "C02", "C01"], z3.Not(self.all_fine()), "raised although the input is fine"))
            e = r[1]
            if e.ty is not None:
                out.append(("raises-closed", ["C04"], z3.BoolVal(issubclass(e.ty, LoadError)),
                            f"escaping {e.ty.__name__}"))
            else:
                out.append(("raises-closed", ["C04"], T.F_sub(T.F_cls(self.interp.term(s, e)), self.interp.reg.cls(LoadError)),
                            "escaping exception of unknown class"))
            out.extend(self.trail_clauses(s, e))
        out.append(("modifies-nothing", ["C20"], z3.BoolVal(not s.mods), "; ".join(map(str, s.mods))))
        return out

    # C08 / C03: the constructor call ---------------------------------------------------------------------------
    def binding_clauses(self, s, r):
        out = []
        ctor_t = self.run.constructor.t if self.run.constructor is not None else None
        calls = [c for c in s.calls if ctor_t is not None and isinstance(c[0], z3.ExprRef) and z3.eq(c[0], ctor_t)]
        out.append(("constructor-once", ["C08", "C01"], z3.BoolVal(len(calls) == 1), f"{len(calls)} constructor calls"))
        if len(calls) != 1:
            return out
        _, at, args, kwargs = calls[0]
        out.append(("result-is-constructed", ["C08", "C03", "C01"], self.interp.term(s, r[1]) == T.F_res(ctor_t, at), ""))
        params = self.order
        by_param = {(self.fields[n].param or n): n for n in params}
        bound = {}
        for i, a in enumerate(args):
            if i < len(params):
                bound[params[i]] = ("pos", a)
        for k, a in kwargs.items():
            if k != "**":
                if k not in by_param:
                    out.append(("param-name", ["C08", "C01"], z3.BoolVal(False), f"keyword {k} is not a constructor parameter"))
                    continue
                k = by_param[k]
                if k in bound:
                    out.append(("binding-once", ["C08"], z3.BoolVal(False), f"parameter {k} passed twice"))
                bound[k] = ("kw", a)
        for fname in params:
            f = self.fields[fname]
            got = bound.get(fname)
            if got is not None:
                how, _ = got
                if f.kind == "pos_only" and how == "kw":
                    out.append(("param-kind", ["C08"], z3.BoolVal(False), f"positional-only {fname} passed by keyword"))
                if f.kind == "kw_only" and how == "pos":
                    out.append(("param-kind", ["C08"], z3.BoolVal(False), f"keyword-only {fname} passed positionally"))
            info = self.leaf_info.get(fname)
            if info is None:
                # skipped field: must not be passed, or passed as its own default
                ok = got is None or self.default_ok(s, f, got[1])
                out.append((f"skipped-default:{fname}", ["C08", "C03"], z3.BoolVal(bool(ok)), "skipped field received a value"))
                continue
            present, sn, path = info
            if got is None:
                # omitted parameter: the model's own default applies — only legal when the field is absent
                goal = z3.Not(present) if not f.required else z3.BoolVal(False)
                out.append((f"binding:{fname}", ["C03", "C08", "C01"], goal, "parameter omitted although the field is present"))
                continue
            a = got[1]
            at_ = self.interp.term(s, a)
            loaded = T.F_res(self.run.loaders[fname].t, sn.t)
            dflt = self.default_ok(s, f, a)
            goal = z3.And(z3.Implies(present, at_ == loaded), z3.Implies(z3.Not(present), z3.BoolVal(bool(dflt))))
            out.append((f"binding:{fname}", ["C03", "C08", "C02", "C01"], goal,
                        f"parameter {fname} is not the loaded value at {path} / its true default"))
        # extras
        star = kwargs.get("**")
        if self.layout.extra_in == "kwargs":
            if star is None or star.kind != "ref":
                out.append(("extras-delivered", ["C03"], z3.BoolVal(False), "no **kwargs passed"))
            else:
                h = s.heap[star.d]
                root = self.run.root
                if h.pairs is not None:
                    goal = z3.And(root.nex == 0) if not h.pairs else z3.BoolVal(False)
                else:
                    j = z3.Int("bj!")
                    goal = z3.And(h.kn == root.nex,
                                  z3.ForAll([j], z3.Implies(z3.And(j >= 0, j < root.nex), z3.And(
                                      z3.Select(h.karr, j) == T.F_keyat(root.exkeys, j),
                                      z3.Select(h.vals, T.F_keyat(root.exkeys, j)) == T.F_valat(root.exkeys, j))),
                                            patterns=[T.F_keyat(root.exkeys, j)]))
                out.append(("extras-delivered", ["C03", "C20"], z3.And(goal, z3.BoolVal(bool(h.fresh))),
                            "**kwargs is not exactly the unknown keys with their values (in a new dict)"))
        elif star is not None:
            out.append(("extras-delivered", ["C03"], z3.BoolVal(False), "unexpected **kwargs"))
        return out

    def default_ok(self, s, f, a: V):
        """the value passed for an ABSENT field is what the model itself would produce"""
        if f.default is None:
            return False
        kind, d = f.default
        if kind == "self-factory":
            return False   # only the constructor can compute it: nothing a loader passes is "the model's own default"
        if kind == "value":
            if a.kind == "const":
                return a.d is d or (type(a.d) is type(d) and _eq(a.d, d) and _literal_safe(d))
            return False
        # factory: a new object per call, equal to factory()
        if a.tag and a.tag[0] == "factory_call" and a.tag[1] is d:
            return True
        if hasattr(d, "log"):
            return False       # stateful factory: only a call made during this load counts
        want = d()
        if a.kind == "ref":
            h = s.heap[a.d]
            if not h.fresh:
                return False
            if isinstance(h, HList) and h.items is not None:
                return type(want) is list and len(want) == len(h.items) == 0
            if isinstance(h, HDict) and h.pairs is not None:
                return type(want) is dict and len(want) == len(h.pairs) == 0
            return False
        if a.tag and a.tag[0] == "factory_call" and a.tag[1] is d:
            return True
        if a.kind == "const":
            # the (immutable, always equal) result of a builtin class used as a factory may be written as a literal; any other
            # factory may have state and has to be called during the load
            return d in _CONSTANT_FACTORIES and type(a.d) is type(want) and _eq(a.d, want)
        return False

    # C05: trails ------------------------------------------------------------------------------------------------
    def trail_clauses(self, s, e):
        out = []
        interp = self.interp
        interp.ensure_trails(s)
        from adaptix._internal.morphing.load_error import AggregateLoadError
        leaves = []
        if e.ty is not None and issubclass(e.ty, AggregateLoadError) and e.tag and e.tag[0] == "exc_fields":
            excs = e.tag[1].get("exceptions")
            if excs is not None and excs.kind == "ref" and s.heap[excs.d].items is not None:
                leaves = list(s.heap[excs.d].items)
            if self.mode != "ALL":
                out.append(("error-shape", ["C05", "C06"], z3.BoolVal(True), ""))
        else:
            leaves = [e]
        for n, leaf in enumerate(leaves):
            lt = interp.term(s, leaf)
            goal = self.trail_goal(s, leaf, lt)
            if goal is not None:
                out.append((f"trail:{n}", ["C05"], goal, "trail of a reported error does not lead to the offending sub-value"))
        if self.mode == "ALL":
            # completeness: every definite error of this input is among the reported leaves
            for name, cond in self.definite_errors():
                if name.startswith("field-rejected:"):
                    fname = name.split(":", 1)[1]
                    present, sn, path = self.leaf_info[fname]
                    hit = [T.F_raised_on(interp.term(s, l)) == sn.t for l in leaves if l.ty is None]
                    out.append((f"all-complete:{fname}", ["C05", "C06"],
                                z3.Implies(cond, z3.Or(*hit) if hit else z3.BoolVal(False)),
                                f"rejected field {fname} is not reported under DebugTrail.ALL"))
            # every mapping node that lacks a required key reports it (once per node)
            from adaptix._internal.morphing.load_error import NoRequiredFieldsLoadError
            for cnode, sn, reached, path in self.nodes:
                if not isinstance(cnode, DictNode):
                    continue
                missing = []
                for key, child in cnode.children.items():
                    if isinstance(child, Leaf) and self.fields[child.field].required:
                        missing.append(z3.Not(sn.entries[key][0]))
                if not missing:
                    continue
                cond = z3.And(reached, self.kind_ok(cnode, sn), z3.Or(*missing))
                hits = []
                for l in leaves:
                    if l.ty is NoRequiredFieldsLoadError and l.tag and l.tag[0] == "exc_fields":
                        iv = l.tag[1].get("input_value")
                        if iv is not None and iv.kind == "node":
                            hits.append(z3.BoolVal(iv.d is sn))
                n_hits = z3.Sum(*[z3.If(h, 1, 0) for h in hits]) if hits else z3.IntVal(0)
                out.append((f"all-missing-reported@{path}", ["C05", "C06"], z3.Implies(cond, n_hits == 1),
                            f"missing required keys of the mapping at {path} are not reported exactly once"))
            # exactly once: two reported leaves never stem from the same failing call
            sym = [interp.term(s, l) for l in leaves if l.ty is None]
            if len(sym) > 1:
                out.append(("all-once", ["C05"], z3.Distinct(*sym), "an error is reported twice"))
        return out

    def trail_goal(self, s, leaf: V, lt):
        """the trail this activation put on the error equals the path of the node it is about"""
        interp = self.interp
        old_len = z3.Select(interp.trail0[0], lt)
        new_len = z3.Select(s.trail_len, lt)
        arr = z3.Select(s.trail_arr, lt)
        if self.mode == "DISABLE":
            return new_len == old_len

        def path_is(path):
            # trails are stored outermost-last: the path is read from the top
            conj = [new_len == old_len + len(path)]
            for i, key in enumerate(path):
                conj.append(z3.Select(arr, old_len + len(path) - 1 - i) == interp.const_term(s, key))
            return z3.And(*conj)
        if leaf.ty is None:
            # an error raised by a field loader: it is about that field's value
            alts = []
            for fname, (present, sn, path) in self.leaf_info.items():
                alts.append(z3.And(T.F_raised_on(lt) == sn.t, path_is(path)))
            return z3.Or(*alts) if alts else None
        # an error created by the generated code itself: its input_value is a node of the tree
        iv = None
        if leaf.tag and leaf.tag[0] == "exc_fields":
            iv = leaf.tag[1].get("input_value")
        if iv is None or iv.kind != "node":
            return z3.BoolVal(False)
        node: SNode = iv.d
        return path_is(node.path)


def _eq(a, b):
    try:
        return bool(a == b)
    except Exception:  # noqa: BLE001
        return False


def _literal_safe(d):
    """values for which `type equal and ==` means indistinguishable"""
    return isinstance(d, (int, str, bytes, bool, float, type(None), tuple, frozenset, range, slice)) and d == d  # noqa: PLR0124
