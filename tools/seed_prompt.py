# usage: python3 tools/seed_prompt.py Cxx  (expects /tmp/out5_Cxx/property.txt and a scratch worktree /tmp/wt5_Cxx): prompt given to an independent sub-agent that writes property-breaking changes
import sys
P=sys.argv[1]
prop=open(f"/tmp/out5_{P}/property.txt").read()
print(f"""You are helping to test a verification harness for the Python library reagento/adaptix (a data-model conversion library: loaders, dumpers, converters generated from type hints). Your job is to write realistic, subtle *property-breaking changes* ("seeded defects") to the library.

You have your own scratch git worktree of the library at /tmp/wt5_{P} (source under /tmp/wt5_{P}/src/adaptix, tests under /tmp/wt5_{P}/tests). Work ONLY inside /tmp/wt5_{P} and /tmp/out5_{P}. Never touch /repo or /verif (do not read /verif either).

The property the library is supposed to satisfy:

---
{prop}---

Produce TWO independent changes to the library source (each one a separate small patch against the unmodified worktree HEAD), each of which:
 1. breaks the property above (the library then really misbehaves with respect to the property for some input / configuration / sequence of calls),
 2. still imports, and the COMPLETE existing test suite still passes with it. Run the suite from the worktree with:
      cd /tmp/wt5_{P} && PYTHONPATH=/tmp/wt5_{P}/src:/tmp/wt5_{P}/tests/tests_helpers /venv/bin/python -m pytest -q -p no:cacheprovider --timeout=900 --continue-on-collection-errors
    (takes ~15 s; on the unmodified tree: 2588 passed, 24 skipped). The PYTHONPATH matters: without it the installed copy in /repo would be imported.
 3. looks like something a maintainer could plausibly write (an 'optimisation', a refactoring slip, a copy-paste error, a tidied-up condition) - not sabotage, no dead giveaways in comments,
 4. needs something SPECIFIC to manifest - an unusual input (value look-alikes, odd container types, particular option combination), a multi-step sequence of operations, a particular nesting, or two cooperating sites that each look fine alone. NOT something that ordinary use would expose at once.
 Prefer touching different functions / files in the two changes, and prefer places deep in the implementation that the property depends on. The two changes should be of different kinds.

For each change k in 1, 2 write into /tmp/out5_{P}/k/ :
  - patch.diff : output of `git -C /tmp/wt5_{P} diff` for that change alone (against HEAD; must apply with `git apply` on a clean checkout of HEAD),
  - demo.py    : a small stand-alone program (no pytest needed) that exits 0 on the unmodified library and exits non-zero (assertion failure / exception) with the change applied. It must import adaptix through PYTHONPATH (do not hard-code sys.path). It is run as: cd <worktree> && PYTHONPATH=<worktree>/src:<worktree>/tests/tests_helpers /venv/bin/python demo.py
  - meta.json  : {{"property": "{P}", "summary": "<what the change does, which function>", "needs": "<what exactly is needed for it to manifest>", "files": [...], "tests_pass_with_change": true, "demo_fails_with_change": true, "demo_passes_without_change": true}}

Procedure per change: make the edit in the worktree, run the demo (must fail), run the full test suite (must pass), save `git diff` to patch.diff, then `git -C /tmp/wt5_{P} checkout -- .` to restore the tree, run the demo again on the clean tree (must exit 0). Make sure the worktree is clean (`git status`) when you finish. Use python /venv/bin/python (3.12). There is no network.

If while exploring you notice that the UNMODIFIED library already violates the property for some input, note it in /tmp/out5_{P}/baseline_findings.txt with a tiny repro - but still deliver the two seeded changes.

Final answer: a short list of the two changes (file, function, one line what it breaks) and confirmation of the three checks for each.""")
