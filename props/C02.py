"""C02: unit contracts (contracts/*.py) plus the GENPROG obligations that carry this property (generated model loaders), plus a bounded
check of the documented TYPE ALIASES: specific-types-behavior.rst gives one rule for "Dict and Mapping", one for the abstract iterables
(loaded as tuple / list / frozenset / set of their implementation), one for ByteString — the loaders / dumpers of the abstract spelling
must behave exactly like those of the implementation the documentation names, element types included.  (The dispatch from the abstract
class to the implementation runs through provider search on live typing objects; it is outside the contracts, hence bounded.)"""
import itertools


def alias_checks():
    import collections.abc as cabc
    import typing
    from decimal import Decimal

    from adaptix import DebugTrail, Retort
    pairs = [
        (typing.Mapping, typing.Dict, 2), (typing.MutableMapping, typing.Dict, 2), (cabc.Mapping, dict, 2), (cabc.MutableMapping, dict, 2),
        (typing.Sequence, typing.Tuple, "var"), (typing.Iterable, typing.Tuple, "var"), (typing.Collection, typing.Tuple, "var"),
        (typing.MutableSequence, typing.List, 1), (typing.AbstractSet, typing.FrozenSet, 1), (typing.MutableSet, typing.Set, 1),
        (cabc.Sequence, tuple, "var"), (cabc.MutableSequence, list, 1),
    ]
    elem_types = [int, Decimal, bool, typing.List[Decimal]]
    load_samples = [{"a": "1.5"}, {"a": 1}, {"a": True}, {"a": ["2.5"]}, {1: 2}, ["1.5"], [1], [True], [["2.5"]], "ab", 5, None, {}, []]
    dump_samples = [{"a": Decimal("1.5")}, {"a": 1}, {"a": [Decimal("2.5")]}, [Decimal("1.5")], (1, 2), [[Decimal("2.5")]], {1}, frozenset({True}), {}, []]
    viol, n = [], 0

    def behaviour(fn, samples):
        out = []
        for s in samples:
            try:
                r = fn(s)
                out.append(("ret", type(r).__name__, repr(r)))
            except Exception as e:  # noqa: BLE001
                out.append(("raise", type(e).__name__))
        return out
    for (abstract, impl, arity), strict, dt in itertools.product(pairs, (True, False), (DebugTrail.DISABLE, DebugTrail.ALL)):
        retort = Retort(strict_coercion=strict, debug_trail=dt)
        arg_sets = [(str, e) for e in elem_types] if arity == 2 else [(e,) for e in elem_types]
        for args in arg_sets:
            a_tp = abstract[args]
            i_tp = impl[args + (...,)] if arity == "var" else impl[args]
            label = f"{getattr(abstract, '__module__', '')}.{getattr(abstract, '_name', None) or abstract.__name__}[{', '.join(getattr(x, '__name__', repr(x)) for x in args)}]"
            for kind, samples in (("load", load_samples), ("dump", dump_samples)):
                if kind == "dump" and arity != 2:
                    # documented: the dumper of every iterable produces a tuple (or a list for list children) — for an abstract
                    # iterable that is the tuple spelling, whatever container the LOADER builds
                    i_tp = typing.Tuple[args + (...,)]
                n += 1
                try:
                    fa = retort.get_loader(a_tp) if kind == "load" else retort.get_dumper(a_tp)
                    fi = retort.get_loader(i_tp) if kind == "load" else retort.get_dumper(i_tp)
                except Exception as e:  # noqa: BLE001
                    viol.append({"unit": "documented type aliases", "clause": "alias-created", "witness": f"{kind} {label}",
                                 "w": {"input": label, "native_outcome": f"{type(e).__name__}: {str(e)[:200]}"}})
                    continue
                ba, bi = behaviour(fa, samples), behaviour(fi, samples)
                if ba != bi:
                    k = next(i for i, (x, y) in enumerate(zip(ba, bi)) if x != y)
                    viol.append({"unit": "documented type aliases", "clause": "alias-behaves-like-implementation",
                                 "witness": f"{kind} {label} strict={strict} {dt.name}"[:160],
                                 "w": {"input": f"{kind} {samples[k]!r} as {label}"[:300],
                                       "native_outcome": f"{ba[k]!r}, but as {getattr(impl, '_name', None) or impl.__name__}[...] it gives {bi[k]!r}"[:300]}})
    return {"obligations": 0, "discharged": 0, "violations": viol[:40], "solver_time": 0.0,
            "bounded": [{"unit": "abstract collection hints vs the documented implementation (Mapping ~ Dict, Sequence ~ Tuple[..., ...], ...)",
                         "bound": f"{n} loader / dumper pairs: {len(pairs)} aliases x {len(elem_types)} element types x strict / lax x DISABLE / ALL, "
                                  f"{len(load_samples)} + {len(dump_samples)} samples"}],
            "samples": [{"alias_pairs": n, "failed": len(viol)}],
            "assumptions": ["alias equivalence is checked only on this bounded family"]}


def wrapper_checks():
    """Documented (specific-types-behavior.rst): "All NewType's are treated as origin types", "Final, Annotated, ClassVar and InitVar
    are processed the same as wrapped types", "LiteralString: same behavior as builtin one's of str", "Any and object: value is
    passed as is"; PEP 695 aliases and forward references denote the aliased type.  The unwrapping providers are reflection over live
    typing objects (outside the contracts): bounded check that the loader / dumper of the wrapped spelling behaves exactly like the one
    of the bare type on the representative of EVERY cell of D, in all six configurations, nested inside a list too."""
    import dataclasses
    import re
    import typing
    from decimal import Decimal

    from adaptix import DebugTrail, Retort
    from pyvc.universe import CELL_NAMES, N_CELLS, rep
    UserId = typing.NewType("UserId", int)
    Price = typing.NewType("Price", Decimal)
    Inner = typing.NewType("Inner", UserId)
    ns = {"Decimal": Decimal}
    exec("type AliasInt = int\ntype AliasList = list[Decimal]", ns)    # PEP 695 (CPython 3.12)
    bases = {"int": int, "Decimal": Decimal, "list[Decimal]": typing.List[Decimal], "str": str, "Optional[int]": typing.Optional[int]}
    spellings = [
        ("NewType(int)", UserId, "int"), ("NewType(Decimal)", Price, "Decimal"), ("NewType(NewType(int))", Inner, "int"),
        ("Annotated[int, 'meta']", typing.Annotated[int, "meta"], "int"), ("Annotated[Decimal, 1, 2]", typing.Annotated[Decimal, 1, 2], "Decimal"),
        ("Annotated[list[Decimal], 'x']", typing.Annotated[typing.List[Decimal], "x"], "list[Decimal]"),
        ("list[Annotated[Decimal, 'x']]", typing.List[typing.Annotated[Decimal, "x"]], "list[Decimal]"),
        ("Final[int]", typing.Final[int], "int"), ("ClassVar[Decimal]", typing.ClassVar[Decimal], "Decimal"),
        ("InitVar[int]", dataclasses.InitVar[int], "int"), ("type AliasInt = int", ns["AliasInt"], "int"),
        ("type AliasList = list[Decimal]", ns["AliasList"], "list[Decimal]"), ("LiteralString", typing.LiteralString, "str"),
        ("Optional[NewType(int)]", typing.Optional[UserId], "Optional[int]"),
    ]
    viol, n = [], 0

    def outcome(fn, x):
        try:
            r = fn(x)
            return ("ret", type(r).__name__, re.sub(r" at 0x[0-9a-f]+", "", repr(r))[:80])     # fresh representatives: no addresses
        except Exception as e:  # noqa: BLE001
            return ("raise", type(e).__name__)
    dump_values = {"int": [0, 7, True], "Decimal": [Decimal("1.5"), Decimal("NaN")], "list[Decimal]": [[Decimal("1")], []], "str": ["a", ""],
                   "Optional[int]": [None, 3]}
    for (label, tp, base), strict, dt in itertools.product(spellings, (True, False), DebugTrail):
        retort = Retort(strict_coercion=strict, debug_trail=dt)
        for kind in ("load", "dump"):
            n += 1
            try:
                fw = retort.get_loader(tp) if kind == "load" else retort.get_dumper(tp)
                fb = retort.get_loader(bases[base]) if kind == "load" else retort.get_dumper(bases[base])
            except Exception as e:  # noqa: BLE001
                viol.append({"unit": "wrapped type hints", "clause": "wrapper-created", "witness": f"{kind} {label}",
                             "w": {"input": label, "native_outcome": f"{type(e).__name__}: {str(e)[:200]}"}})
                continue
            inputs = ([(CELL_NAMES[i], (lambda i=i: rep(i))) for i in range(N_CELLS)] if kind == "load"
                      else [(repr(v), (lambda v=v: v)) for v in dump_values[base]])
            for iname, mk in inputs:
                ow, ob = outcome(fw, mk()), outcome(fb, mk())
                if ow != ob:
                    viol.append({"unit": "wrapped type hints", "clause": "wrapper-behaves-like-wrapped-type",
                                 "witness": f"{kind} {label} strict={strict} {dt.name} {iname}"[:160],
                                 "w": {"input": f"{kind} cell {iname} as {label}"[:300],
                                       "native_outcome": f"{ow!r}, but as {base} it gives {ob!r}"[:300]}})
    for tp, strict, dt in itertools.product((typing.Any, object), (True, False), DebugTrail):
        retort = Retort(strict_coercion=strict, debug_trail=dt)
        ld, dm = retort.get_loader(tp), retort.get_dumper(tp)
        for i in range(N_CELLS):
            n += 1
            x = rep(i)
            if ld(x) is not x or dm(x) is not x:
                viol.append({"unit": "wrapped type hints", "clause": "any-object-as-is", "witness": f"{tp!r} strict={strict} {dt.name} {CELL_NAMES[i]}",
                             "w": {"input": f"cell {CELL_NAMES[i]} as {tp!r}", "native_outcome": "the value was not passed as is"}})
    return {"obligations": 0, "discharged": 0, "violations": viol[:40], "solver_time": 0.0,
            "bounded": [{"unit": "NewType / Annotated / Final / ClassVar / InitVar / PEP 695 alias / LiteralString vs the wrapped type; Any and object as is",
                         "bound": f"{len(spellings)} spellings x strict / lax x 3 debug-trail modes x (every cell of D for loading, listed values for "
                                  f"dumping); {n} comparisons"}],
            "samples": [{"wrapper_comparisons": n, "failed": len(viol)}],
            "assumptions": ["wrapper equivalence is checked only on this bounded family (typing reflection is outside the contracts)"]}


def extra_checks(tier, seed):
    from genprog.check import extra_for_property
    return [extra_for_property("C02", tier, seed), alias_checks(), wrapper_checks()]
