"""Contracts for morphing/constant_length_tuple_provider.py: the composed loaders of the six (strict, debug-trail)
combinations against one TupleSpec.

Acceptance rule used as the specification (the same reading as for iterables, specific-types-behavior.rst):
strict: any iterable except str and Mapping; lax: any iterable; exactly len(loaders) elements; element j is loaded
by loader j.  Length errors report the datum (or the tuple made from it — the FIRST/ALL variants materialise the
input first, so `input_value` may be `tuple(data)`; C06's "same offending input value" is read up to that copy).
"""
from adaptix._internal.definitions import DebugTrail
from pyvc.contracts import LoopSpec, Via, contract

F = "morphing/constant_length_tuple_provider.py"
IS_MAPPING = "py(lambda d: isinstance(d, CollectionsMapping), data)"
IS_STR = "py(lambda d: type(d) is str, data)"
ITERABLE = "py(lambda d: ctor_ok(iter, d), data)"
EXCLUDED = f"(strict_coercion and ({IS_MAPPING} or {IS_STR}))"
N = "len(elems(data))"
L = "len(loaders)"
EL = "elems(data)"
OKJ = f"ok(loaders[{{j}}], {EL}[{{j}}])"
ALL_OK = f"forall(lambda j: implies(0 <= j and j < {L}, {OKJ.format(j='j')}))"
SHAPE_OK = f"(not {EXCLUDED} and {ITERABLE} and {N} == {L})"
FIRST_FAIL = (f"(0 <= {{k}} and {{k}} < {L} and not {OKJ.format(j='{k}')} and "
              f"forall(lambda j: implies(0 <= j and j < {{k}}, {OKJ.format(j='j')})))")
SAME_INPUT = "(exc.input_value is data or same_items(exc.input_value, data))"

POST = {
    "accept-iff": f"returned == ({SHAPE_OK} and {ALL_OK})",
    "value": (f"implies(returned, type(result) is tuple and len(result) == {L} and "
              f"forall(lambda j: implies(0 <= j and j < {L}, result[j] == res(loaders[j], {EL}[j]))))"),
    "raises-closed": "implies(raised, isinstance(exc, LoadError))",
    "excluded-type": f"implies({EXCLUDED}, raised and type(exc) is ExcludedTypeLoadError and exc.input_value is data)",
    "not-iterable": f"implies(not {EXCLUDED} and not {ITERABLE}, raised and type(exc) is TypeLoadError and exc.input_value is data)",
    "extra-items": (f"implies(not {EXCLUDED} and {ITERABLE} and {N} > {L}, raised and type(exc) is ExtraItemsLoadError and "
                    f"exc.expected_len == {L} and {SAME_INPUT})"),
    "missing-items": (f"implies(not {EXCLUDED} and {ITERABLE} and {N} < {L}, raised and type(exc) is NoRequiredItemsLoadError and "
                      f"exc.expected_len == {L} and {SAME_INPUT})"),
}
ELEM_FAIL = f"(raised and {SHAPE_OK})"
POST_DISABLE = {
    "first-error": f"implies({ELEM_FAIL}, exists(lambda k: {FIRST_FAIL.format(k='k')} and is_err(exc, loaders[k], {EL}[k]) and trail_unchanged(exc)))",
}
POST_FIRST = {
    "first-error": f"implies({ELEM_FAIL}, exists(lambda k: {FIRST_FAIL.format(k='k')} and is_err(exc, loaders[k], {EL}[k]) and trail_top_is(exc, k)))",
}
SUB = "exc.exceptions"


def elem_err(e, bound, loaders="loaders", seq=EL):
    j = f"top_index({e})"
    return (f"(0 <= {j} and {j} < {bound} and not ok({loaders}[{j}], {seq}[{j}]) and is_err({e}, {loaders}[{j}], {seq}[{j}]) "
            f"and trail_top_is({e}, {j}))")


POST_ALL = {
    "agg-class": f"implies({ELEM_FAIL}, type(exc) is AggregateLoadError)",
    "agg-sound": f"implies({ELEM_FAIL}, forall(lambda k: implies(0 <= k and k < len({SUB}), {elem_err(SUB + '[k]', L)})))",
    "agg-complete": (f"implies({ELEM_FAIL}, forall(lambda j: implies(0 <= j and j < {L} and not {OKJ.format(j='j')}, "
                     f"exists(lambda k: 0 <= k and k < len({SUB}) and is_err({SUB}[k], loaders[j], {EL}[j]) and trail_top_is({SUB}[k], j)))))"),
    "agg-once": (f"implies({ELEM_FAIL}, forall(lambda k1, k2: implies(0 <= k1 and k1 < k2 and k2 < len({SUB}), "
                 f"top_index({SUB}[k1]) < top_index({SUB}[k2]))))"),
}
CP = {"accept-iff": ["C02", "C06", "C07"], "value": ["C02", "C06", "C07", "C01", "C20"],
      "raises-closed": ["C04"], "excluded-type": ["C02", "C07", "C05"], "not-iterable": ["C02", "C05"],
      "extra-items": ["C02", "C05", "C06"], "missing-items": ["C02", "C05", "C06"],
      "first-error": ["C05", "C06"], "agg-class": ["C05", "C04"], "agg-sound": ["C05"], "agg-complete": ["C05", "C06"],
      "agg-once": ["C05"], "modifies-nothing": ["C20"]}

E = "errors"
OKI = "ok(loaders[j], data[j])"
LOOPS = {
    ("dt_first_loader", 0): LoopSpec(
        binds={"idx": "_i"},
        inv=["len(yielded) == _i",
             f"forall(lambda j: implies(0 <= j and j < _i, {OKI} and yielded[j] == res(loaders[j], data[j])))"]),
    ("dt_all_loader", 0): LoopSpec(
        binds={"idx": "_i"}, havoc_trails=True,
        inv=["has_unexpected_error == False",
             f"implies(len({E}) == 0, len(yielded) == _i)",
             f"implies(len({E}) == 0, forall(lambda j: implies(0 <= j and j < _i, {OKI} and yielded[j] == res(loaders[j], data[j]))))",
             f"forall(lambda k: implies(0 <= k and k < len({E}), {elem_err(E + '[k]', '_i', seq='data')}))",
             f"forall(lambda j: implies(0 <= j and j < _i and not {OKI}, exists(lambda k: 0 <= k and k < len({E}) "
             f"and is_err({E}[k], loaders[j], data[j]) and trail_top_is({E}[k], j))))",
             f"forall(lambda k1, k2: implies(0 <= k1 and k1 < k2 and k2 < len({E}), top_index({E}[k1]) < top_index({E}[k2])))",
             ]),
}

for sc in (True, False):
    for dt in (DebugTrail.DISABLE, DebugTrail.FIRST, DebugTrail.ALL):
        label = f"{'strict' if sc else 'lax'}-{dt.name}"
        post = dict(POST)
        post.update({"DISABLE": POST_DISABLE, "FIRST": POST_FIRST, "ALL": POST_ALL}[dt.name])
        contract(F, "ConstantLengthTupleProvider._make_loader", name=f"{F}:ConstantLengthTupleProvider._make_loader[{label}]",
                 props=["C01", "C02", "C04", "C05", "C06", "C07", "C20"],
                 via=Via("ConstantLengthTupleProvider._make_loader", {label: lambda m: m.ConstantLengthTupleProvider()},
                         args={"loaders": "seq:LD"},
                         instance_kwargs={label: {"strict_coercion": ("const", sc), "debug_trail": ("const", dt)}},
                         any_closure=True),
                 params={"data": "D"}, post=post, loops=LOOPS, clause_props=CP,
                 cover=["returned", "raised", f"raised and {SHAPE_OK}"])


# ================================================================================================ dumpers
# dumping a fixed-length tuple: the object must have exactly len(dumpers) elements (length errors are reported with the load-error
# classes the code uses for them), element j is dumped by dumper j into a NEW tuple.  One spec for the three debug-trail modes.
def _d(text):
    return text.replace("loaders", "dumpers")


SIZED = "py(lambda d: ctor_ok(len, d), data)"
D_L = "len(dumpers)"
D_SHAPE_OK = f"({SIZED} and {N} == {D_L})"
D_POST = {
    "accept-iff": _d(f"returned == ({D_SHAPE_OK} and {ALL_OK})"),
    "value": _d(f"implies(returned, type(result) is tuple and is_fresh(result) and len(result) == {L} and "
                f"forall(lambda j: implies(0 <= j and j < {L}, result[j] == res(loaders[j], {EL}[j]))))"),
    "unsized": f"implies(not {SIZED}, raised and type(exc) is TypeLoadError and exc.input_value is data)",
    "extra-items": (f"implies({SIZED} and {N} > {D_L}, raised and type(exc) is ExtraItemsLoadError and exc.expected_len == {D_L} and "
                    f"exc.input_value is data)"),
    "missing-items": (f"implies({SIZED} and {N} < {D_L}, raised and type(exc) is NoRequiredItemsLoadError and exc.expected_len == {D_L} and "
                      f"exc.input_value is data)"),
}
D_ELEM_FAIL = f"(raised and {D_SHAPE_OK})"
D_POST_DISABLE = {"first-error": _d(POST_DISABLE["first-error"].replace(ELEM_FAIL, D_ELEM_FAIL))}
D_POST_FIRST = {"first-error": _d(POST_FIRST["first-error"].replace(ELEM_FAIL, D_ELEM_FAIL))}
D_POST_ALL = {k: _d(v.replace(ELEM_FAIL, D_ELEM_FAIL)) for k, v in POST_ALL.items()}
D_POST_ALL["agg-class"] = f"implies({D_ELEM_FAIL}, type(exc) is CompatExceptionGroup)"
D_CP = {"accept-iff": ["C02", "C06"], "value": ["C02", "C06", "C01", "C20"], "unsized": ["C02"], "extra-items": ["C02", "C06"],
        "missing-items": ["C02", "C06"], "first-error": ["C05", "C06"], "agg-class": ["C05", "C06"], "agg-sound": ["C05"],
        "agg-complete": ["C05", "C06"], "agg-once": ["C05"], "modifies-nothing": ["C20"]}
D_OKI = "ok(dumpers[j], data[j])"
D_LOOPS = {
    ("dt_first_dumper", 0): LoopSpec(
        binds={"idx": "_i"},
        inv=["len(yielded) == _i",
             f"forall(lambda j: implies(0 <= j and j < _i, {D_OKI} and yielded[j] == res(dumpers[j], data[j])))"]),
    ("dt_all_dumper", 0): LoopSpec(
        binds={"idx": "_i"}, havoc_trails=True,
        inv=[f"implies(len({E}) == 0, len(yielded) == _i)",
             f"implies(len({E}) == 0, forall(lambda j: implies(0 <= j and j < _i, {D_OKI} and yielded[j] == res(dumpers[j], data[j]))))",
             f"forall(lambda k: implies(0 <= k and k < len({E}), {elem_err(E + '[k]', '_i', loaders='dumpers', seq='data')}))",
             f"forall(lambda j: implies(0 <= j and j < _i and not {D_OKI}, exists(lambda k: 0 <= k and k < len({E}) "
             f"and is_err({E}[k], dumpers[j], data[j]) and trail_top_is({E}[k], j))))",
             f"forall(lambda k1, k2: implies(0 <= k1 and k1 < k2 and k2 < len({E}), top_index({E}[k1]) < top_index({E}[k2])))",
             ]),
}
for dt in (DebugTrail.DISABLE, DebugTrail.FIRST, DebugTrail.ALL):
    post = dict(D_POST)
    post.update({"DISABLE": D_POST_DISABLE, "FIRST": D_POST_FIRST, "ALL": D_POST_ALL}[dt.name])
    contract(F, "ConstantLengthTupleProvider._make_dumper", name=f"{F}:ConstantLengthTupleProvider._make_dumper[{dt.name}]",
             props=["C01", "C02", "C05", "C06", "C20"],
             via=Via("ConstantLengthTupleProvider._make_dumper", {dt.name: lambda m: m.ConstantLengthTupleProvider()},
                     args={"dumpers": "seq:DUMP"},
                     instance_kwargs={dt.name: {"debug_trail": ("const", dt)}}, any_closure=True),
             params={"data": "D"}, post=post, loops=D_LOOPS, clause_props=D_CP,
             cover=["returned", "raised", f"raised and {D_SHAPE_OK}"])
