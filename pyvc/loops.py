"""Loops, comprehensions and lazy producers.

* iteration over statically known items is unrolled (exact);
* iteration over a *symbolic* sequence is cut by the inductive invariant of the side-car contract
  (init / preservation obligations, havoc of the modified state) — unbounded;
* without an invariant the loop is unrolled up to `interp.unroll_bound` iterations and the unit is reported
  as *bounded* (never counted as proved);
* comprehensions / `map` over symbolic sequences are evaluated once for a universally quantified index
  (`quantified_map`): “all elements succeed” or “index k is the first failure”.
"""
from __future__ import annotations

import ast

import z3

from . import theory as T
from .builtins_theory import iterate_concrete, symbolic_iter
from .interp import BRK, CONT, RAISE, RET, Interp
from .values import HDict, HList, HObj, SeqIter, St, Unsupported, V, const, new_id


class SymSeq:
    """A symbolic sequence: length term + element constructor."""

    def __init__(self, length, elem):
        self.length = length
        self.elem = elem          # (st, z3 Int) -> V


def is_finite_const_iterable(o):
    """re-iterable concrete python objects (containers, dict views, enum classes ...), not one-shot iterators"""
    import enum as _enum
    if isinstance(o, (tuple, list, frozenset, set, dict, str, range, bytes)):
        return True
    if isinstance(o, _enum.EnumMeta):
        return True
    if hasattr(o, "__next__"):
        return False
    if type(o).__name__ in ("dict_values", "dict_keys", "dict_items", "mappingproxy", "deque", "odict_values", "odict_keys"):
        return True
    return False


def as_concrete_items(interp: Interp, st: St, x: V):
    """list[V] if the iterable has a statically known content, else None"""
    if x.kind == "tuple":
        return list(x.d)
    if x.kind == "const" and x.shadow is None and is_finite_const_iterable(x.d):
        return [const(i) for i in x.d]
    if x.kind == "ref":
        h = st.heap[x.d]
        if isinstance(h, HList) and h.items is not None:
            return list(h.items)
        if isinstance(h, HDict) and h.pairs is not None:
            return [k for k, _ in h.pairs]
    if x.tag and x.tag[0] == "enumerate":
        inner = as_concrete_items(interp, st, x.tag[1])
        start = x.tag[2]
        if inner is not None and start.kind == "const":
            return [V("tuple", [const(start.d + i), it]) for i, it in enumerate(inner)]
    if x.tag and x.tag[0] == "zip":
        inners = [as_concrete_items(interp, st, a) for a in x.tag[1]]
        if all(i is not None for i in inners):
            return [V("tuple", list(t)) for t in zip(*inners)]
    if x.tag and x.tag[0] == "hdict_items":
        h = st.heap[x.tag[1]]
        if h.pairs is not None:
            return [V("tuple", [k, vv]) for k, vv in h.pairs]
    if x.tag and x.tag[0] == "concrete_items":
        return list(x.tag[1])
    return None


def as_sym_seq(interp: Interp, st: St, x: V):
    """yield (st, ('ok', SymSeq) | ('raise', V))"""
    if x.tag and x.tag[0] == "enumerate":
        start = x.tag[2]
        sv = start.d if start.kind == "int" else z3.IntVal(start.d)
        for s, r in as_sym_seq(interp, st, x.tag[1]):
            if r[0] != "ok":
                yield s, r
                continue
            inner = r[1]
            yield s, ("ok", SymSeq(inner.length,
                                   lambda s2, i, inner=inner, sv=sv: V("tuple", [V("int", sv + i), inner.elem(s2, i)])))
        return
    if x.tag and x.tag[0] == "pairwise":
        for s, r in as_sym_seq(interp, st, x.tag[1]):
            if r[0] != "ok":
                yield s, r
                continue
            inner = r[1]
            n = z3.If(inner.length >= 1, inner.length - 1, 0)
            yield s, ("ok", SymSeq(n, lambda s2, i, inner=inner: V("tuple", [inner.elem(s2, i), inner.elem(s2, z3.simplify(i + 1))])))
        return
    if x.tag and x.tag[0] == "reversed":
        for s, r in as_sym_seq(interp, st, x.tag[1]):
            if r[0] != "ok":
                yield s, r
                continue
            inner = r[1]
            yield s, ("ok", SymSeq(inner.length, lambda s2, i, inner=inner: inner.elem(s2, z3.simplify(inner.length - 1 - i))))
        return
    if x.tag and x.tag[0] == "zip":
        parts = x.tag[1]

        def go(idx, s, acc):
            if idx == len(parts):
                yield s, ("ok", acc)
                return
            p = parts[idx]
            items = as_concrete_items(interp, s, p)
            if items is not None:
                raise Unsupported("zip mixing concrete and symbolic sequences")
            for s2, r in as_sym_seq(interp, s, p):
                if r[0] != "ok":
                    yield s2, r
                else:
                    yield from go(idx + 1, s2, acc + [r[1]])
        for s, r in go(0, st, []):
            if r[0] != "ok":
                yield s, r
                continue
            seqs = r[1]
            n = interp.ctx.fresh_int("zipn")
            s.assume(z3.And(*[n <= q.length for q in seqs]))
            s.assume(z3.Or(*[n == q.length for q in seqs]))
            yield s, ("ok", SymSeq(n, lambda s2, i, seqs=seqs: V("tuple", [q.elem(s2, i) for q in seqs])))
        return
    if x.kind == "ref" and isinstance(st.heap[x.d], HList) and st.heap[x.d].items is None:
        h = st.heap[x.d]
        yield st, ("ok", SymSeq(h.ln, lambda s2, i, arr=h.arr: V("sym", t=z3.Select(arr, i))))
        return
    for s, r in symbolic_iter(interp, st, x):
        if r[0] != "ok":
            yield s, r
            continue
        it: SeqIter = r[1].d
        length = getattr(it, "len_term", None)
        if length is None:
            length = T.F_len(it.seq)
        if not (z3.is_int_value(it.pos) and it.pos.as_long() == 0):
            length = length - it.pos
            if getattr(it, "clamp", False):
                length = z3.If(length < 0, 0, length)
        pos = it.pos

        def elem(s2, i, it=it, pos=pos):
            if it.elem_fn is not None:
                return it.elem_fn(s2, pos + i)
            t = T.F_at(it.seq, z3.simplify(pos + i))
            if it.elem_in_D:
                return interp.element_datum(s2, t, "el")
            v = V("sym", t=t)
            d = interp.ctx.disciplines.get(("elements", it.seq.get_id()))
            if d is not None:
                interp.ctx.disciplines[t.get_id()] = d
            return v
        yield s, ("ok", SymSeq(length, elem))


# ---------------------------------------------------------------------------------------------- for / while
def assigned_names(nodes):
    out = set()
    for n in nodes:
        for x in ast.walk(n):
            if isinstance(x, ast.Name) and isinstance(x.ctx, ast.Store):
                out.add(x.id)
            elif isinstance(x, ast.ExceptHandler) and x.name:
                pass
    return out


def mutated_names(nodes):
    """names of locals whose heap object is mutated in the loop body (x.append(..), x[k] = .., x.extend(..))"""
    out = set()
    has_yield = False
    for n in nodes:
        for x in ast.walk(n):
            if isinstance(x, ast.Call) and isinstance(x.func, ast.Attribute) and isinstance(x.func.value, ast.Name) \
                    and x.func.attr in ("append", "extend", "update", "add", "pop", "setdefault", "clear", "insert"):
                out.add(x.func.value.id)
            elif isinstance(x, ast.Subscript) and isinstance(x.ctx, ast.Store) and isinstance(x.value, ast.Name):
                out.add(x.value.id)
            elif isinstance(x, (ast.Yield, ast.YieldFrom)):
                has_yield = True
    return out, has_yield


def havoc_value(interp: Interp, st: St, name, old):
    ctx = interp.ctx
    if old is None:
        return None
    if old.kind == "ref":
        h = st.heap[old.d]
        if isinstance(h, HList):
            ln = ctx.fresh_int(name + "_len")
            st.assume(ln >= 0)
            ctx.fresh += 1
            st.heap[old.d] = HList(None, ln, z3.Const(f"{name}_arr!{ctx.fresh}", z3.ArraySort(T.I, T.Val)), h.fresh)
            return old
        if isinstance(h, HDict):
            kn = ctx.fresh_int(name + "_n")
            st.assume(kn >= 0)
            ctx.fresh += 1
            f = ctx.fresh
            st.heap[old.d] = HDict(None, kn, z3.Const(f"{name}_keys!{f}", z3.ArraySort(T.I, T.Val)),
                                   z3.Const(f"{name}_vals!{f}", z3.ArraySort(T.Val, T.Val)),
                                   z3.Const(f"{name}_has!{f}", z3.ArraySort(T.Val, T.B)), h.fresh)
            return old
        if isinstance(h, HObj):
            raise Unsupported("havoc of heap instance")
    if old.kind == "bool" or (old.kind == "const" and type(old.d) is bool):
        return V("bool", ctx.fresh_bool(name))
    if old.kind == "int" or (old.kind == "const" and type(old.d) is int):
        return V("int", ctx.fresh_int(name))
    return V("sym", t=ctx.fresh_val(name))


def exec_for(interp: Interp, node: ast.For, st: St):
    for s0, r in interp.eval(node.iter, st):
        if r[0] != "ok":
            yield s0, r
            continue
        x = r[1]
        if x.kind == "gen":
            # generator object iterated by a for loop: consume it first (sound when the body cannot observe laziness)
            for s1, r1 in iterate_concrete(interp, s0, x):
                if r1[0] != "ok":
                    yield s1, r1
                else:
                    yield from unroll(interp, node, s1, r1[1])
            continue
        items = as_concrete_items(interp, s0, x)
        if items is not None:
            yield from unroll(interp, node, s0, items)
            continue
        if interp.prefer_shadow and x.shadow is not None and x.root is not None:
            for s1, r1 in shadow_items(interp, s0, x):
                if r1[0] != "ok":
                    yield s1, r1
                else:
                    yield from unroll(interp, node, s1, r1[1])
            continue
        for s1, r1 in as_sym_seq(interp, s0, x):
            if r1[0] != "ok":
                yield s1, r1
                continue
            yield from cut_for(interp, node, s1, r1[1])


def shadow_items(interp, st, x: V):
    """Iterate a shadowed iterable concretely: cells are partitioned by the number of elements it yields."""
    def count(o):
        try:
            return len(list(o))
        except TypeError:
            return -1
    for s, n in interp.partition(st, x, count):
        if n < 0:
            for s2, r in interp.shadow_apply(s, iter, [x], name="iter"):
                yield s2, r
            continue
        items = []
        for i in range(n):
            cells = s.live[x.root]
            sh = {c: (lambda c=c, i=i: list(x.shadow[c]())[i]) for c in cells}
            vals = [sh[c]() for c in cells]
            first = vals[0]
            if type(first) in (bool, type(None), int, str) and all(type(v) is type(first) and v == first for v in vals):
                items.append(const(first))
            else:
                items.append(V("sym", t=interp.ctx.fresh_val("item"), root=x.root, shadow=sh))
        yield s, ("ok", items)


def unroll(interp, node, st, items):
    def go(i, s):
        if i == len(items):
            yield from interp.exec_block(node.orelse, s)
            return
        for s1, sig in interp.assign(node.target, items[i], s):
            if sig is not None:
                yield s1, sig
                continue
            for s2, sig2 in interp.exec_block(node.body, s1):
                if sig2 is None or sig2[0] == CONT:
                    yield from go(i + 1, s2)
                elif sig2[0] == BRK:
                    yield s2, None
                else:
                    yield s2, sig2
    yield from go(0, st)


def cut_for(interp: Interp, node: ast.For, st: St, seq: SymSeq):
    ordinal = interp.loop_ordinals.get(id(node))
    spec = interp.loop_specs.get(ordinal)
    if spec is None:
        yield from bounded_for(interp, node, st, seq, ordinal)
        return
    from .speceval import SpecEnv
    n = seq.length
    ctx = interp.ctx
    # 1. initialisation
    for nm, gf in spec.ghost.items():
        for s_, r_ in interp.eval(ast.parse(gf[0], mode="eval").body, st):
            if r_[0] != "ok":
                raise Unsupported("ghost initialiser raised")
            st.env["$ghost_" + nm] = r_[1]
    env0 = SpecEnv(interp, st, {"_i": z3.IntVal(0), "_n": n})
    for k, inv in enumerate(spec.inv):
        interp.add_obligation(st, f"loop{ordinal}/inv-init/{k}", env0.eval_bool(inv), kind="inv-init")
    for name, expr in spec.binds.items():
        cur = st.env.get(name)
        interp.add_obligation(st, f"loop{ordinal}/bind-init/{name}", env0.eval_value_eq(cur, expr), kind="inv-init")
    # 2. havoc
    sh = st
    i = ctx.fresh_int("_i")
    modified = assigned_names([node.target] + node.body + node.orelse) | set(spec.modifies)
    mutated, has_yield = mutated_names(node.body)
    first_assigned_in_loop = set()
    for name in sorted(modified):
        if name in spec.binds:
            continue
        old = sh.env.get(name)
        if old is None and name not in sh.env:
            first_assigned_in_loop.add(name)
            sh.env[name] = None
        else:
            sh.env[name] = havoc_value(interp, sh, name, old)
    for name in sorted(mutated - modified):
        old = sh.env.get(name)
        if old is not None:
            havoc_value(interp, sh, name, old)
    if has_yield and sh.yielded is not None:
        havoc_value(interp, sh, "yielded", V("ref", sh.yielded))
    if spec.havoc_trails:
        interp.havoc_trails(sh)
    for nm in spec.ghost:
        sh.env["$ghost_" + nm] = havoc_value(interp, sh, "ghost_" + nm, sh.env["$ghost_" + nm])
    sh.assume(z3.And(i >= 0, i <= n))
    envh = SpecEnv(interp, sh, {"_i": i, "_n": n})
    for name, expr in spec.binds.items():
        sh.env[name] = envh.eval_as_value(expr)
    for inv in spec.inv:
        sh.assume(envh.eval_bool(inv))
    # 3. one arbitrary iteration
    sit = sh.fork()
    sit.assume(i < n)
    if interp.check_sat(sit):
        el = seq.elem(sit, i)
        for s1, sig in interp.assign(node.target, el, sit):
            if sig is not None:
                yield s1, sig
                continue
            for s2, sig2 in _with_index(interp, i, interp.exec_block(node.body, s1)):
                if sig2 is None or sig2[0] == CONT:
                    for nm, gf in spec.ghost.items():
                        for s_, r_ in interp.eval(ast.parse(gf[1], mode="eval").body, s2):
                            if r_[0] != "ok":
                                raise Unsupported("ghost update raised")
                            s2.env["$ghost_" + nm] = r_[1]
                    interp.normalize_arrays(s2)
                    env2 = SpecEnv(interp, s2, {"_i": i + 1, "_n": n})
                    for k, inv in enumerate(spec.inv):
                        interp.add_obligation(s2, f"loop{ordinal}/inv-preserve/{k}", env2.eval_bool(inv),
                                              kind="inv-preserve")
                    for name, expr in spec.binds.items():
                        interp.add_obligation(s2, f"loop{ordinal}/bind-preserve/{name}",
                                              env2.eval_value_eq(s2.env.get(name), expr), kind="inv-preserve")
                elif sig2[0] == BRK:
                    for nm in first_assigned_in_loop:
                        s2.env[nm] = V("sym", t=None, tag=("maybe_unbound",))
                    yield s2, None
                else:
                    yield s2, sig2
    # 4. exit
    sh.assume(i == n)
    for nm in first_assigned_in_loop:
        sh.env.pop(nm, None)
    if interp.check_sat(sh):
        yield from interp.exec_block(node.orelse, sh)


def _with_index(interp, i, gen):
    """run a lazily evaluated body with `i` as the current loop index (restored around every yield)"""
    it = iter(gen)
    while True:
        interp.loop_index.append(i)
        try:
            item = next(it)
        except StopIteration:
            interp.loop_index.pop()
            return
        interp.loop_index.pop()
        yield item


def bounded_for(interp: Interp, node, st, seq: SymSeq, ordinal):
    interp.bounded_loops.append((ordinal, interp.unroll_bound))
    n = seq.length
    for k in range(interp.unroll_bound + 1):
        s = st.fork()
        s.assume(n == k)
        if not interp.check_sat(s):
            continue
        items = [seq.elem(s, z3.IntVal(j)) for j in range(k)]
        yield from unroll(interp, node, s, items)


def exec_while(interp: Interp, node: ast.While, st: St):
    ordinal = interp.loop_ordinals.get(id(node))
    spec = interp.loop_specs.get(ordinal)
    if spec is None:
        # bounded unrolling
        interp.bounded_loops.append((ordinal, interp.unroll_bound))

        def go(k, s):
            if k > interp.unroll_bound:
                return
            for s1, r in interp.eval(node.test, s):
                if r[0] != "ok":
                    yield s1, r
                    continue
                for s2, b in interp.truth(s1, r[1]):
                    if not b:
                        yield from interp.exec_block(node.orelse, s2)
                        continue
                    for s3, sig in interp.exec_block(node.body, s2):
                        if sig is None or sig[0] == CONT:
                            yield from go(k + 1, s3)
                        elif sig[0] == BRK:
                            yield s3, None
                        else:
                            yield s3, sig
        yield from go(0, st)
        return
    from .speceval import SpecEnv
    ctx = interp.ctx
    env0 = SpecEnv(interp, st, {})
    for k, inv in enumerate(spec.inv):
        interp.add_obligation(st, f"loop{ordinal}/inv-init/{k}", env0.eval_bool(inv), kind="inv-init")
    sh = st
    modified = assigned_names(node.body) | set(spec.modifies)
    mutated, _ = mutated_names(node.body)
    for name in sorted(modified):
        old = sh.env.get(name)
        if old is None and name not in sh.env:
            sh.env[name] = None
        else:
            sh.env[name] = havoc_value(interp, sh, name, old)
    for name in sorted(mutated - modified):
        old = sh.env.get(name)
        if old is not None:
            havoc_value(interp, sh, name, old)
    envh = SpecEnv(interp, sh, {})
    for inv in spec.inv:
        sh.assume(envh.eval_bool(inv))
    measure0 = envh.eval_int(spec.decreases) if spec.decreases else None
    for s1, r in interp.eval(node.test, sh):
        if r[0] != "ok":
            yield s1, r
            continue
        for s2, b in interp.truth(s1, r[1]):
            if not b:
                yield from interp.exec_block(node.orelse, s2)
                continue
            for s3, sig in interp.exec_block(node.body, s2):
                if sig is None or sig[0] == CONT:
                    env3 = SpecEnv(interp, s3, {})
                    for k, inv in enumerate(spec.inv):
                        interp.add_obligation(s3, f"loop{ordinal}/inv-preserve/{k}", env3.eval_bool(inv),
                                              kind="inv-preserve")
                    if measure0 is not None:
                        m1 = env3.eval_int(spec.decreases)
                        interp.add_obligation(s3, f"loop{ordinal}/decreases", z3.And(m1 < measure0, measure0 >= 0),
                                              kind="decreases")
                elif sig[0] == BRK:
                    yield s3, None
                else:
                    yield s3, sig


# ---------------------------------------------------------------------------------------------- quantified bodies
def quantified_map(interp: Interp, st: St, seq: SymSeq, body, seq_src=None):
    """Evaluate `body(st, element) -> paths` once for an arbitrary index and lift to the whole sequence.

    yields (st, ('ok', ('term', ys))) with  forall j. ok(j) and ys[j] == result(j)
        or (st, ('raise', V))         with  k the first index whose evaluation raises.
    """
    ctx = interp.ctx
    n = seq.length
    j = ctx.fresh_int("qj")
    base = st.fork()
    mark = len(base.pc)
    fresh_before = ctx.fresh
    heap_keys = set(base.heap.keys())
    base.assume(z3.And(j >= 0, j < n))
    el = seq.elem(base, j)
    interp.loop_index.append(j)
    try:
        paths = list(body(base, el))
    finally:
        interp.loop_index.pop()
    oks, fails = [], []
    for s, r in paths:
        if set(s.heap.keys()) != heap_keys or len(s.mods) != len(st.mods):
            raise Unsupported("side effect inside a quantified comprehension body")
        delta = z3.And(*s.pc[mark:]) if len(s.pc) > mark else z3.BoolVal(True)
        if r[0] == "ok":
            oks.append((delta, interp.term(s, r[1]), s))
        else:
            fails.append((delta, r[1], s))
    fresh_after = ctx.fresh
    new_names = {f"!{k}" for k in range(fresh_before + 1, fresh_after + 1)}

    def mentions_fresh(e):
        todo, seen = [e], set()
        while todo:
            x = todo.pop()
            if x.get_id() in seen:
                continue
            seen.add(x.get_id())
            if z3.is_const(x) and x.decl().kind() == z3.Z3_OP_UNINTERPRETED:
                nm = x.decl().name()
                if "!" in nm and ("!" + nm.rsplit("!", 1)[1]) in new_names and not nm.startswith("qj"):
                    return True
            todo.extend(x.children())
        return False
    jj = z3.Int("jj!")
    elt = None
    try:
        elt = interp.term(base, el)
    except Unsupported:
        elt = None

    def pats(ys=None):
        out = []
        if ys is not None:
            out.append(T.F_at(ys, jj))
        if elt is not None and not z3.is_const(elt):
            e2 = z3.substitute(elt, (j, jj))
            if not z3.eq(e2, elt):
                out.append(e2)
        return out
    # --- all succeed
    if oks:
        for d, rt, _ in oks:
            if mentions_fresh(d) or mentions_fresh(rt):
                raise Unsupported("fresh symbols on a success path of a quantified body")
        if len(oks) == 1 and not fails and elt is not None and z3.eq(oks[0][1], elt) and seq_src is not None:
            # identity map (e.g. `[render_trail_as_note(e) for e in errors]`): the result has the same elements
            s_id = st.fork()
            yield s_id, ("ok", ("same", seq_src))
            return
        s_ok = st.fork()
        ys = ctx.fresh_val("ys")
        okcond = z3.Or(*[d for d, _, _ in oks])
        rng = z3.And(jj >= 0, jj < n)
        s_ok.assume(T.F_len(ys) == n)
        s_ok.assume(z3.ForAll([jj], z3.Implies(rng, z3.substitute(okcond, (j, jj))), patterns=pats(ys)))
        for d, rt, _ in oks:
            s_ok.assume(z3.ForAll([jj], z3.Implies(z3.And(rng, z3.substitute(d, (j, jj))),
                                                   T.F_at(ys, jj) == z3.substitute(rt, (j, jj))),
                                  patterns=[T.F_at(ys, jj)]))
        s_ok.note("all elements ok")
        if interp.check_sat(s_ok):
            yield s_ok, ("ok", ("term", ys))
    # --- first failure at k
    for d, ev, sp in fails:
        s_f = st.fork()
        k = ctx.fresh_int("kfail")
        s_f.assume(z3.And(k >= 0, k < n))
        if oks:
            okcond = z3.Or(*[dd for dd, _, _ in oks])
            pp = pats()
            s_f.assume(z3.ForAll([jj], z3.Implies(z3.And(jj >= 0, jj < k), z3.substitute(okcond, (j, jj))),
                                 **({"patterns": pp} if pp else {})))
        else:
            s_f.assume(k == 0)
        s_f.assume(z3.substitute(d, (j, k)))
        et = z3.substitute(interp.term(sp, ev), (j, k))
        e2 = V("sym", t=et, ty=ev.ty, tag=ev.tag)
        s_f.live.update({r_: c_ for r_, c_ in sp.live.items() if r_ not in s_f.live})
        s_f.note("first failure at symbolic index")
        e2.tag = ("fail_index", k, ev.tag)
        if interp.check_sat(s_f):
            yield s_f, (RAISE, e2)


def drain_map(interp: Interp, st: St, f: V, itv: V):
    items = as_concrete_items(interp, st, itv)
    if items is not None:
        def go(i, s, acc):
            if i == len(items):
                yield s, ("ok", ("items", acc))
                return
            for s1, r in interp.call(s, f, [items[i]], {}):
                if r[0] != "ok":
                    yield s1, r
                else:
                    yield from go(i + 1, s1, acc + [r[1]])
        yield from go(0, st, [])
        return
    for s, r in as_sym_seq(interp, st, itv):
        if r[0] != "ok":
            yield s, r
            continue
        yield from quantified_map(interp, s, r[1], lambda s2, el: interp.call(s2, f, [el], {}))


def eval_multi_comprehension(interp: Interp, node, st: St, kind):
    """several `for` clauses: every iterable must have statically known content (unrolled)"""
    gens = node.generators

    def go(gi, s, acc):
        if gi == len(gens):
            if kind == "dict":
                for s2, rr in interp.eval_list([node.key, node.value], s):
                    yield (s2, rr) if rr[0] != "ok" else (s2, ("ok", acc + [V("tuple", rr[1])]))
            else:
                for s2, rr in interp.eval(node.elt, s):
                    yield (s2, rr) if rr[0] != "ok" else (s2, ("ok", acc + [rr[1]]))
            return
        g = gens[gi]
        for s1, r in interp.eval(g.iter, s):
            if r[0] != "ok":
                yield s1, r
                continue
            x = r[1]
            if x.kind == "gen":
                res = list(iterate_concrete(interp, s1, x))
            else:
                items = as_concrete_items(interp, s1, x)
                if items is None:
                    raise Unsupported("comprehension with several generators over a symbolic sequence")
                res = [(s1, ("ok", items))]
            for s2, r2 in res:
                if r2[0] != "ok":
                    yield s2, r2
                    continue

                def each(i, s3, acc3, items=r2[1]):
                    if i == len(items):
                        yield s3, ("ok", acc3)
                        return
                    for s4, sig in interp.assign(g.target, items[i], s3):
                        if sig is not None:
                            yield s4, sig
                            continue

                        def conds(ci, s5):
                            if ci == len(g.ifs):
                                yield s5, True
                                return
                            for s6, rr in interp.eval(g.ifs[ci], s5):
                                if rr[0] != "ok":
                                    yield s6, rr
                                    continue
                                for s7, b in interp.truth(s6, rr[1]):
                                    if b:
                                        yield from conds(ci + 1, s7)
                                    else:
                                        yield s7, False
                        for s5, c in conds(0, s4):
                            if c is True:
                                for s6, r6 in go(gi + 1, s5, acc3):
                                    if r6[0] != "ok":
                                        yield s6, r6
                                    else:
                                        yield from each(i + 1, s6, r6[1])
                            elif c is False:
                                yield from each(i + 1, s5, acc3)
                            else:
                                yield s5, c
                yield from each(0, s2, acc)
    saved = dict(st.env)
    for s, r in go(0, st, []):
        s.env = dict(saved)
        if r[0] != "ok":
            yield s, r
            continue
        items = r[1]
        from .builtins_theory import make_sequence
        if kind == "list":
            yield s, ("ok", interp.new_list(s, items))
        elif kind == "gen":
            v = V("tuple", items)
            yield s, ("ok", v)
        elif kind == "set":
            yield s, ("ok", make_sequence(interp, s, set, ("items", items)))
        else:
            yield s, ("ok", interp.new_dict(s, [tuple(p.d) for p in items]))


def eval_comprehension(interp: Interp, node, st: St, kind):
    if len(node.generators) != 1:
        yield from eval_multi_comprehension(interp, node, st, kind)
        return
    if node.generators[0].is_async:
        raise Unsupported("async comprehension")
    g = node.generators[0]
    for s0, r in interp.eval(g.iter, st):
        if r[0] != "ok":
            yield s0, r
            continue
        x = r[1]
        if kind == "gen":
            def thunk(s, x=x, env=dict(s0.env)):
                # a generator expression is a closure: its body sees the environment it was created in, wherever it is
                # consumed (e.g. inside a callee it was passed to)
                saved = s.env
                s.env = dict(env)
                for s1, r1 in run_comprehension(interp, node, g, s, x, kind):
                    s1.env = dict(saved)
                    yield s1, r1
            gv = V("gen", thunk)
            gv.tag = ("genexp", node, g, x, dict(s0.env))
            yield s0, ("ok", gv)
        else:
            try:
                comp_results = list(run_comprehension(interp, node, g, s0.fork() if kind == "dict" else s0, x, kind))
            except Unsupported:
                if kind == "set" and g.ifs and as_concrete_items(interp, s0, x) is None:
                    # a filtered set comprehension over a symbolic sequence: a NEW set of unknown content (over-approximation; its
                    # filters / element expression are assumed effect-free and total)
                    interp.ctx.assume_note("filtered set comprehension over a symbolic sequence abstracted: a new set of unknown content")
                    t = interp.ctx.fresh_val("setcomp")
                    s0.assume(T.F_cls(t) == interp.reg.cls(set))
                    v = V("sym", t=t, ty=set)
                    v.tag = ("fresh_container",)
                    yield s0, ("ok", v)
                    continue
                if kind != "dict" or as_concrete_items(interp, s0, x) is not None:
                    raise
                # a dict comprehension whose body the engine cannot quantify: a NEW dict of unknown content; exceptions and
                # effects of the body are NOT modelled (stated in the evidence)
                from .verify import new_symbolic_dict
                interp.ctx.assume_note("dict comprehension over a symbolic sequence abstracted: a new dict of unknown content; its body "
                                       "is assumed not to raise and to have no effect")
                yield s0, ("ok", new_symbolic_dict(interp, s0, "dcomp", fresh=True))
                continue
            for s1, r1 in comp_results:
                if r1[0] != "ok":
                    yield s1, r1
                    continue
                from .builtins_theory import make_sequence
                sv = r1[1]
                if kind == "list":
                    if sv[0] == "items":
                        yield s1, ("ok", interp.new_list(s1, sv[1]))
                    elif sv[0] == "same":
                        hid = new_id()
                        s1.heap[hid] = HList(None, sv[1][0], sv[1][1])
                        yield s1, ("ok", V("ref", hid))
                    else:
                        hid = new_id()
                        j = z3.Int("j!")
                        interp.ctx.fresh += 1
                        arr = z3.Const(f"lc_arr!{interp.ctx.fresh}", z3.ArraySort(T.I, T.Val))
                        s1.assume(z3.ForAll([j], z3.Select(arr, j) == T.F_at(sv[1], j),
                                            patterns=[z3.Select(arr, j), T.F_at(sv[1], j)]))
                        s1.heap[hid] = HList(None, T.F_len(sv[1]), arr)
                        yield s1, ("ok", V("ref", hid))
                elif kind == "set":
                    yield s1, ("ok", make_sequence(interp, s1, set, sv))
                elif kind == "dict":
                    if sv[0] != "items":
                        # over a symbolic sequence: a NEW dict whose content is left unconstrained (sound over-approximation;
                        # enough for freshness / frame statements)
                        from .verify import new_symbolic_dict
                        interp.ctx.assume_note("a dict comprehension over a symbolic sequence yields a new dict of unknown content")
                        yield s1, ("ok", new_symbolic_dict(interp, s1, "dcomp", fresh=True))
                        continue
                    bad = None
                    for p in sv[1]:
                        k = p.d[0]
                        if k.kind == "const" and k.shadow is None:
                            try:
                                hash(k.d)
                            except TypeError as e:
                                bad = e
                                break
                    if bad is not None:
                        yield s1, (RAISE, interp.exc_from_instance(s1, bad))
                    else:
                        yield s1, ("ok", interp.new_dict(s1, [tuple(p.d) for p in sv[1]]))


def run_comprehension(interp, node, g, st, x: V, kind):
    """yield (st, ('ok', ('items', [V]) | ('term', ys)) | ('raise', V))"""
    def body(s, el):
        saved = dict(s.env)
        for s1, sig in interp.assign(g.target, el, s):
            if sig is not None:
                yield s1, sig
                continue

            def conds(i, s2):
                if i == len(g.ifs):
                    yield s2, True
                    return
                for s3, rr in interp.eval(g.ifs[i], s2):
                    if rr[0] != "ok":
                        yield s3, rr
                        continue
                    for s4, b in interp.truth(s3, rr[1]):
                        if b:
                            yield from conds(i + 1, s4)
                        else:
                            yield s4, False
            for s2, c in conds(0, s1):
                if c is True:
                    if kind == "dict":
                        for s3, rr in interp.eval_list([node.key, node.value], s2):
                            s3.env = dict(saved)
                            yield s3, (rr if rr[0] != "ok" else ("ok", V("tuple", rr[1])))
                    else:
                        for s3, rr in interp.eval(node.elt, s2):
                            s3.env = dict(saved)
                            yield s3, rr
                elif c is False:
                    s2.env = dict(saved)
                    yield s2, ("skip", None)
                else:
                    s2.env = dict(saved)
                    yield s2, c
    if x.kind == "gen":
        for s1, r1 in iterate_concrete(interp, st, x):
            if r1[0] != "ok":
                yield s1, r1
            else:
                yield from _comp_concrete(interp, s1, r1[1], body)
        return
    items = as_concrete_items(interp, st, x)
    if items is not None:
        yield from _comp_concrete(interp, st, items, body)
        return
    if x.shadow is not None and x.root is not None and kind != "dict":
        nat = _native_comprehension(interp, node, g, st, x)
        if nat is not None:
            yield from nat
            return
    if g.ifs:
        raise Unsupported("filtered comprehension over a symbolic sequence")
    for s, r in as_sym_seq(interp, st, x):
        if r[0] != "ok":
            yield s, r
            continue
        src = None
        if x.kind == "ref" and isinstance(s.heap[x.d], HList) and s.heap[x.d].items is None:
            src = (s.heap[x.d].ln, s.heap[x.d].arr)
        yield from quantified_map(interp, s, r[1], body, seq_src=src)


_PURE_BUILTINS = {"len", "str", "int", "ord", "chr", "repr", "isinstance", "bool", "abs", "min", "max", "type", "tuple", "float"}


def _native_comprehension(interp, node, g, st, x):
    """A comprehension over a datum of D whose element expression and filters are PURE (constants, the loop variable,
    constant locals, string/number operators, method calls on those, a few side-effect-free builtins) is evaluated by
    CPython itself on the representative of every live cell — the same probing as for any other built-in operation.
    Returns None when the comprehension is not of that shape."""
    import builtins as _b
    if not isinstance(g.target, ast.Name):
        return None
    tname = g.target.id
    consts = {}
    for sub in [node.elt] + list(g.ifs):
        for n in ast.walk(sub):
            if isinstance(n, (ast.Lambda, ast.Await, ast.Yield, ast.YieldFrom, ast.NamedExpr, ast.ListComp, ast.SetComp, ast.DictComp,
                              ast.GeneratorExp, ast.Starred)):
                return None
            if isinstance(n, ast.Call):
                if isinstance(n.func, ast.Name):
                    if n.func.id not in _PURE_BUILTINS or n.func.id in st.env:
                        return None
                elif not isinstance(n.func, ast.Attribute):
                    return None
            if isinstance(n, ast.Name) and n.id != tname:
                if n.id in st.env:
                    v = st.env[n.id]
                    if v is None or v.kind != "const" or v.shadow is not None or callable(v.d):
                        return None
                    consts[n.id] = v.d
                elif not hasattr(_b, n.id):
                    g_ = st.env.get("$globals") or interp.globals
                    if n.id not in g_ or callable(g_[n.id]):
                        return None
                    consts[n.id] = g_[n.id]
    code = compile(ast.Expression(body=ast.fix_missing_locations(ast.ListComp(
        elt=node.elt, generators=[ast.comprehension(target=g.target, iter=ast.Name(id="__it__", ctx=ast.Load()), ifs=g.ifs, is_async=0)]))),
        "<pure comprehension>", "eval")

    def fn(it, consts=consts, code=code):
        return tuple(eval(code, {"__builtins__": _b}, {**consts, "__it__": it}))  # noqa: S307

    def gen():
        for s, r in interp.shadow_apply(st, fn, [x], name=f"pure_comprehension_{node.lineno}_{node.col_offset}"):
            if r[0] != "ok":
                yield s, r
            else:
                yield s, ("ok", r[1])
    return gen()


def next_of_genexp(interp: Interp, st: St, gv: V, default=None):
    """next(<generator expression over a symbolic sequence>): the value for the FIRST element that passes the filters;
    StopIteration (or the default) when none does.  Filters and element expression must be effect-free single-path expressions."""
    _, node, g, x, env = gv.tag
    if len(node.generators) != 1 or not isinstance(g.target, ast.Name):
        raise Unsupported("next() of a generator expression of this shape")
    res = list(as_sym_seq(interp, st, x))
    if len(res) != 1 or res[0][1][0] != "ok":
        raise Unsupported("next() over a generator whose source may fail")
    s, seq = res[0][0], res[0][1][1]
    j = interp.ctx.fresh_int("nextj")

    def eval_at(idx, expr_nodes):
        """formula / value of the expressions with the loop variable bound to element idx"""
        s2 = s.fork()
        s2.env = dict(env)
        s2.env[g.target.id] = seq.elem(s2, idx)
        n_pc = len(s2.pc)
        outs = []
        for en in expr_nodes:
            rr = list(interp.eval(en, s2))
            if len(rr) != 1 or rr[0][1][0] != "ok":
                raise Unsupported("next(): filter / element expression is not a single-path expression")
            s2 = rr[0][0]
            outs.append(rr[0][1][1])
        return s2, outs, list(s2.pc[n_pc:])
    s_j, conds, extra = eval_at(j, list(g.ifs))
    cond_parts = []
    for c in conds:
        tr = list(interp.truth(s_j.fork(), c))
        if c.kind == "bool":
            cond_parts.append(c.d)
        elif c.kind == "const":
            cond_parts.append(z3.BoolVal(bool(c.d)))
        else:
            cond_parts.append(T.F_truth(interp.term(s_j, c)))
    cond_j = z3.And(*cond_parts) if cond_parts else z3.BoolVal(True)
    k = interp.ctx.fresh_int("nextk")
    i = z3.Int("ni!")
    # found
    s_f = s.fork()
    s_f.assume(z3.And(k >= 0, k < seq.length, z3.substitute(cond_j, (j, k))))
    for f in extra:
        s_f.assume(z3.substitute(f, (j, k)))
    s_f.assume(z3.ForAll([i], z3.Implies(z3.And(i >= 0, i < k), z3.Not(z3.substitute(cond_j, (j, i))))))
    if interp.check_sat(s_f):
        s_f.env = dict(env)
        s_f.env[g.target.id] = seq.elem(s_f, k)
        rr = list(interp.eval(node.elt, s_f))
        if len(rr) != 1 or rr[0][1][0] != "ok":
            raise Unsupported("next(): element expression is not a single-path expression")
        s_r = rr[0][0]
        s_r.env = dict(st.env)
        yield s_r, ("ok", rr[0][1][1])
    # not found
    s_n = s.fork()
    s_n.assume(z3.ForAll([i], z3.Implies(z3.And(i >= 0, i < seq.length), z3.Not(z3.substitute(cond_j, (j, i))))))
    if interp.check_sat(s_n):
        s_n.env = dict(st.env)
        if default is not None:
            yield s_n, ("ok", default)
        else:
            yield s_n, (RAISE, interp.make_exception(s_n, StopIteration, []))


def _comp_concrete(interp, st, items, body):
    def go(i, s, acc):
        if i == len(items):
            yield s, ("ok", ("items", acc))
            return
        for s1, r in body(s, items[i]):
            if r[0] == "ok":
                yield from go(i + 1, s1, acc + [r[1]])
            elif r[0] == "skip":
                yield from go(i + 1, s1, acc)
            else:
                yield s1, r
    yield from go(0, st, [])
