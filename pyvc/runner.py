"""Property-level runner: selects the units of a property, verifies them in a process pool, triages failures
(replay, known findings), writes the evidence file and decides the exit code (DESIGN.md §4)."""
from __future__ import annotations

import importlib
import json
import multiprocessing as mp
import os
import pkgutil
import sys
import time
import traceback

VERIF = os.path.dirname(os.path.dirname(os.path.abspath(__file__)))
# VERIF_OUT: where evidence/ and replays/ go (default: /verif itself).  Only tools/psweep.sh sets it, so that seeded changes can be
# swept in parallel on scratch worktrees without touching the committed evidence; registered checks never set it.
OUT = os.environ.get("VERIF_OUT", VERIF)
EXIT_OK, EXIT_VIOLATION, EXIT_UNDECIDED, EXIT_CRASH = 0, 1, 2, 3


def load_contracts():
    from . import extract
    extract.ensure_repo_on_path()
    import contracts
    for m in pkgutil.iter_modules(contracts.__path__):
        importlib.import_module("contracts." + m.name)
    from .contracts import BY_PROP, REGISTRY
    return REGISTRY, BY_PROP


def _slug(s):
    return "".join(ch if ch.isalnum() or ch in "-_." else "_" for ch in s)[:150]


def apply_env(env):
    """Sets the process environment a unit is verified under (built-ins probed, clauses evaluated, witnesses replayed, e.g. TZ:
    the property quantifies over it) and returns what restores the previous one (pool workers are reused)."""
    if not env:
        return None
    import time as _time
    saved = {k: os.environ.get(k) for k in env}
    for k, v in env.items():
        if v is None:
            os.environ.pop(k, None)
        else:
            os.environ[k] = v
    if "TZ" in env:
        _time.tzset()
    return saved


def unit_worker(job):
    """Runs in a pool process.  Returns a list of plain dicts (one per receiver instance)."""
    name, timeout_ms, prop = job
    saved_env = None
    try:
        REGISTRY, _ = load_contracts()
        from . import extract, replay
        from .verify import run_unit
        c = REGISTRY[name]
        saved_env = apply_env(c.env)
        mod = extract.import_module(c.file)
        out = []
        lookup = None
        for rep in run_unit(c, timeout_ms=timeout_ms, lookup=lookup):
            d = {
                "unit": rep.name, "file": c.file, "qual": c.qual, "label": rep.label, "src": rep.src,
                "decorators": rep.decorators, "paths": rep.n_paths, "time": round(rep.time, 3),
                "solver_time": round(rep.solver_time, 3), "bounded": rep.bounded, "error": rep.error,
                "assumptions": sorted(rep.assumptions), "covers": rep.covers, "obligations": [], "failures": [],
                "outcomes": rep.outcomes, "notes": c.notes,
            }
            for o in rep.obls:
                d["obligations"].append({"name": o.name, "clause": o.clause, "props": o.props, "status": o.status,
                                         "backend": o.backend, "time": round(o.time, 4), "kind": o.kind})
                if o.status in ("failed", "unknown"):
                    d["failures"].append(triage(c, mod, rep, o))
            d["xcheck"] = xcheck(c, mod, rep, prop)
            if rep.error is not None and rep.error[0] in ("unsupported", "spec"):
                # the code left the accepted subset: nothing is proved, but the contract is still evaluated natively on the
                # scenario catalogue — a native violation is a violation however it was found
                d["failures"].extend(native_only(c, mod, rep, prop))
            out.append(d)
        return out
    except Exception:  # noqa: BLE001
        return [{"unit": name, "error": ("crash", traceback.format_exc()), "obligations": [], "failures": [],
                 "covers": [], "bounded": [], "assumptions": [], "paths": 0, "time": 0, "solver_time": 0,
                 "file": "?", "qual": "?", "label": "", "src": None, "decorators": [], "outcomes": {}, "notes": []}]
    finally:
        if saved_env is not None:
            apply_env(saved_env)


def native_only(c, mod, rep, prop):
    from . import native
    clauses = {k: v for k, v in c.post.items() if prop in c.props_of(k)}
    if not clauses:
        return []
    try:
        if c.scenarios is not None:
            wit, n, errs = native.run_method_scenarios(c, mod, clauses, stop_after=2)
        elif list(c.params.values()) == ["D"] and (c.via is not None or c.native is not None):
            wit, n, errs = native.falsify(c, mod, rep.label, clauses, limit=300, stop_after=2)
        else:
            return []
    except Exception:  # noqa: BLE001
        return []
    out = []
    for w in (wit or [])[:6]:
        out.append({"obligation": f"{rep.name}/{w['clause']}/native", "clause": w["clause"], "props": c.props_of(w["clause"]),
                    "kind": "post", "backend": "native-scenarios", "solver_status": "failed", "havoc": [], "model": None,
                    "witnesses": [w], "note": "unit outside the accepted subset; contract violated natively"})
    return out


def xcheck(c, mod, rep, prop):
    """CPython cross-check: the contract clauses evaluated natively on a sample of scenarios (DESIGN.md §8.3)."""
    import os
    if rep.error is not None:
        return None
    from . import native
    tier = os.environ.get("VERIF_TIER_EFFECTIVE", "quick")
    if c.scenarios is not None:
        clauses = {k: v for k, v in c.post.items() if prop in c.props_of(k)}
        try:
            wit, n, errs = native.run_method_scenarios(c, mod, clauses, stop_after=2)
        except Exception:  # noqa: BLE001
            return {"error": traceback.format_exc()[-600:]}
        failed_clauses = {o.clause for o in rep.obls if o.status != "discharged"}
        bad = [] if failed_clauses else wit
        return {"scenarios": n, "disagreements": bad[:5], "eval_errors": errs[:5], "n_eval_errors": len(errs)}
    dparams = [n for n, k in c.params.items() if k == "D"]
    if dparams != ["data"] or len(c.params) != 1:
        return None
    if c.via is None and c.native is None:
        return None
    clauses = {k: v for k, v in c.post.items() if prop in c.props_of(k)}
    if c.frame and prop in c.props_of("modifies-nothing"):
        clauses["modifies-nothing"] = "True"
    if not clauses:
        return None
    try:
        wit, n, errs = native.falsify(c, mod, rep.label, clauses, limit=(260 if tier == "quick" else None),
                                      seed=int(os.environ.get("VERIF_SEED", "0") or 0), stop_after=2)
    except Exception:  # noqa: BLE001
        return {"error": traceback.format_exc()[-600:]}
    if wit is None:
        return None
    status = {o.clause: o.status for o in rep.obls}
    failed_clauses = {o.clause for o in rep.obls if o.status != "discharged"}
    # clauses proved *relative to* a failed invariant / callee precondition are not claimed: no disagreement then
    bad = [] if failed_clauses else [w for w in wit if w["clause"] not in failed_clauses]
    return {"scenarios": n, "disagreements": bad[:5], "eval_errors": errs[:5], "n_eval_errors": len(errs)}


def triage(c, mod, rep, o):
    """Concretise + replay one failed obligation."""
    from . import replay
    f = {"obligation": o.name, "clause": o.clause, "props": o.props, "kind": o.kind, "backend": o.backend,
         "solver_status": o.status,
         "havoc": list(o.st.havoc), "model": str(o.model)[:1500] if o.model is not None else None,
         "witnesses": None, "note": o.note}
    try:
        dparams = [n for n, k in c.params.items() if k == "D"]
        others = [n for n, k in c.params.items() if k != "D"]
        if getattr(c, "replayer", None) is not None:
            f["witnesses"] = c.replayer(c, mod, rep, o)
        elif c.scenarios is not None:
            from . import native
            clauses = {o.clause: c.post[o.clause]} if o.clause in c.post else dict(c.post)
            wit, n, errs = native.run_method_scenarios(c, mod, clauses)
            f["witnesses"] = wit
            f["replay_kind"] = f"native method scenarios ({n})"
            f["replay_eval_errors"] = errs[:3]
            f["unconfirmed_is_undecided"] = True
        elif c.via is not None and dparams == ["data"] and not others:
            from . import native
            if o.kind in ("post", "frame") and o.clause in c.post:
                clauses = {o.clause: c.post[o.clause]}
            elif o.kind == "frame":
                clauses = {"modifies-nothing": "True"}
            else:
                clauses = dict(c.post)      # a broken invariant / callee precondition shows up in some post-condition
            wit, n, errs = native.falsify(c, mod, rep.label, clauses)
            f["witnesses"] = wit
            f["replay_kind"] = f"native scenario catalogue ({n} scenarios: inputs x stub sub-loader behaviours)"
            f["replay_eval_errors"] = errs[:3]
            f["unconfirmed_is_undecided"] = True
        elif len(dparams) == 1 and not others and c.native is not None and o.kind in ("post", "frame"):
            v = rep.path_meta[o.path][2].extra[dparams[0]]
            cells = o.st.live.get(v.root, frozenset())
            expr = c.post.get(o.clause)
            f["witnesses"] = replay.replay_cells(c, mod, rep.label, o.clause, expr, dparams[0], cells)
            f["replay_kind"] = "all live cells of the failing path tried natively"
    except Exception:  # noqa: BLE001
        f["replay_error"] = traceback.format_exc()
    return f


def load_known_findings():
    p = os.path.join(VERIF, "known_findings.json")
    if not os.path.exists(p):
        return []
    with open(p) as fh:
        return json.load(fh).get("entries", [])


def finding_matches(entry, prop, unit, clause, witness):
    import fnmatch
    eu = entry.get("unit", "")
    unit_ok = eu == unit or (any(ch in eu for ch in "*?") and fnmatch.fnmatchcase(unit, eu))
    ew = entry.get("witness", "")
    wit_ok = ew in (witness, "*") or (any(ch in ew for ch in "*?[") and fnmatch.fnmatchcase(str(witness), ew))
    return (entry.get("status") == "finding" and entry.get("property") == prop and unit_ok
            and entry.get("clause") == clause and wit_ok)


def run_property(prop, tier="quick", seed=0, extra_checks=None, level_text=None, only=None):
    t0 = time.time()
    REGISTRY, BY_PROP = load_contracts()
    timeout_ms = 10000 if tier == "quick" else 60000
    os.environ["VERIF_TIER_EFFECTIVE"] = tier
    units = [c for c in BY_PROP.get(prop, []) if only is None or only in c.name]
    jobs = [(c.name, timeout_ms, prop) for c in units]
    results = []
    if jobs:
        nproc = min(16, len(jobs), os.cpu_count() or 4)
        if nproc > 1 and os.environ.get("VERIF_SERIAL") != "1":
            with mp.get_context("fork").Pool(nproc) as pool:
                for r in pool.imap_unordered(unit_worker, jobs):
                    results.extend(r)
        else:
            for j in jobs:
                results.extend(unit_worker(j))
    results.sort(key=lambda d: d["unit"])
    extra = []
    if extra_checks is not None:
        extra = extra_checks(tier, seed)
    return finish(prop, tier, seed, results, extra, t0, level_text, partial=only is not None)


def finish(prop, tier, seed, results, extra, t0, level_text=None, partial=False):
    known = load_known_findings()
    lines = []
    exit_code = EXIT_OK
    n_obl = n_dis = 0
    by_backend = {}
    undecided, crashes, violations, known_hits = [], [], [], []
    functions, bounded, assumptions, samples = [], [], set(), []
    solver_time = 0.0
    covers_ok = covers_total = 0
    xcheck_scen = xcheck_errs = 0
    for d in results:
        if d["error"] is not None:
            kind, msg = d["error"]
            if kind == "crash":
                crashes.append((d["unit"], msg))
            else:
                undecided.append((d["unit"], f"{kind}: {msg}"))
        obls = [o for o in d["obligations"] if prop in (o["props"] or [])]
        n_obl += len(obls)
        for o in obls:
            if o["status"] == "discharged":
                n_dis += 1
                by_backend[o["backend"]] = by_backend.get(o["backend"], 0) + 1
            elif o["status"] == "unknown":
                pass          # triaged below like a failed obligation (native confirmation decides)
        solver_time += d["solver_time"]
        for cv, ok in d["covers"]:
            covers_total += 1
            covers_ok += bool(ok)
            if not ok:
                undecided.append((d["unit"], f"cover clause not reachable: {cv}"))
        if d["bounded"]:
            bounded.append({"unit": d["unit"], "loops": d["bounded"]})
        assumptions.update(d["assumptions"])
        functions.append({"unit": d["unit"], "file": d["file"], "qual": d["qual"], "src": d["src"],
                          "dropped_decorators": d["decorators"], "paths": d["paths"],
                          "obligations": len(obls), "outcomes": d["outcomes"]})
        if obls and len(samples) < 6:
            samples.append({"obligation": obls[0]["name"], "status": obls[0]["status"], "backend": obls[0]["backend"],
                            "time_s": obls[0]["time"]})
        xc = d.get("xcheck")
        if xc:
            if xc.get("error"):
                crashes.append((d["unit"], "native cross-check crashed: " + xc["error"]))
            else:
                xcheck_scen += xc["scenarios"]
                xcheck_errs += xc["n_eval_errors"]
                for w in xc["disagreements"]:
                    # The clause was discharged, yet the REAL code violates it on a concrete input: the witness is a genuine,
                    # replayed violation of the contract (reported as such), and at the same time evidence that the executor's
                    # model is too coarse for this code (e.g. a one-shot iterator consumed twice) — said in the note.
                    sig = w.get("signature") or "?"
                    fake = {"obligation": f"{d['unit']}/{w['clause']}/native-crosscheck", "clause": w["clause"], "props": [prop],
                            "kind": "post", "backend": "native-crosscheck", "solver_status": "discharged", "havoc": [], "model": None,
                            "witnesses": [w],
                            "note": "discharged by the solver but FALSE on the real code for this input: the executor's model does not "
                                    "cover this behaviour (engine/theory disagrees with CPython); the native witness stands"}
                    if any(finding_matches(e_, prop, d["unit"], w["clause"], sig) for e_ in known):
                        known_hits.append((d["unit"], w["clause"], sig, fake))
                    else:
                        violations.append((d["unit"], w["clause"], sig, fake, w))
                for e in xc["eval_errors"][:2]:
                    undecided.append((d["unit"], f"clause not evaluable natively: {e}"))
        for f in d["failures"]:
            if prop not in (f["props"] or []):
                continue
            ws = f["witnesses"]
            if ws is None:
                # not replayable
                if f.get("solver_status") == "unknown":
                    undecided.append((d["unit"], f"solver unknown on {f['obligation']} ({f['backend']}) and no replay available"))
                    continue
                if f["havoc"]:
                    undecided.append((d["unit"], f"failed obligation {f['obligation']} on a havocked path"))
                    continue
                sig = "no-failing-input-found"
                if any(finding_matches(e, prop, d["unit"], f["clause"], sig) for e in known):
                    known_hits.append((d["unit"], f["clause"], sig, f))
                else:
                    violations.append((d["unit"], f["clause"], sig, f, None))
            elif not ws and f.get("unconfirmed_is_undecided"):
                undecided.append((d["unit"], f"obligation {f['obligation']} is not discharged ({f['backend']}) and the "
                                  f"native scenario catalogue found no failing input"))
            elif not ws:
                crashes.append((d["unit"], f"obligation {f['obligation']} fails in the solver but every concrete input of "
                                f"the failing path satisfies the clause natively: engine/theory disagrees with CPython"))
            else:
                for w in ws:
                    sig = w.get("cell") or w.get("signature") or "?"
                    if any(finding_matches(e, prop, d["unit"], f["clause"], sig) for e in known):
                        known_hits.append((d["unit"], f["clause"], sig, f))
                    else:
                        violations.append((d["unit"], f["clause"], sig, f, w))
    for e in extra:
        n_obl += e.get("obligations", 0)
        n_dis += e.get("discharged", 0)
        for k, v in e.get("by_backend", {}).items():
            by_backend[k] = by_backend.get(k, 0) + v
        for u in e.get("undecided", []):
            undecided.append(u)
        for c in e.get("crashes", []):
            crashes.append(c)
        for v in e.get("violations", []):
            sig = v["witness"]
            if any(finding_matches(en, prop, v["unit"], v["clause"], sig) for en in known):
                known_hits.append((v["unit"], v["clause"], sig, v))
            else:
                violations.append((v["unit"], v["clause"], sig, v, v.get("w")))
        functions.extend(e.get("functions", []))
        bounded.extend(e.get("bounded", []))
        assumptions.update(e.get("assumptions", []))
        samples.extend(e.get("samples", [])[:3])
        solver_time += e.get("solver_time", 0.0)

    # ---- output
    seen = set()
    for unit, clause, sig, f in known_hits:
        wild = any(finding_matches(e, prop, unit, clause, sig) and e.get("witness") == "*" for e in known)
        key = (unit, clause, "*" if wild else sig)
        if key in seen:
            continue
        seen.add(key)
        what = next((e.get("what_fails", "") for e in known if finding_matches(e, prop, unit, clause, sig)), "")
        print(f"KNOWN-FINDING: property={prop} unit={unit} clause={clause} witness={sig} {what}")
    seen = set()
    n_viol = 0
    for unit, clause, sig, f, w in violations:
        key = (unit, clause, sig)
        if key in seen:
            continue
        seen.add(key)
        n_viol += 1
        from . import replay
        path = os.path.join(OUT, "replays", prop, _slug(f"{unit}__{clause}__{sig}") + ".json")
        replay.write_replay(path, {"property": prop, "unit": unit, "clause": clause, "witness": sig,
                                   "obligation": f.get("obligation"), "native": w, "solver_model": f.get("model"),
                                   "backend": f.get("backend"), "note": f.get("note"),
                                   "replay_cmd": f"./check replay {path}"})
        suffix = "" if w is not None else " no-failing-input-found"
        print(f"VIOLATION property={prop} replay={path}{suffix}")
        detail = (w or {}).get("native_outcome") or (w or {}).get("detail") or ""
        print(f"  failed obligation: {f.get('obligation')}  witness={sig} {detail}")
    if n_viol:
        exit_code = EXIT_VIOLATION
    if n_obl == 0:
        crashes.append((prop, "zero obligations generated (vacuity guard)"))
    for unit, msg in undecided:
        print(f"UNDECIDED unit={unit}: {msg}")
    for unit, msg in crashes:
        print(f"CHECKER-ERROR unit={unit}: {msg}")
    if exit_code == EXIT_OK and crashes:
        exit_code = EXIT_CRASH
    if exit_code == EXIT_OK and undecided:
        exit_code = EXIT_UNDECIDED
    wall = time.time() - t0
    ev = {
        "property_id": prop, "tier": tier, "seed": int(seed), "level": "proof",
        "coverage": {
            "obligations": n_obl, "discharged": n_dis,
            "checker_cmd": f"./check {prop} --tier {tier}",
            "trusted_base": sorted(assumptions),
            "by_backend": by_backend, "solver_time_s": round(solver_time, 2),
            "functions_under_contract": functions, "bounded": bounded,
            "covers_ok": covers_ok, "covers_total": covers_total,
            "native_crosscheck_scenarios": xcheck_scen,
            "samples": samples or [{"note": "no obligation"}],
            "known_findings_hit": sorted({f"{u}/{c}/{s}" for u, c, s, _ in known_hits}),
            "undecided": [f"{u}: {m}" for u, m in undecided],
            "explanation": level_text or "",
        },
        "assumptions": sorted(assumptions),
        "wall_s": round(wall, 2),
        "violations": n_viol,
    }
    os.makedirs(os.path.join(OUT, "evidence"), exist_ok=True)
    # obligations that fail only because of a listed known finding are reported apart, not as proof obligations
    kf_obls = {f.get("obligation") for _, _, _, f in known_hits if isinstance(f, dict) and f.get("obligation")}
    ev["coverage"]["obligations"] = n_obl - len(kf_obls)
    ev["coverage"]["known_finding_obligations"] = sorted(kf_obls)
    fname = f"{prop}.partial.json" if partial else f"{prop}.json"
    with open(os.path.join(OUT, "evidence", fname), "w") as fh:
        json.dump(ev, fh, indent=1, default=str)
    print(f"{prop} [{tier}]: units={len(results)} obligations={n_obl} discharged={n_dis} "
          f"known-findings={len(known_hits)} violations={n_viol} undecided={len(undecided)} "
          f"errors={len(crashes)} wall={wall:.1f}s exit={exit_code}")
    return exit_code
