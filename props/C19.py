"""C19: generated code treats names and keys purely as data."""
LEVEL_TEXT = ("GENPROG over hostile program families: every loader/dumper/converter generated for hostile field ids, parameter, function "
              "and model names, mapped keys and constants is proved against the C03/C08/C13 contract and has the structure of its "
              "harmless twin; the name sanitizer is proved to return identifiers")


def extra_checks(tier, seed):
    from genprog.check import extra_for_property
    return [extra_for_property("C19", tier, seed, group="hostile"), extra_for_property("C19", tier, seed, group="conv-hostile")]
