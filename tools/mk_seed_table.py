import json, glob, os, re, sys
res = {}
for fn in sys.argv[1:]:
    for line in open(fn):
        m = re.match(r"(C\d\d-\d): (OBSOLETE|STALE patch)", line)
        if m:
            res.setdefault(m.group(1), []).append((None, m.group(2), ""))
            continue
        m = re.match(r"(C\d\d-\d) under (C\d\d): exit=(\d+) violations=(\d+) \| (.*)", line)
        if m:
            sid, prop, ex, nv, first = m.groups()
            res.setdefault(sid, []).append((prop, int(ex), first.strip()))
rows = []
for d in sorted(glob.glob("/verif/seeded/C*-[0-9]")):
    sid = os.path.basename(d)
    meta = json.load(open(d + "/meta.json"))
    summ = " ".join(meta.get("summary", "").split())
    summ = summ[:230] + ("…" if len(summ) > 230 else "")
    files = ", ".join(os.path.basename(f) for f in meta.get("files", []))[:60]
    if meta.get("obsolete"):
        rows.append(f"| {sid} | {summ} | — | obsolete: {str(meta.get('obsolete'))[:120]} |")
        continue
    r = res.get(sid, [])
    caught = [(p, f) for p, ex, f in r if p and ex == 1]
    if caught:
        by = ", ".join(sorted({p for p, _ in caught}))
        first = caught[0][1]
        first = re.sub(r"^C\d\d/", "", first)
        first = first.replace(".json", "")[:110]
        status = f"**{by}**"
        note = f"`{first}`"
    else:
        und = [p for p, ex, _ in r if p and ex == 2]
        status = "not caught" if not und else "undecided (exit 2)"
        note = "; ".join(f"{p}: exit {ex}" for p, ex, _ in r if p)
    if meta.get("rebased"):
        note += " (patch rebased on a later fix commit)"
    rows.append(f"| {sid} | {summ} | {status} | {note} |")
print("| seed | what the change does (from the author's meta.json) | caught by | first reported obligation / note |")
print("|---|---|---|---|")
print("\n".join(rows))
