"""Per-unit driver: extract -> execute symbolically -> generate obligations -> discharge -> (on failure) concretise
and replay on the real code."""
from __future__ import annotations

import ast
import time
import traceback

import z3

from . import extract
from . import theory as T
from .builtins_theory import get_discipline, set_discipline
from .contracts import Contract
from .interp import RAISE, RET, Ctx, Interp
from .speceval import SpecEnv, SpecError
from .values import Closure, HList, SeqIter, St, Unsupported, V, const, new_id


class Obl:
    __slots__ = ("name", "clause", "pc", "goal", "kind", "path", "st", "status", "time", "backend", "model", "props",
                 "note", "smt2")

    def __init__(self, name, clause, pc, goal, kind, path, st):
        self.name = name
        self.clause = clause
        self.pc = pc
        self.goal = goal
        self.kind = kind
        self.path = path
        self.st = st
        self.status = None
        self.time = 0.0
        self.backend = None
        self.model = None
        self.props = None
        self.note = ""
        self.smt2 = None


class UnitReport:
    def __init__(self, contract, label):
        self.contract = contract
        self.label = label
        self.name = contract.name + (f"[{label}]" if label else "")
        self.obls = []
        self.covers = []
        self.n_paths = 0
        self.bounded = []
        self.assumptions = set()
        self.error = None          # ('unsupported'|'crash', message)
        self.src = None            # (sha, first line, last line)
        self.decorators = []
        self.time = 0.0
        self.failures = []         # filled by triage: dicts
        self.solver_time = 0.0
        self.outcomes = {}


def _add_obligation(self, st, name, goal, kind="post"):
    self.obligations.append(Obl(name, name, list(st.pc), goal, kind, len(self.obligations), st.fork()))


Interp.add_obligation = _add_obligation


def _ensure_trails(self, st):
    if st.trail_len is None:
        if getattr(self, "trail0", None) is None:
            self.trail0 = (z3.Const("trail_len0", z3.ArraySort(T.Val, T.I)),
                           z3.Const("trail_arr0", z3.ArraySort(T.Val, z3.ArraySort(T.I, T.Val))))
            k = z3.Const("e!", T.Val)
            self.ctx.extra_axioms.append(z3.ForAll([k], z3.Select(self.trail0[0], k) >= 0,
                                                   patterns=[z3.Select(self.trail0[0], k)]))
        st.trail_len, st.trail_arr = self.trail0


def _havoc_trails(self, st):
    self.ensure_trails(st)
    self.ctx.fresh += 1
    n = self.ctx.fresh
    st.trail_len = z3.Const(f"trail_len!{n}", z3.ArraySort(T.Val, T.I))
    st.trail_arr = z3.Const(f"trail_arr!{n}", z3.ArraySort(T.Val, z3.ArraySort(T.I, T.Val)))


def _bridge(self, st, expr, name):
    """Replace an array expression by a fresh constant `a` with  forall x. a[x] == expr[x]  and patterns on both
    sides, so that E-matching can move between terms over the old and the new array (definitional, sound)."""
    if z3.is_const(expr) and expr.decl().kind() == z3.Z3_OP_UNINTERPRETED:
        return expr
    self.ctx.fresh += 1
    a = z3.Const(f"{name}!{self.ctx.fresh}", expr.sort())
    dom = expr.sort().domain()
    x = z3.Const("bx!", dom)
    # peel the store chain: a[x] == ite(x == i1, v1, ite(x == i2, v2, ... base[x]))
    e = expr
    stores = []
    while z3.is_app(e) and e.decl().kind() == z3.Z3_OP_STORE:
        stores.append((e.arg(1), e.arg(2)))
        e = e.arg(0)
    if not (z3.is_const(e) and e.decl().kind() == z3.Z3_OP_UNINTERPRETED):
        st.assume(a == expr)
        return a
    rhs = z3.Select(e, x)
    for idx, val in reversed(stores):
        rhs = z3.If(x == idx, val, rhs)
    st.assume(z3.ForAll([x], z3.Select(a, x) == rhs, patterns=[z3.Select(a, x), z3.Select(e, x)]))
    for idx, val in stores:
        st.assume(z3.Select(a, idx) == z3.Select(expr, idx))
    return a


def _normalize_arrays(self, st):
    for hid, h in st.heap.items():
        if isinstance(h, HList) and h.items is None:
            h.arr = self.bridge(st, h.arr, "arr")
    if st.trail_len is not None:
        st.trail_len = self.bridge(st, st.trail_len, "trail_len")
        if not (z3.is_const(st.trail_arr) and st.trail_arr.decl().kind() == z3.Z3_OP_UNINTERPRETED):
            # nested array: bridge the outer map only
            st.trail_arr = self.bridge(st, st.trail_arr, "trail_arr")


Interp.bridge = _bridge
Interp.normalize_arrays = _normalize_arrays
Interp.ensure_trails = _ensure_trails
Interp.havoc_trails = _havoc_trails
Interp.trail0 = None


def make_param(interp: Interp, st: St, name, kind):
    ctx = interp.ctx
    if isinstance(kind, tuple) and kind[0] == "const":
        return const(kind[1])
    if isinstance(kind, tuple) and kind[0] == "constf":
        return const(kind[1](interp.current_module))
    if kind == "D":
        return interp.new_datum(st, name)
    if kind in ("LD", "DUMP", "ANY", "TOTAL", "FACTORY"):
        v = V("sym", t=ctx.fresh_val(name))
        set_discipline(interp, v, kind)
        return v
    if kind == "sym":
        return V("sym", t=ctx.fresh_val(name))
    if isinstance(kind, str) and kind.startswith("seq:"):
        v = V("sym", t=ctx.fresh_val(name))
        ctx.disciplines[("elements", v.t.get_id())] = get_discipline(kind[4:])
        return v
    if kind == "int":
        return V("int", ctx.fresh_int(name))
    if kind == "bool":
        return V("bool", ctx.fresh_bool(name))
    if kind == "iterD":
        t = ctx.fresh_val(name + "_seq")
        return V("iter", SeqIter(t, elem_in_D=True), t=ctx.fresh_val(name))
    if kind == "dict":
        return new_symbolic_dict(interp, st, name, fresh=False)
    if isinstance(kind, tuple) and kind[0] == "obj":
        from .values import HObj
        cls = kind[1](interp.current_module) if callable(kind[1]) and not isinstance(kind[1], type) else kind[1]
        attrs = {a: make_param(interp, st, f"{name}_{a}", k) for a, k in kind[2].items()}
        hid = new_id()
        st.heap[hid] = HObj(cls, attrs, fresh=False)
        return V("ref", hid)
    if isinstance(kind, tuple) and kind[0] == "tuple":
        return V("tuple", [make_param(interp, st, f"{name}{i}", k) for i, k in enumerate(kind[1])])
    if kind == "seqD":
        # a tuple/list of data of D of unknown length
        t = ctx.fresh_val(name)
        v = V("sym", t=t, tag=("seqD",))
        return v
    raise ValueError(f"unknown parameter kind {kind!r}")


def new_symbolic_dict(interp, st, name, fresh=False):
    """A well-formed symbolic dict: distinct keys in insertion order, `has` is exactly membership in the key sequence."""
    from .values import HDict
    ctx = interp.ctx
    ctx.fresh += 1
    f = ctx.fresh
    kn = z3.Int(f"{name}_n!{f}")
    karr = z3.Const(f"{name}_keys!{f}", z3.ArraySort(T.I, T.Val))
    vals = z3.Const(f"{name}_vals!{f}", z3.ArraySort(T.Val, T.Val))
    has = z3.Const(f"{name}_has!{f}", z3.ArraySort(T.Val, T.B))
    st.assume(kn >= 0)
    for fact in dict_wf_facts(kn, karr, has):
        st.assume(fact)
    hid = new_id()
    st.heap[hid] = HDict(None, kn, karr, vals, has, fresh)
    return V("ref", hid)


def dict_wf_facts(kn, karr, has):
    i, j = z3.Int("wi!"), z3.Int("wj!")
    x = z3.Const("wx!", T.Val)
    pos = z3.Function("keypos_" + str(has.get_id()), T.Val, T.I)
    return [
        z3.ForAll([i, j], z3.Implies(z3.And(0 <= i, i < j, j < kn), z3.Select(karr, i) != z3.Select(karr, j)),
                  patterns=[z3.MultiPattern(z3.Select(karr, i), z3.Select(karr, j))]),
        z3.ForAll([i], z3.Implies(z3.And(0 <= i, i < kn), z3.Select(has, z3.Select(karr, i))),
                  patterns=[z3.Select(karr, i)]),
        # skolemised converse: a present key sits at its position
        z3.ForAll([x], z3.Implies(z3.Select(has, x), z3.And(0 <= pos(x), pos(x) < kn, z3.Select(karr, pos(x)) == x)),
                  patterns=[z3.Select(has, x)]),
    ]


def solver_for(interp: Interp, timeout_ms, ground=False, supers=None):
    s = z3.Solver()
    s.set("timeout", timeout_ms)
    s.set("smt.mbqi", False)     # E-matching only: satisfiable quantified queries come back `unknown` at once
    bg = T.background(interp.reg)
    if not ground:
        s.add(*bg)
        s.add(*interp.ctx.extra_axioms)
    if supers is not None:
        supers = supers | T.sub_supers(bg)
    s.add(*interp.reg.stable_ground_facts(supers))
    return s


def run_external(kind, path, timeout_ms):
    import subprocess
    if kind == "cvc5":
        cmd = ["/usr/bin/cvc5", "--lang", "smt2", f"--tlimit={int(timeout_ms)}", path]
    else:
        cmd = ["z3-new", "smt.mbqi=false", f"-t:{int(timeout_ms)}", path]
    try:
        r = subprocess.run(cmd, capture_output=True, text=True, timeout=timeout_ms / 1000 + 5)
        out = r.stdout.strip().splitlines()
        return out[0] if out else "unknown"
    except (subprocess.TimeoutExpired, OSError):
        return "unknown"


def race(pending, paths, budget_ms, max_procs=16):
    """Run z3 and cvc5 on every file; as soon as one of the two answers `unsat`/`sat` the sibling is killed."""
    import subprocess
    queue = [(id(o), kind, pth) for o, pth in zip(pending, paths) for kind in ("cvc5", "z3")]
    running = []          # (oid, kind, Popen, t0)
    answers = {id(o): {} for o in pending}
    decided = set()

    def cmd(kind, pth):
        if kind == "cvc5":
            return ["/usr/bin/cvc5", "--lang", "smt2", f"--tlimit={int(budget_ms)}", pth]
        return ["z3-new", "smt.mbqi=false", f"-t:{int(budget_ms)}", pth]
    while queue or running:
        while queue and len(running) < max_procs:
            oid, kind, pth = queue.pop(0)
            if oid in decided:
                continue
            try:
                pr = subprocess.Popen(cmd(kind, pth), stdout=subprocess.PIPE, stderr=subprocess.DEVNULL, text=True)
            except OSError:
                answers[oid][kind] = "unknown"
                continue
            running.append((oid, kind, pr, time.time()))
        still = []
        for oid, kind, pr, t0 in running:
            if oid in decided:
                pr.kill()
                pr.wait()
                continue
            rc = pr.poll()
            if rc is None:
                if time.time() - t0 > budget_ms / 1000 + 5:
                    pr.kill()
                    pr.wait()
                    answers[oid][kind] = "unknown"
                else:
                    still.append((oid, kind, pr, t0))
                continue
            out = (pr.stdout.read() or "").strip().splitlines()
            ans = out[0] if out else "unknown"
            answers[oid][kind] = ans
            if ans in ("unsat", "sat"):
                decided.add(oid)
        running = still
        if running:
            time.sleep(0.02)
    return answers


def second_pass(interp, pending, ground, timeout_ms, supers, ext_budget=None):
    """The quick in-process z3 pass left these open: z3 and cvc5 command-line solvers run in parallel on the SMT-LIB
    text of every open obligation (first `unsat` wins); what is still open gets a candidate model from the ground theory,
    which only a native replay can turn into a violation."""
    if not pending:
        return
    import os
    import tempfile
    from concurrent.futures import ThreadPoolExecutor
    t1 = time.time()
    tmpdir = tempfile.mkdtemp(prefix="pyvc_")
    paths = []
    for n, o in enumerate(pending):
        pth = os.path.join(tmpdir, f"o{n}.smt2")
        with open(pth, "w") as fh:
            fh.write(o.smt2)
        paths.append(pth)
    budget = ext_budget or max(timeout_ms, 20000)
    answers = race(pending, paths, budget)
    for pth in paths:
        try:
            os.unlink(pth)
        except OSError:
            pass
    try:
        os.rmdir(tmpdir)
    except OSError:
        pass
    dt = (time.time() - t1) / max(1, len(pending))
    for o in pending:
        a = answers[id(o)]
        o.time += dt
        if a.get("z3") == "unsat" or a.get("cvc5") == "unsat":
            if "sat" in (a.get("z3"), a.get("cvc5")):
                o.status, o.backend = "unknown", f"solvers disagree: {a}"
            else:
                o.status, o.backend = "discharged", "z3-cli" if a.get("z3") == "unsat" else "cvc5"
            continue
        o.note = (o.note + " " if o.note else "") + f"z3-cli:{a.get('z3')} cvc5:{a.get('cvc5')}"
        if not T.has_quantifier(o.goal):
            ground.push()
            ground.add(*ground_only(o.pc))
            ground.add(z3.Not(o.goal))
            if ground.check() == z3.sat:
                o.model = ground.model()
                o.status, o.backend = "failed", "z3-ground"
            ground.pop()
    for o in pending:
        o.smt2 = None


def discharge(interp, obls, timeout_ms, props_of=None, ext_budget=None):
    """z3 in-process (short budget), then z3/cvc5 command-line race on what is left; returns the ground solver"""
    allf = []
    for o in obls:
        allf.extend(o.pc)
        allf.append(o.goal)
    supers = T.sub_supers(allf)
    z3_first = min(timeout_ms, 400)
    base = solver_for(interp, z3_first, supers=supers)
    ground = solver_for(interp, timeout_ms, ground=True, supers=supers)
    pending = []
    for o in obls:
        if props_of is not None:
            o.props = props_of(o.clause)
        g = z3.simplify(o.goal)
        t1 = time.time()
        if z3.is_true(g):
            o.status, o.backend = "discharged", "simplifier"
        elif z3.is_false(g) and not o.pc:
            o.status, o.backend = "failed", "simplifier"      # a decided (syntactic / native) obligation that does not hold
        else:
            base.push()
            base.add(*o.pc)
            base.add(z3.Not(o.goal))
            res = base.check()
            if res == z3.unsat:
                o.status, o.backend = "discharged", "z3"
            elif res == z3.sat:
                o.status, o.backend = "failed", "z3"
                o.model = base.model()
            else:
                o.status, o.backend = "unknown", "z3:" + base.reason_unknown()
                o.smt2 = base.to_smt2()
                pending.append(o)
            base.pop()
        o.time = time.time() - t1
    second_pass(interp, pending, ground, timeout_ms, supers, ext_budget=ext_budget)
    return ground


def ground_only(fs):
    return [f for f in fs if not (isinstance(f, z3.ExprRef) and T.has_quantifier(f))]


def run_unit(c: Contract, timeout_ms=10000, lookup=None):
    """returns [UnitReport] (one per receiver instance)"""
    reports = []
    tree, _, _ = extract.module_ast(c.file)
    mod = extract.import_module(c.file)
    labels = list(c.via.receivers.items()) if c.via else [("", None)]
    for label, recv in labels:
        rep = UnitReport(c, label)
        t0 = time.time()
        try:
            _run_instance(c, tree, mod, label, recv, rep, timeout_ms, lookup)
        except Unsupported as e:
            rep.error = ("unsupported", str(e))
        except SpecError as e:
            rep.error = ("spec", str(e))
        except Exception:  # noqa: BLE001
            rep.error = ("crash", traceback.format_exc())
        rep.time = time.time() - t0
        reports.append(rep)
    return reports


def _prune_live(interp, s0):
    """a precondition over a datum of D prunes its live cells too (the shadows are consulted per live cell)"""
    for root, live in list(s0.live.items()):
        term = interp.ctx.roots[root]
        keep = [cc for cc in sorted(live) if interp.check_sat(s0, T.F_cell(term) == cc)]
        if len(keep) != len(live):
            interp.narrow(s0, root, keep)


def _run_instance(c, tree, mod, label, recv, rep, timeout_ms, lookup):
    ctx = Ctx()
    qual = c.qual
    if c.resolve_method is not None:
        # the unit is what `<class>.<method>` resolves to on the CURRENT tree (an override added in a subclass is the code that runs)
        cls = c.resolve_method[0](mod)
        owner = next((k for k in cls.__mro__ if c.resolve_method[1] in vars(k)), None)
        if owner is None or owner.__module__ != mod.__name__:
            raise Unsupported(f"{cls.__name__}.{c.resolve_method[1]} resolves outside {c.file}")
        qual = f"{owner.__qualname__}.{c.resolve_method[1]}"
    try:
        target_node = extract.find(tree, qual)
    except LookupError as e:
        raise Unsupported(f"the contract's target no longer exists: {e}")
    _, sha, l0, l1 = extract.segment(c.file, target_node)
    rep.src = (sha, l0, l1)
    rep.decorators = extract.dropped_decorators(target_node)
    interp = Interp(ctx, vars(mod), contract_lookup=lookup, loop_specs=c.loops, unit_name=rep.name)
    if c.max_depth:
        interp.max_depth = c.max_depth
    interp.current_module = mod
    interp.method_disciplines = dict(c.methods)
    interp.prefer_shadow = c.prefer_shadow
    interp.index_safety = c.index_safety
    for oname, spec in c.opaque.items():
        getter = spec[0]
        try:
            target = getter(mod)
        except AttributeError:
            continue          # the abstracted callee no longer exists in the module: nothing to abstract (the code changed)
        interp.opaque[target] = (oname,) + tuple(spec[1:])
    interp.decl_disciplines = dict(c.decl_disciplines)
    interp.loop_ordinals = extract.module_loop_ordinals(tree, target_node)
    st = St()
    starts = []      # (st, Closure, free env V's for spec)
    if c.via is not None:
        entry_node = extract.find(tree, c.via.entry)
        args = []
        if recv is not None:
            args.append(const(recv(mod)))
        for nm, kd in c.via.args.items():
            args.append(make_param(interp, st, nm, kd))
        kinds = dict(c.via.kwargs)
        kinds.update(c.via.instance_kwargs.get(label, {}))
        kwargs = {nm: make_param(interp, st, nm, kd) for nm, kd in kinds.items()}
        entry_names = dict(kwargs)
        entry_names.update({nm: v for nm, v in zip(c.via.args, args[(1 if recv is not None else 0):])})
        is_gen = any(isinstance(n, (ast.Yield, ast.YieldFrom)) for n in Interp.walk_own(entry_node))
        clo = Closure(entry_node, {}, c.via.entry, None, is_gen)
        want = c.qual.split(".")[-1]
        for s1, r in interp.call_closure(st, clo, args, kwargs):
            if r[0] != "ok":
                continue          # factory declined on this path (e.g. CannotProvide) — not the unit under contract
            fv = r[1]
            if fv.kind != "fn" or (getattr(fv.d.node, "name", None) != want and not c.via.any_closure):
                continue
            # what the factory allocated is closure state, not something the loader activation allocated (C20)
            for h_ in s1.heap.values():
                h_.fresh = False
            starts.append((s1, fv.d if not (fv.tag and fv.tag[0] == "memoized") else fv))
        if not starts:
            raise Unsupported(f"factory {c.via.entry} never returned closure {want}")
    else:
        env = {}
        for nm, kd in c.free.items():
            env[nm] = make_param(interp, st, nm, kd)
        is_gen = any(isinstance(n, (ast.Yield, ast.YieldFrom)) for n in Interp.walk_own(target_node))
        starts.append((st, Closure(target_node, env, c.qual, None, is_gen)))

    paths = []
    for s0, clo in starts:
        params = {}
        for nm, kd in c.params.items():
            params[nm] = make_param(interp, s0, nm, kd)
        spec_names = dict(entry_names) if c.via is not None else {}
        clo_env = (clo.d if isinstance(clo, V) else clo).env
        spec_names.update({k_: v_ for k_, v_ in clo_env.items() if isinstance(v_, V)})
        for gn, gk in c.ghosts.items():
            spec_names[gn] = make_param(interp, s0, gn, gk)
        for gn, gv in c.consts.items():
            spec_names[gn] = const(gv)
        spec_names.update(params)
        env0 = SpecEnv(interp, s0, spec_names)
        for rq in c.requires:
            s0.assume(env0.eval_bool(rq))
        if c.requires:
            _prune_live(interp, s0)
        interp.entry_state = s0.fork()
        a = (clo.d if isinstance(clo, V) else clo).node.args
        pos = [params[p.arg] for p in a.posonlyargs + a.args if p.arg in params]
        if a.vararg is not None and a.vararg.arg in params and params[a.vararg.arg].kind == "tuple":
            pos.extend(params[a.vararg.arg].d)         # the contract fixes the number of extra positional arguments
        kw = {p.arg: params[p.arg] for p in a.kwonlyargs if p.arg in params}
        if isinstance(clo, V):
            gen = interp.call(s0, clo, pos, kw)
            clo = clo.d
        elif clo.is_gen:
            envb = interp.bind_params(s0, clo.node, pos, kw, clo.env)
            gen = interp.run_generator(s0, clo, envb)
        else:
            gen = interp.call_closure(s0, clo, pos, kw)
        for s1, r in gen:
            if c.then and r[0] == "ok":
                stage1 = r[1]
                if stage1.kind == "const" and callable(stage1.d):
                    rc = interp.resolve_repo_callable(stage1.d)     # a module-level function of the repository returned as is
                    if rc is None:
                        # the unit hands out a callable that is not repository source (`date.isoformat`, `Decimal.__str__`):
                        # it is applied like any other built-in, i.e. probed per live cell of its argument
                        names2 = dict(spec_names)
                        tp = {nm: make_param(interp, s1, nm, kd) for nm, kd in c.then.items()}
                        names2.update(tp)
                        names2["stage1"] = r[1]
                        for rq in c.then_requires:
                            s1.assume(SpecEnv(interp, s1, names2).eval_bool(rq))
                        _prune_live(interp, s1)
                        for s2, r2 in interp.call(s1, stage1, list(tp.values()), {}):
                            paths.append((s2, r2, names2, False))
                        continue
                    stage1 = V("fn", rc[0])
                if stage1.kind != "fn":
                    raise Unsupported("`then` stage: the unit did not return a closure")
                names2 = dict(spec_names)
                # the free variables of the returned closure are visible to the clauses of the second stage
                names2.update({k_: v_ for k_, v_ in stage1.d.env.items() if isinstance(v_, V) and k_ not in names2})
                tp = {nm: make_param(interp, s1, nm, kd) for nm, kd in c.then.items()}
                names2.update(tp)
                names2["stage1"] = r[1]
                for rq in c.then_requires:
                    s1.assume(SpecEnv(interp, s1, names2).eval_bool(rq))
                if c.then_requires:
                    _prune_live(interp, s1)
                for s2, r2 in interp.call_closure(s1, stage1.d, list(tp.values()), {}):
                    paths.append((s2, r2, names2, False))
            elif c.then:
                pass      # stage 1 itself failed (e.g. the next provider declined): no processor to speak about
            else:
                paths.append((s1, r, spec_names, clo.is_gen))
            if len(paths) > (c.max_paths or ctx.max_paths):
                raise Unsupported("path explosion")
    rep.n_paths = len(paths)
    rep.bounded = list(interp.bounded_loops)

    # ---- obligations from the post-conditions, per path
    obls = list(interp.obligations)
    for o in obls:
        o.name = f"{rep.name}/{o.clause}"
    path_meta = []
    for k, (s1, r, spec_names, is_gen) in enumerate(paths):
        extra = dict(spec_names)
        returned = r[0] == "ok"
        extra["returned"] = returned
        extra["raised"] = not returned
        dummy = V("sym", t=ctx.fresh_val("undef"))
        if is_gen:
            extra["yielded"] = r[1] if returned else dummy
            extra["result"] = const(None) if returned else dummy
        else:
            extra["result"] = r[1] if returned else dummy
        extra["exc"] = r[1] if not returned else dummy
        interp.normalize_arrays(s1)
        env = SpecEnv(interp, s1, extra)
        okey = ("ret" if returned else "raise:" + (r[1].ty.__name__ if r[1].ty else "?"))
        rep.outcomes[okey] = rep.outcomes.get(okey, 0) + 1
        for cname, cexpr in c.post.items():
            goal = env.eval_bool(cexpr)
            o = Obl(f"{rep.name}/{cname}/p{k}", cname, list(s1.pc), goal, "post", k, s1)
            obls.append(o)
        if c.frame:
            o = Obl(f"{rep.name}/modifies-nothing/p{k}", "modifies-nothing", list(s1.pc),
                    z3.BoolVal(not s1.mods), "frame", k, s1)
            o.note = "; ".join(map(str, s1.mods))
            obls.append(o)
        path_meta.append((s1, r, env))
    # ---- covers (vacuity guards)
    cover_goals = []
    for cv in c.cover:
        alts = []
        for (s1, r, env) in path_meta:
            try:
                alts.append((s1, env.eval_bool(cv)))
            except SpecError:
                continue
        cover_goals.append((cv, alts))

    # ---- discharge
    t_solve = time.time()
    ground = discharge(interp, obls, timeout_ms, props_of=c.props_of)
    for cv, alts in cover_goals:
        ok = False
        for s1, g in alts:
            ground.push()
            ground.add(*ground_only(s1.pc))
            ground.add(g)
            if ground.check() == z3.sat:
                ok = True
            ground.pop()
            if ok:
                break
        rep.covers.append((cv, ok))
    rep.solver_time = time.time() - t_solve
    rep.obls = obls
    rep.assumptions = set(ctx.assumptions)
    rep.interp = interp
    rep.path_meta = path_meta
