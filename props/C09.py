"""C09: the per-function contracts of the resolution machinery, plus the converter programs with a call history (genprog/conv.py): a
per-call `recipe=` is placed FIRST in resolution order for that call and is not consulted (nor skipped) because of an earlier call.

`create_router_for_located_request` folds runs of exact-origin checkers into one dict item.  Its parts are under contract
(contracts/routers.py: the combiner emits the pending run once and empties it, both routers return the first match at or after the
offset); the statement "walking the folded router consults the same handlers in the same order as walking the plain recipe" joins them
through live checker objects (`ExactOriginLSC.__eq__`, `normalize_type`, dict hashing of origins) and is checked here on a BOUNDED family
of recipes — labelled bounded, not counted as proved."""
import itertools

LEVEL_TEXT = ("per-function contracts on routers, request bus, chaining, mediator; per-call recipes of converters resolved first and only for "
              "their call (GENPROG converter histories); folded vs plain router: bounded enumeration of recipes")


def router_equivalence(tier):
    import typing

    from adaptix import P
    from adaptix._internal.morphing.request_cls import LoaderRequest
    from adaptix._internal.provider.loc_stack_filtering import ExactOriginLSC, LocStack, create_loc_stack_checker
    from adaptix._internal.provider.located_request import LocatedRequestChecker
    from adaptix._internal.provider.location import GenericParamLoc, InputFieldLoc, TypeHintLoc
    from adaptix._internal.model_tools.definitions import NoDefault
    from adaptix._internal.retort import routers
    from adaptix._internal.retort.operating_retort import OperatingRetort

    class Const:
        def __init__(self, ans):
            self.ans = ans

        def check_request(self, mediator, request):
            return self.ans

    def exact(tp):
        return lambda: LocatedRequestChecker(ExactOriginLSC(tp))

    def pred(p):
        return lambda: LocatedRequestChecker(create_loc_stack_checker(p))
    atoms = [("Xint", exact(int)), ("Xstr", exact(str)), ("Xlist", exact(list)), ("Xbool", exact(bool)), ("T", lambda: Const(True)),
             ("F", lambda: Const(False)), ("Pint", pred(int)), ("Pa", pred(P.a)),
             # alternatives of exact origins (P[int, str], enum_by_name(A, B), ...): one provider standing for several origins
             ("Pint|str", pred(P[int, str])), ("Pstr|bool", pred(P[str, bool]))]
    field = InputFieldLoc(type=int, field_id="a", default=NoDefault(), metadata={}, is_required=True)
    stacks = [
        ("int", LocStack(TypeHintLoc(type=int))), ("str", LocStack(TypeHintLoc(type=str))), ("bool", LocStack(TypeHintLoc(type=bool))),
        ("List[int]", LocStack(TypeHintLoc(type=typing.List[int]))), ("list", LocStack(TypeHintLoc(type=list))),
        ("field a:int", LocStack(TypeHintLoc(type=dict), field)),
        ("generic param str", LocStack(TypeHintLoc(type=typing.List[str]), GenericParamLoc(type=str, generic_pos=0))),
        ("float", LocStack(TypeHintLoc(type=float))),
        ("5 (not a type)", LocStack(TypeHintLoc(type=5))), ("'x' (unresolvable)", LocStack(TypeHintLoc(type="x"))),
        ("bare ClassVar", LocStack(TypeHintLoc(type=typing.ClassVar))),
    ]
    max_len = 5 if tier == "thorough" else 4

    def walk(router, request):
        out, off = [], 0
        for _ in range(64):
            try:
                h, off2 = router.route_handler(None, request, off)
            except StopIteration:
                return out
            if not (isinstance(off2, int) and off2 > off):
                return out + [("offset-not-increasing", off, off2)]
            out.append(h)
            off = off2
        return out + ["no-termination"]
    viol, n = [], 0
    for length in range(0, max_len + 1):
        for combo in itertools.product(atoms, repeat=length):
            recipe = [(mk(), f"h{i}:{name}") for i, (name, mk) in enumerate(combo)]
            plain = routers.SimpleRouter(list(recipe))
            folded = routers.create_router_for_located_request(list(recipe))
            via_retort = OperatingRetort._create_router(None, LoaderRequest, list(recipe))
            for sname, stack in stacks:
                n += 1
                request = LoaderRequest(loc_stack=stack)
                try:
                    want = walk(plain, request)
                    got = walk(folded, request)
                    got2 = walk(via_retort, request)
                except Exception as e:  # noqa: BLE001
                    want, got, got2 = "no exception", f"{type(e).__name__}: {e}"[:200], None
                if want != got or (got2 is not None and want != got2):
                    if len(viol) < 40:
                        viol.append({"unit": "create_router_for_located_request", "clause": "same-handlers-same-order",
                                     "witness": f"{'-'.join(a for a, _ in combo)} on {sname}"[:160],
                                     "w": {"input": f"recipe [{', '.join(a for a, _ in combo)}], request for {sname}",
                                           "native_outcome": f"folded router consults {got!r} (through the retort: {got2!r}), "
                                                             f"recipe order gives {want!r}"[:400]}})
    return {"obligations": 0, "discharged": 0, "violations": viol, "solver_time": 0.0,
            "bounded": [{"unit": "create_router_for_located_request == walking the recipe in order (handlers consulted, in order)",
                         "bound": f"all recipes of length <= {max_len} over {len(atoms)} checker kinds (exact origins incl. repeated ones, "
                                  f"constant, predicate-built) x {len(stacks)} requests = {n} walks"}],
            "samples": [{"router_walks": n, "failed": len(viol)}],
            "assumptions": ["folded-router equivalence is checked only on this bounded family of recipes"]}


def recipe_assembly():
    """Bounded probe (labelled bounded) of the recipe ASSEMBLY, which is class machinery (metaclass, __init_subclass__, MRO, _clone) and
    not under contract: "first one, in the order instance recipe then class recipes", "extend() prepends, replace() changes only scalar
    options".  Every provider is `loader(int, f_k, Chain.FIRST)` with f_k(x) = 10 * x + k: loading 0 spells the order in which the
    providers were consulted as a decimal number (each exactly once), ending in the builtin int loader."""
    from adaptix import Chain, DebugTrail, Retort, loader

    def tag(k):
        return loader(int, (lambda x, k=k: 10 * x + k), Chain.FIRST)
    viol, n = [], 0
    counts = (0, 1, 2)
    for n_ext, n_inst, n_child, n_parent, n_mixin in itertools.product(counts, counts, counts, counts, (0, 1)):
        digits = iter(range(1, 10))
        ext = [next(digits) for _ in range(n_ext)]
        inst = [next(digits) for _ in range(n_inst)]
        child = [next(digits) for _ in range(n_child)]
        mixin = [next(digits) for _ in range(n_mixin)]
        parent = [next(digits) for _ in range(n_parent)]

        class Parent(Retort):
            recipe = [tag(k) for k in parent]

        class Mixin(Retort):
            recipe = [tag(k) for k in mixin]

        class Child(Parent, Mixin):      # MRO: Child, Parent, Mixin, Retort
            recipe = [tag(k) for k in child]
        want_digits = ext + inst + child + parent + mixin
        want = int("".join(map(str, want_digits)) or "0")
        base = Child(recipe=[tag(k) for k in inst])
        variants = {
            "extend": lambda: base.extend(recipe=[tag(k) for k in ext]),
            "extend+replace(debug_trail)": lambda: base.extend(recipe=[tag(k) for k in ext]).replace(debug_trail=DebugTrail.DISABLE),
            "replace(strict_coercion)+extend": lambda: base.replace(strict_coercion=False).extend(recipe=[tag(k) for k in ext]),
            "extend twice": lambda: base.extend(recipe=[tag(k) for k in ext[1:]]).extend(recipe=[tag(k) for k in ext[:1]]),
        }
        for vname, mk in variants.items():
            n += 1
            try:
                got = mk().load(0, int)
            except Exception as e:  # noqa: BLE001
                got = f"{type(e).__name__}: {e}"[:120]
            # the original must be left as it was (extend / replace return new retorts)
            try:
                orig = base.load(0, int)
            except Exception as e:  # noqa: BLE001
                orig = f"{type(e).__name__}: {e}"[:120]
            want_orig = int("".join(map(str, inst + child + parent + mixin)) or "0")
            if got != want or orig != want_orig:
                if len(viol) < 40:
                    viol.append({"unit": "recipe assembly", "clause": "instance-then-class-recipes-extend-prepends",
                                 "witness": f"{vname}; ext={ext} inst={inst} child={child} parent={parent} mixin={mixin}",
                                 "w": {"input": f"class Child(Parent, Mixin) with class recipes {child} / {parent} / {mixin}, instance recipe {inst}, {vname} {ext}; load(0, int)",
                                       "native_outcome": f"providers consulted in the order {got!r} (expected {want}); the original retort afterwards: {orig!r} (expected {want_orig})"}})
    return {"obligations": 0, "discharged": 0, "violations": viol, "solver_time": 0.0,
            "bounded": [{"unit": "recipe assembly: extend-list ++ instance recipe ++ class recipes in MRO order, each provider consulted once",
                         "bound": f"{n} retorts: 0-2 providers per layer (extend, instance, child class, parent class) x mixin class 0-1 x 4 "
                                  "ways of deriving the retort (extend, replace before / after, extend twice)"}],
            "samples": [{"assembled_retorts": n, "failed": len(viol)}],
            "assumptions": ["recipe assembly (metaclass / MRO / _clone) is checked only on this bounded family"]}


def extra_checks(tier, seed):
    from genprog.check import extra_for_property
    return [extra_for_property("C09", tier, seed, group="conv"), router_equivalence(tier), recipe_assembly()]
