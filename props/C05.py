"""C05: unit contracts (contracts/*.py) plus the GENPROG obligations that carry this property (generated model loaders), plus a bounded
check of the struct_trail helpers whose contracts the proofs USE at call sites (they keep the trail in a `deque` attribute, which the
executor does not model): append_trail(obj, el) makes the trail [el] + old, extend_trail(obj, sub) makes it list(sub) + old, both return
the object itself, render_trail_as_note returns its argument and leaves the trail alone."""
import itertools


def helper_checks():
    from adaptix._internal.struct_trail import Attr, ItemKey, append_trail, extend_trail, get_trail, render_trail_as_note
    viol, n = [], 0
    elements = ["k", 0, -1, ItemKey("k"), Attr("a"), ("t", 1), None, ""]

    def report(fn, case, detail):
        viol.append({"unit": f"struct_trail.{fn}", "clause": "helper-contract", "witness": case[:160],
                     "w": {"input": case[:300], "native_outcome": detail[:300]}})

    def fresh(old):
        e = ValueError("x")
        for el in reversed(old):
            append_trail(e, el)
        return e
    for n_old in range(0, 4):
        for old in itertools.product(elements[:4], repeat=n_old):
            old = list(old)
            for el in elements:
                n += 1
                e = fresh(old)
                r = append_trail(e, el)
                if r is not e or list(get_trail(e)) != [el] + old:
                    report("append_trail", f"trail {old!r} + element {el!r}", f"returned {'the object' if r is e else 'another object'}, trail {list(get_trail(e))!r}")
            for n_sub in range(0, 4):
                for sub in itertools.product(elements[3:6], repeat=n_sub):
                    for mk in (list, tuple):
                        n += 1
                        e = fresh(old)
                        r = extend_trail(e, mk(sub))
                        if r is not e or list(get_trail(e)) != list(sub) + old:
                            report("extend_trail", f"trail {old!r} + sub-trail {mk(sub)!r}", f"trail {list(get_trail(e))!r}")
            n += 1
            e = fresh(old)
            r = render_trail_as_note(e)
            if r is not e or list(get_trail(e)) != old:
                report("render_trail_as_note", f"trail {old!r}", f"trail {list(get_trail(e))!r}")
    # rendering must not fail on elements whose repr fails (an int key beyond the digit limit of int -> str conversion)
    for el in (10 ** 5000, ItemKey(10 ** 5000), -(10 ** 5000)):
        n += 1
        e = fresh(["k"])
        append_trail(e, el)
        try:
            r = render_trail_as_note(e)
            if r is not e:
                report("render_trail_as_note", f"trail with a {type(el).__name__} of 5000 digits", "returned another object")
        except Exception as ex:  # noqa: BLE001
            report("render_trail_as_note", f"trail with a {type(el).__name__} of 5000 digits", f"raised {type(ex).__name__}: {str(ex)[:80]}")
    return {"obligations": 0, "discharged": 0, "violations": viol, "solver_time": 0.0,
            "bounded": [{"unit": "struct_trail.append_trail / extend_trail / render_trail_as_note (contracts assumed at call sites)",
                         "bound": f"{n} cases: existing trails of length <= 3, elements / sub-trails of length <= 3 over 8 element kinds"}],
            "samples": [{"helper_cases": n, "failed": len(viol)}],
            "assumptions": ["the helper contracts used at call sites are checked only on this bounded family"]}


def extra_checks(tier, seed):
    from genprog.check import extra_for_property
    return [extra_for_property("C05", tier, seed), helper_checks()]
