"""Independent statement of the documented linking rules of converters (docs/conversion/tutorial.rst "Linking algorithm",
"Fields linking", "Type coercion"; docs/conversion/extended-usage.rst; the text of property C13) — written WITHOUT looking at
conversion/linking_provider.py or model_coercer_provider.py.

For each field d of the destination model, in this order:
  1. the first item of the recipe (recipe order) that points at d and finds a source:
       link(src_pred, d)          the first source accepted by src_pred among: converter parameters right-to-left (top-level
                                  destination fields; from_param(name) reaches every level), then the fields of the source model
       link_constant(d, value= / factory=)
       link_function(func, d)     func(source model, <converter parameters by name>, <keyword-only: source fields by name>)
  2. else, top level only: the extra converter parameter named like d;
  3. else the source field named like d;
  4. else: d may stay unlinked only if it is optional and allow_unlinked_optional covers it — otherwise no converter may be
     produced.
The linked value is passed as is when source and destination type are the same (or the destination is Any), converted field-wise
when both are models, and otherwise goes through the first applicable coercer: the one given to link(coercer=), else the first
coercer(src_type, dst_type, f) of the recipe; without one no converter may be produced.
"""
from __future__ import annotations

import re
from dataclasses import dataclass, field
from typing import Any, Optional


@dataclass
class CF:
    name: str
    tkey: Any = "t0"                  # a type key (str) or a ModelSpec (nested model)
    default: Optional[tuple] = None    # ("value", v) | ("factory", f)
    kind: str = "pos_or_kw"           # pos_or_kw | kw_only


@dataclass
class ModelSpec:
    name: str
    fields: list
    kind: str = "dataclass"

    def field(self, n):
        for f in self.fields:
            if f.name == n:
                return f
        return None


ABSENT = ("absent",)


class Refuse(Exception):
    pass


def pred_matches(pred, name):
    """a string predicate: exact match for identifiers, full regex match otherwise (property C10)"""
    if pred is None:
        return True
    if pred.isidentifier():
        return pred == name
    return re.fullmatch(pred, name) is not None


def expected(case):
    """the expression tree of the destination object, or raises Refuse"""
    return _model(case, case.src, case.dst, ("src",), top=True)


def _same_type(a, b):
    return a == b or b == "any"


def _model(case, src: ModelSpec, dst: ModelSpec, src_expr, top):
    out = {}
    for d in dst.fields:
        out[d.name] = _field(case, src, dst, d, src_expr, top)
    return ("model", dst, out)


def _sources(case, src: ModelSpec, src_expr, top, pred):
    """candidate sources accepted by a link source predicate, in the documented order"""
    if isinstance(pred, tuple) and pred[0] == "param":
        for p in reversed(case.params):
            if p.name == pred[1]:
                yield ("param", p.name), p.tkey
        return
    if top:
        for p in reversed(case.params):
            if pred_matches(pred, p.name):
                yield ("param", p.name), p.tkey
    for f in src.fields:
        if pred_matches(pred, f.name):
            yield src_expr + (f.name,), f.tkey


def _field(case, src, dst, d: CF, src_expr, top):
    for item in case.recipe_spec:
        kind = item[0]
        if kind == "link" and pred_matches(item[2], d.name):
            for expr, tkey in _sources(case, src, src_expr, top, item[1]):
                return _coerce(case, expr, tkey, d.tkey, item[3] if len(item) > 3 else None)
        elif kind == "const" and pred_matches(item[1], d.name):
            return ("const",) + tuple(item[2])
        elif kind == "func" and pred_matches(item[4], d.name):
            _, stub, pos_params, kw_fields, _ = item
            args = []
            for pn in pos_params:
                if not any(p.name == pn for p in case.params):
                    raise Refuse(f"link_function parameter {pn} has no converter parameter")
                args.append(("param", pn))
            kws = {}
            for fn_ in kw_fields:
                if src.field(fn_) is None:
                    raise Refuse(f"link_function keyword {fn_} has no model field")
                kws[fn_] = src_expr + (fn_,)
            return ("func", stub, src_expr, args, kws)
    if top:
        for p in reversed(case.params):
            if p.name == d.name:
                return _coerce(case, ("param", p.name), p.tkey, d.tkey, None)
    f = src.field(d.name)
    if f is not None:
        return _coerce(case, src_expr + (f.name,), f.tkey, d.tkey, None)
    if d.default is not None and any(it[0] == "allow_unlinked" and pred_matches(it[1], d.name) for it in case.recipe_spec):
        return ABSENT
    raise Refuse(f"no source for {dst.name}.{d.name}")


def _coerce(case, expr, src_t, dst_t, own_coercer):
    if own_coercer is not None:
        return ("coerce", own_coercer, expr)
    if isinstance(src_t, ModelSpec) and isinstance(dst_t, ModelSpec):
        if src_t is dst_t:
            # the same model: "passed as is" (type coercion rules) and "converted like top-level models" both apply and give
            # equal objects; the property fixes equality only, so either is accepted
            return ("same-or-rebuilt", expr, _model(case, src_t, dst_t, expr, top=False))
        # a coercer registered for exactly this pair of models goes first (recipe order: user providers precede the builtin ones)
        for it in case.recipe_spec:
            if it[0] == "coercer" and it[1] is src_t and it[2] is dst_t:
                return ("coerce", it[3], expr)
        return _model(case, src_t, dst_t, expr, top=False)
    if not isinstance(src_t, ModelSpec) and not isinstance(dst_t, ModelSpec):
        for it in case.recipe_spec:
            if it[0] == "coercer" and it[1] == src_t and it[2] == dst_t:
                return ("coerce", it[3], expr)
        if _same_type(src_t, dst_t):
            return expr
    else:
        for it in case.recipe_spec:
            if it[0] == "coercer" and it[1] == src_t and it[2] == dst_t:
                return ("coerce", it[3], expr)
    raise Refuse(f"no coercer {src_t!r} -> {dst_t!r}")
