"""C03: decided by GENPROG (generated model loaders verified against the independent layout specification) in addition to the
unit contracts carrying this property."""
LEVEL_TEXT = ("generated model loaders (real generator output, captured per program) proved against the contract instantiated "
              "from the independent layout specification: bounded over programs, unbounded over inputs")


def extra_checks(tier, seed):
    from genprog.check import extra_for_property
    return [extra_for_property("C03", tier, seed)]
