# Source of MANIFEST.json (see tools_manifest.py).  A property is listed under CLAIMED only once its check is built
# and exits 0 on the unchanged tree; everything else stays under NOT_APPLICABLE with the reason.
NB = "check not built yet (contracts for this property are still being written; see DESIGN.md §10)"
for i in range(1, 21):
    NOT_APPLICABLE[f"C{i:02d}"] = NB
NOT_APPLICABLE["C12"] = ("quantifies over thread schedules: a function contract speaks about one activation in isolation; "
                         "no concurrent program logic for Python is available and an interleaving explorer would be a "
                         "model checker, i.e. a different technique family (DESIGN.md §6)")
NOT_APPLICABLE["C17"] = ("relates six introspectors that are thin reflective adapters over dataclasses/typing/attrs/pydantic/"
                         "sqlalchemy; a contract on them is only as strong as a hand-written model of those libraries "
                         "(DESIGN.md §6); the kind-independent downstream code is covered under C03/C08/C13")

TECH = ("contract-based deductive verification: side-car contracts on the real functions, VCs generated from the AST of "
        "/repo's working tree, discharged by z3 (cvc5 on unknowns); counter-models replayed natively")
NOTE = ("trusted base (printed per run in the evidence): outcome class of built-ins per cell of the data universe D is probed "
        "on CPython 3.12 and assumed uniform inside a cell; sub-loaders satisfy LD (deterministic, raise only LoadError); "
        "container factories consume their argument completely; contracts of struct_trail helpers; mathematical integers. "
        "Functions under contract are listed in the evidence; builtin providers not yet under contract are outside the claim.")


def claim(pid, text, note=NOTE, ref="DESIGN.md §5"):
    CLAIMED[pid] = {"level_text": text, "level_note": note, "technique": TECH, "design_ref": ref}
    NOT_APPLICABLE.pop(pid, None)


claim("C04", "closed-world `raises` clause of every loader closure under contract: on every path of the real AST, for every "
             "datum of D and every behaviour of sub-loaders under LD, the escaping exception is a LoadError; proved for all "
             "inputs and all sequence lengths (loops cut by inductive invariants); the same clause for every generated model loader",
      note=NOTE + " C04-specific: loaders that are not repository code (UUID / ipaddress / pathlib constructors, builtin lax loaders such as "
                  "`str`) have no AST to execute: they are probed per cell of D, plain and inside a list, in all six configurations (no "
                  "solver; labelled bounded). Non-string unknown keys reach the real constructor only in the native twin of GENPROG.")
claim("C02", "function-against-spec: accept-iff / value / documented-rejection clauses transcribed from "
             "specific-types-behavior.rst, proved for every scalar loader, the composed iterable, dict, tuple, union, literal, enum and "
             "flag loaders, and for the container dumpers (iterable, dict, tuple in the three debug-trail modes against one spec; union "
             "dumper = ClassDispatcher.dispatch on type(data), proved first-in-MRO; union dumper with a Literal case: the literal dumper only for "
             "objects that ARE a literal value, class dispatch for everything else; optional dumper; list children dump as list) and for "
             "the scalar dumpers (clause `form`: the documented outer class; base64 text that the loader's own pattern accepts)",
      note=NOTE + " C02-specific: documented type aliases (Mapping ~ Dict, abstract iterables ~ their implementation) are decided by a "
                  "bounded equivalence check; loaders that are not repository code (stdlib constructors registered as loaders, builtin lax "
                  "loaders) are probed per cell of D in all six configurations (no solver; labelled bounded).")
claim("C05", "trail post-conditions (exact top element, old trail kept, ALL mode sound+complete+exactly-once) proved with loop "
             "invariants over symbolic sequences for the iterable, dict, tuple and union loaders and for every generated model loader "
             "of the GENPROG family; leaf loaders carry the offending datum",
      note=NOTE + " C05-specific: the struct_trail helpers (append_trail / extend_trail / render_trail_as_note keep the trail in a deque "
                  "attribute, which the executor does not model) are used at call sites through contracts that are checked only on a bounded "
                  "family (props/C05.py, labelled bounded).")
claim("C06", "each debug-trail variant of a container loader is proved against one mode-independent spec (identical accept-iff / "
             "value formulas), so agreement of the three modes follows from the contracts; error correspondence from the "
             "first-error / agg-complete clauses")
claim("C07", "strict-origin and accept-iff clauses: strict acceptance implies an allowed strict origin and the lax spec; proved "
             "per loader under contract")
claim("C20", "implicit frame clause `modifies nothing` on every unit (any store to a non-fresh object is an obligation) and "
             "freshness of built containers (closure state, memoising decorators, copying coercers, flag dumpers, generated loaders, "
             "dumpers and converters)",
      note=NOTE + " C20-specific: dumpers with extra_out and inputs whose own __getitem__ has a side effect (collections.defaultdict, outside "
                  "D) are exercised by bounded probes in props/C20.py (labelled bounded; several extra_out targets, as-is and typed, on dataclass "
                  "and on a TypedDict with a NotRequired key). Known finding recorded: required keys are inserted "
                  "into a defaultdict input by `data[key]`.")
claim("C01", "loader value clauses (result equals the constructor applied to the dumped form) for scalars, enums, flags and literals; "
             "the model round trip as a lemma over the generated loader and dumper contracts instantiated from the same independent "
             "layout (the dumper writes every field to exactly the path the loader reads it from, the loader accepts every tree of that "
             "shape and binds the value to the right constructor parameter); typing.Self resolves to the nearest enclosing model "
             "(find_owner_with_field, loop invariant); scalar round trips as a two-line lemma per type: the scalar dumpers (isoformat, "
             "datetime format, datetime / date timestamp, timedelta seconds, bytes / bytearray / BytesIO base64, Decimal / Fraction / "
             "complex str, regex pattern, as-is scalars, None) carry the clause `inverse`: the spec function of the loader's `value` clause "
             "applied to the dumped form gives back the datum, for every typed cell of D and (dates, naive datetimes) in three process "
             "time zones",
      note=NOTE + " C01-specific: the model lemma is stated in props/C01.py and rests on the GENPROG obligations tagged C01 (bounded over the "
                  "program family, unbounded over inputs); round trips of iterable/dict/tuple/union containers follow from the element-wise "
                  "value clauses of their loaders and dumpers. Scalar dumpers that are stdlib methods handed out by the provider "
                  "(`date.isoformat`, `timedelta.total_seconds`, `Decimal.__str__`) are applied like every other built-in: probed per "
                  "live cell (typed cells: date, datetime naive/utc/+3, time, timedelta incl. negative fractional, bytes incl. 70 bytes, "
                  "BytesIO incl. a read position, re.Pattern incl. flags). path_like_dumper, the IO[bytes] dumper (reads the stream: "
                  "outside D) and the literal dumpers are not under contract.")

claim("C09", "per-function contracts on the resolution machinery: ExactOriginCombiner (flush leaves the buffer empty, emitted items in "
             "order), both routers' route_handler (first match at/after the offset, loop invariant), BasicRequestBus._send_inner "
             "(loop invariant + strictly increasing offset: no handler consulted twice; answer = response of a routed handler), "
             "RecursiveRequestBus (tracking only in top-level send), chaining handler (direction, exactly-once via call log), "
             "mediator.provide_from_next, retort-in-recipe, bound_by_any; unbounded over recipes/offsets/requests",
      note=NOTE + " C09-specific: route_handler is used through its proved contract (modular); AggregateCannotProvide.make and the "
                  "note-attaching helpers are abstracted (opaque); get_request_handlers of a retort is checked for bounded recipe "
                  "shapes; equivalence of create_router_for_located_request with the linear scan and recipe assembly "
                  "(head+instance+class+tail, extend/replace) are not yet under contract.")

claim("C18", "loaders of every enum/flag representation provider are executed symbolically from the real _make_loader for a printed "
             "family of enum and flag classes (mixed values, str/int mix-ins, aliases, unhashable values, zero-valued, compound "
             "members) and every option combination, against acceptance/value/closed-raises clauses over the whole data universe; "
             "creation obligations (succeeds unless documented exclusion); dump/load round trips enumerated over all members and "
             "all flag combinations",
      note=NOTE + " C18-specific: bounded over the enum/flag class family and name-mapping configurations (printed); the "
                  "round-trip part is exhaustive enumeration per class (labelled bounded); name-style conversion is exercised, "
                  "not proved injective.")

claim("C15", "`_dedup` (the de-duplication used for union members and, typed, for literal arguments) proved for all sequences with "
             "an inductive invariant (sound, complete, no duplicates w.r.t. the equality used, first-occurrence order kept); two further steps of the union normaliser, "
             "`TypeNormalizer._unfold_union_args` (nested unions lifted, nothing lost or invented, identity incl. order when nothing is nested) and `_merge_literals` (non-literal members "
             "kept, no literal member survives unmerged, the list never grows, identity without a literal member), proved with loop invariants over symbolic lists; the canonical-form behaviour of "
             "normalize_type on live typing objects is decided by a bounded enumeration of meaning-preserving / meaning-changing "
             "rewrites, idempotence and implicit parameters, and (canonical member order of a union without the help of normalize_type's lru_cache) all permutations of pools of look-alike members normalised by a new TypeNormalizer each",
      note=NOTE + " C15-specific: the dispatch of TypeNormalizer over live `typing` objects is reflection and stays outside the "
                  "contracts; it is covered only by the bounded rewrite enumeration (labelled bounded in the evidence, not counted "
                  "as proved). Ordering helpers (_order_args/_make_orderable) are not under contract.")

claim("C14", "post-conditions of the as-is coercer providers (same type, destination Any, non-generic subclass, union sub-case by TYPE "
             "equality) taken from the property text and proved on every path of the real methods for arbitrary normalised types; "
             "each raises only CannotProvide otherwise; Optional coercer: applicability (None plus exactly one other type) and closure (None stays "
             "None, every other value — 0, [], {} too — goes through the inner coercer); a converter is produced exactly when the documented "
             "rules give every destination field a source and a coercer (creation / refusal obligations of the GENPROG converter family, "
             "unlinked-optional policy per field); IterableCoercerProvider / DictCoercerProvider._parse_source / _parse_destination: every "
             "normalised hint is parsed or refused with CannotProvide (index safety of `norm.args[...]` is an obligation of these units, "
             "under the stated type invariant of normalised hints)",
      note=NOTE + " C14-specific: strip_tags / is_generic / is_parametrized / is_subclass_soft are abstracted as deterministic "
                  "total functions; `==` of normalised types is the relation py_eq; iterable / dict coercers are under contract only for "
                  "their copying behaviour; refusal is decided per program of the converter family (bounded over programs).")

GENPROG_NOTE = (" GENPROG: every program of a printed family (logical model x name_mapping configuration x debug trail x coercion; "
                "dataclass, plain __init__, attrs with aliases, attrs with a hand-written __init__, TypedDict for dumping) is generated by "
                "the REAL generator, captured through CodeGenAccumulator, parsed and executed symbolically on a symbolic input "
                "tree; the contract comes from genprog/layout_spec.py, written from the documentation without reading the name-layout "
                "code. Bounded over programs (count in the evidence), unbounded over inputs. Field loaders/dumpers are arbitrary "
                "callables under LD/DUMP; the model constructor is an uninterpreted total function whose call log is the observable.")

claim("C03", "every generated loader/dumper of the program family is proved against the contract instantiated from the independent "
             "layout specification: each field is read from / written to exactly its documented path (map > style/trim, skip > only, "
             "`...` in maps, nested paths, list indices), two-sided acceptance bounds, unknown keys ignored / rejected / delivered "
             "exactly (loop invariant `extras_prefix`), dumper tree shape, omit_default for as-is dumpers",
      note=NOTE + GENPROG_NOTE + " C03-specific: name_mapping provider chaining/overlay merging and extra_out/saturators are outside the "
                                 "family (chaining of two name_mapping providers IS in the family); omit_default compares the DUMPED value with the default — recorded known finding "
                                 "(known_findings.json), the weaker as-is clause is proved.",
      ref="DESIGN.md §5, Appendix D")

claim("C08", "generated loaders: the model constructor is called exactly once, every parameter receives the loaded value of its field or "
             "— when the field is absent — exactly the model's own default (same object, or equal and of the same type for literal-safe "
             "values; a fresh factory result), parameters are passed consistently with their kind and under their real names "
             "(attrs aliases), after skipped parameters too; `get_literal_expr` / `get_literal_from_factory` proved to render only "
             "text that evaluates back to an equal object of exactly the same type",
      note=NOTE + GENPROG_NOTE + " C08-specific: get_literal_expr is proved over all leaf objects of D and a printed family of "
                                 "container shapes (evaluation of rendered text is judged by CPython's eval per shape: bounded over "
                                 "shapes); defaults of absent fields on 8 mapping classes incl. mappings that fabricate values "
                                 "(defaultdict, Counter, __missing__) are a bounded probe (props/C08.py); shape introspection of pydantic/sqlalchemy/NamedTuple/TypedDict models is outside the claim.",
      ref="DESIGN.md §5, Appendix D")

claim("C10", "every checker class is proved against the pointwise statement of the property for ARBITRARY inner predicates (total "
             "deterministic `check_loc_stack`), chain lengths and stacks: LocStackEndChecker matches exactly the stacks whose tail "
             "satisfies the elements in order (loop invariant), Or/And are exists/forall over any number of members, Xor is parity "
             "(2 and 3 members), Invert is negation, last-location checkers accept only their kind of location and then exactly the "
             "leaf predicate (field-id equality, `fullmatch`, origin equality, subclass), strings become exact checkers iff they are "
             "identifiers and regex checkers otherwise, bound(pred, provider) yields the conjunction",
      note=NOTE + " C10-specific: inner checkers obey PRED (total, deterministic, effect-free); normalize_type / is_subclass_soft are "
                  "abstracted (deterministic). The construction of checkers from classes / generic aliases and the P builder with its "
                  "documented identities run on live typing objects and are decided by an exhaustive enumeration of predicate "
                  "expressions x location stacks up to a printed bound against reference semantics written from the tutorial "
                  "(labelled bounded, never counted as proved).")

CONV_NOTE = (" GENPROG-converters: the text executed is the source adaptix' own compiler registered in `linecache` for the produced converter "
             "and for every generated coercer reachable from it (read back from the function objects, nothing is re-generated); user "
             "coercers and link functions are uninterpreted total functions; destination models are dataclasses whose generated __init__ "
             "binds arguments by python's rules (inspect.signature.bind). The expected expression tree comes from genprog/link_spec.py, "
             "written from docs/conversion and the property text without reading linking_provider.py / model_coercer_provider.py.")

claim("C13", "every generated converter of a printed family (renames, link order, constants, link functions, extra parameters, from_param, "
             "nested models, user coercers and their precedence, unlinked optional policy, keyword-only constructor parameters, call "
             "history on one retort) is proved — for a symbolic source object and symbolic extra arguments — to construct exactly the "
             "destination the documented linking rules fix, to be refused exactly when the rules leave a field without source or "
             "coercer, to leave the source unmodified and to keep the stub's signature and name",
      note=NOTE + CONV_NOTE + " C13-specific: bounded over programs (family printed in genprog/conv.py), unbounded over inputs; Optional / "
                              "iterable / dict coercers are covered per function under C14/C20, not inside this family; model kinds other "
                              "than dataclass and generic models are outside the family. A link predicate that accepts BOTH a parameter and "
                              "a field is left out: the property fixes that precedence only for same-named default linking.",
      ref="DESIGN.md §5, Appendix D")

claim("C19", "hostile program families: every loader, dumper and converter generated for field ids equal to identifiers of the generated "
             "code / builtins / keywords-with-underscore / non-ASCII, hostile mapped keys (quotes, backslashes, braces, `$`, newlines, code "
             "fragments), hostile model, parameter, function and converter names and hostile constants is (a) created, (b) proved against "
             "the same C03/C08/C13 contract as harmless programs, (c) proved structurally identical (AST with data abstracted) to the "
             "program generated for its harmless twin; BuiltinNameSanitizer.sanitize proved to return a non-keyword identifier",
      note=NOTE + GENPROG_NOTE + CONV_NOTE + " C19-specific: bounded over the hostile dictionaries printed in genprog/family.py and "
                                             "genprog/conv.py; the sanitizer is proved over the string cells of D and a printed list of hostile "
                                             "names (its per-character behaviour over all of Unicode is not enumerated).",
      ref="DESIGN.md §5, Appendix D")

claim("C11", "the cache mechanism is proved transparent per function: BuiltinMediator.cached_call (hit: stored value, factory not called, nothing "
             "written; miss: factory called once, result stored under (func, *args, *kwargs.items()); failure stores nothing), "
             "AdornedRetort.get_loader/get_dumper likewise, and every _calculate_derived re-creates its caches as new empty dicts, so a clone "
             "(copy + _calculate_derived) shares no cache with its origin; every cached_call site is enumerated from the AST and each key "
             "argument is sorted by a table (an unsorted argument is undecided); key sorts whose `==` is coarser than behaviour and "
             "replace()/extend() are exercised by bounded call histories compared with fresh retorts; converter histories via GENPROG",
      note=NOTE + CONV_NOTE + " C11-specific: (K) 'equal keys denote indistinguishable requests' is proved only for the mechanism; for the call sites "
                              "it rests on the sort table of props/C11.py (regular expressions over argument expressions) plus the bounded "
                              "histories (labelled bounded, never counted as proved: pool of confusable types printed in props/C11.py, "
                              "histories of length <= 2 quick / 3 thorough). replace()/extend() themselves (with-statement over a generator "
                              "context manager) are outside the executor's subset: their effect is covered by the _calculate_derived contracts "
                              "and the histories. normalize_type's process-wide lru_cache is not under contract.")

claim("C16", "GenericResolver._get_type_var_to_actual proved for every arity (the i-th class type variable is bound to exactly the i-th "
             "argument, nothing else is bound; loop invariant over a symbolic dict); GenericResolver._parametrize_by_dict (a bound type variable is replaced by exactly its actual, a hint without type variables is returned as is; re-subscription of parametrised hints excluded by the precondition); substitution through class hierarchies is decided on a "
             "printed family of generic models (multi-level, partially bound, re-ordered, shadowed, bare parents, bound/constrained variables, "
             "diamonds, nested generic fields; dataclass, attrs, TypedDict, NamedTuple) x parametrisations from a type pool, by loading data "
             "that fits the expected substitution (must load) and data fitting only another one (must fail), the expectation coming from an "
             "independent reference resolver",
      note=NOTE + " C16-specific: the walk over live typing objects (__orig_bases__, __parameters__, alias subscription, implicit parameters) "
                  "is reflection and outside the contracts: that part is a bounded enumeration (labelled bounded, never counted as proved; "
                  "bounds printed in the evidence). TypeVarTuple / ParamSpec / pydantic / sqlalchemy generics are outside the family. Known "
                  "finding recorded: shadowing in generic TypedDict children.")
