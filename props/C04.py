"""C04: unit contracts (contracts/*.py) plus the GENPROG obligations that carry this property (generated model loaders), plus the
closed-world `raises` clause for the loaders that are NOT repository functions: `FilledRetort.recipe` registers the classes themselves
(`loader(tp, tp)` for UUID, the six ipaddress classes and the six path classes) — there is no AST of /repo to execute for them, the loader
is a stdlib constructor.  They are probed exactly like every other built-in operation inside the proofs: on the representative of every
cell of the data universe D (the same uniformity-inside-a-cell assumption), through the loader the real retort hands out, in all six
(strict_coercion, debug_trail) configurations, standalone and nested in a list.  No solver is involved: listed under `bounded`."""
import itertools


def constructor_rows():
    import ipaddress
    import pathlib
    import typing
    import uuid

    from adaptix import DebugTrail, Retort
    from adaptix.load_error import LoadError
    from pyvc.universe import CELL_NAMES, N_CELLS, rep
    import datetime
    import decimal
    import fractions
    # scalar types whose LAX loader is a builtin itself (lax_coercion_loader=str / bool / ...) are probed the same way; the repository
    # functions among these loaders are ALSO proved deductively (contracts/concrete_provider.py) — the overlap is harmless
    scalars = [str, bool, int, float, bytes, bytearray, decimal.Decimal, fractions.Fraction, complex, datetime.date, datetime.time,
               datetime.datetime, datetime.timedelta, type(None), typing.Any, typing.LiteralString]
    types = scalars + [uuid.UUID, ipaddress.IPv4Address, ipaddress.IPv6Address, ipaddress.IPv4Network, ipaddress.IPv6Network, ipaddress.IPv4Interface,
             ipaddress.IPv6Interface, pathlib.PurePath, pathlib.Path, pathlib.PurePosixPath, pathlib.PosixPath, pathlib.PureWindowsPath]
    viol, n = [], 0

    def leaves(e):
        if isinstance(e, BaseExceptionGroup):
            for s in e.exceptions:
                yield from leaves(s)
        else:
            yield e
    for tp, strict, dt in itertools.product(types, (True, False), DebugTrail):
        retort = Retort(strict_coercion=strict, debug_trail=dt)
        for kind, hint, wrap in (("plain", tp, lambda d: d), ("in-list", typing.List[tp], lambda d: [d])):
            loader = retort.get_loader(hint)
            bad = []
            for i in range(N_CELLS):
                n += 1
                try:
                    datum = wrap(rep(i))
                    loader(datum)
                except Exception as e:  # noqa: BLE001
                    rogue = [x for x in leaves(e) if not isinstance(x, LoadError)]
                    if rogue or (isinstance(e, BaseExceptionGroup) and not isinstance(e, LoadError)):
                        bad.append((CELL_NAMES[i], type((rogue or [e])[0]).__name__))
            if bad:
                viol.append({"unit": f"constructor loader {getattr(tp, '__name__', str(tp))}", "clause": "raises-closed",
                             "witness": f"{kind}; strict={strict}; {dt.name}; cells={','.join(c for c, _ in bad[:4])}…"[:160],
                             "w": {"input": f"{len(bad)} cells of D, e.g. {bad[0][0]} as {getattr(hint, '__name__', hint)}"[:300],
                                   "native_outcome": f"non-LoadError escapes: {sorted({k for _, k in bad})} on {len(bad)} of {N_CELLS} cells"[:300]}})
    return {"obligations": 0, "discharged": 0, "violations": viol[:60], "solver_time": 0.0,
            "bounded": [{"unit": "stdlib constructors registered as loaders (UUID, ipaddress.*, pathlib.*)",
                         "bound": f"{n} probes: {len(types)} types (scalars with builtin lax loaders + UUID / ipaddress / pathlib) x 6 configurations x plain / inside List x all {N_CELLS} cells of D"}],
            "samples": [{"constructor_probes": n, "failed_rows": len(viol)}],
            "assumptions": ["stdlib constructor loaders are probed per cell of D (uniformity inside a cell), not executed symbolically"]}


def extra_checks(tier, seed):
    from genprog.check import extra_for_property
    return [extra_for_property("C04", tier, seed), constructor_rows()]
