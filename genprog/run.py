"""GENPROG: verification of *generated* model loaders (DESIGN.md §5 “GENPROG”).

The function under contract is the source text the real generator produced (captured through adaptix's own public
CodeGenAccumulator in the same process that compiled it).  It is executed symbolically for a symbolic input tree
(genprog/symdata.py) with the field loaders as arbitrary callables under LD and the constructor as an uninterpreted
callee with a call log; the contract is instantiated from the independent layout specification (genprog/layout_spec.py).
Bounded over programs (the family is printed), unbounded over inputs.
"""
from __future__ import annotations

import ast
import textwrap

import z3

from pyvc import theory as T
from pyvc.builtins_theory import get_discipline, set_discipline
from pyvc import verify as _verify  # noqa: F401  (attaches trail / obligation helpers to Interp)
from pyvc.interp import RAISE, Ctx, Interp
from pyvc.values import Closure, St, Unsupported, V, const

from . import symdata


def capture(case):
    """returns dict(loader_src, loader_ns, loader, dumper_src, dumper_ns, dumper) for a family case"""
    from adaptix import Retort
    from adaptix._internal.morphing.model.basic_gen import CodeGenAccumulator
    acc = CodeGenAccumulator()
    retort = Retort(recipe=[acc] + case.recipe(), strict_coercion=case.strict, debug_trail=case.debug_trail)
    out = {"retort": retort}
    if case.want_loader:
        n0 = len(acc.list)
        out["loader"] = retort.get_loader(case.model)
        new = acc.list[n0:]
        if len(new) != 1:
            raise Unsupported(f"expected one generated loader, got {len(new)}")
        out["loader_src"], out["loader_ns"] = new[0][1].source, new[0][1].namespace
    if case.want_dumper:
        n0 = len(acc.list)
        out["dumper"] = retort.get_dumper(case.model)
        new = acc.list[n0:]
        if len(new) != 1:
            raise Unsupported(f"expected one generated dumper, got {len(new)}")
        out["dumper_src"], out["dumper_ns"] = new[0][1].source, new[0][1].namespace
    return out


def parse_generated(source):
    src = "def __maker__():\n" + textwrap.indent(source, "    ")
    tree = ast.parse(src)
    maker = tree.body[0]
    inner = [n for n in maker.body if isinstance(n, ast.FunctionDef)]
    if len(inner) != 1:
        raise Unsupported("generated source does not define exactly one function")
    return tree, maker, inner[0]


class LoaderRun:
    """symbolic execution of one generated loader"""

    def __init__(self, source, namespace, field_names, ctx=None, root=None, loaders=None, constructor=None):
        symdata.install()
        self.source = source
        self.namespace = namespace
        self.tree, self.maker, self.fn = parse_generated(source)
        self.ctx = ctx or Ctx()
        self.ctx.max_paths = 6000
        glob = {}
        env = {}
        self.interp = Interp(self.ctx, glob, unit_name="generated")
        self.loaders = loaders if loaders is not None else {}
        self.constructor = constructor
        st = St()
        for name, val in namespace.items():
            if name == "__builtins__":
                continue
            if name.startswith("g_loader_"):
                f = name[len("g_loader_"):]
                if f not in self.loaders:
                    v = V("sym", t=z3.Const(f"loader_{f}", T.Val))
                    self.loaders[f] = v
                set_discipline(self.interp, self.loaders[f], "LD")
                env[name] = self.loaders[f]
            elif name == "g_constructor":
                if self.constructor is None:
                    self.constructor = V("sym", t=z3.Const("constructor", T.Val))
                set_discipline(self.interp, self.constructor, "TOTAL")
                env[name] = self.constructor
            else:
                glob[name] = val
        self.env = env
        self.st0 = st
        self.root = root
        self.paths = []

    def run(self):
        interp = self.interp
        st = self.st0
        if self.root is None:
            self.root = symdata.SNode(interp, st, "data")
        interp.ensure_trails(st)
        interp.loop_ordinals = {}
        self._install_extras_loops()
        clo = Closure(self.maker, dict(self.env), "__maker__", None, False)
        made = list(interp.call_closure(st, clo, [], {}))
        if len(made) != 1 or made[0][1][0] != "ok" or made[0][1][1].kind != "fn":
            raise Unsupported("closure maker did not return the loader")
        s1, r = made[0]
        interp.entry_state = s1.fork()
        for s2, r2 in interp.call_closure(s1, r[1].d, [self.root.value()], {}):
            interp.normalize_arrays(s2)
            self.paths.append((s2, r2))
            if len(self.paths) > self.ctx.max_paths:
                raise Unsupported("path explosion in generated loader")
        return self.paths

    def _install_extras_loops(self):
        """Loops of generated loaders have one shape: `for key in set(d) - known: extra[key] = d[key]`.
        Their invariant is synthesised from the AST (the copied prefix of the unprobed keys)."""
        from pyvc.contracts import LoopSpec
        from pyvc import extract
        ords = {}
        specs = {}
        k = 0
        for n in ast.walk(self.fn):
            if isinstance(n, ast.For):
                body = n.body
                ok = (len(body) == 1 and isinstance(body[0], ast.Assign) and isinstance(body[0].targets[0], ast.Subscript)
                      and isinstance(body[0].targets[0].value, ast.Name) and isinstance(body[0].value, ast.Subscript)
                      and isinstance(body[0].value.value, ast.Name))
                if not ok:
                    raise Unsupported("unexpected loop shape in generated loader")
                tgt = body[0].targets[0].value.id
                srcn = body[0].value.value.id
                ords[id(n)] = k
                specs[k] = LoopSpec(inv=[
                    f"extras_prefix({tgt}, {srcn}, _i)",
                ])
                k += 1
        self.interp.loop_ordinals = ords
        self.interp.loop_specs = specs
