"""Contracts for type_tools/normalize_type.py (C15).

Within reach of unbounded proof: `_dedup` (order-preserving de-duplication by ==/hash).  It is sound and complete *for the
equality it uses*; the property needs more where Literal arguments are concerned: values of different types never collapse
(`Literal[0]` vs `Literal[False]`), so the de-duplication of literal arguments must be *typed*.  That requirement is the
clause `typed-support` on `_create_norm_literal`, checked for all argument tuples over a pool of confusable literal values
(bounded), and by the bounded rewrite check of props/C15.py on the whole `normalize_type`.
"""
from pyvc.contracts import LoopSpec, contract

F = "type_tools/normalize_type.py"
IN_RES = "exists(lambda k: 0 <= k and k < len(result) and py_eq(inp[{i}], result[k]))"
contract(F, "_dedup", props=["C15"], params={"inp": "sym"},
         post={
             "complete": f"implies(returned, forall(lambda i: implies(0 <= i and i < len(inp), {IN_RES.format(i='i')})))",
             "sound": "implies(returned, forall(lambda k: implies(0 <= k and k < len(result), exists(lambda i: 0 <= i and i < len(inp) and result[k] is inp[i]))))",
             "no-duplicates": ("implies(returned, forall(lambda k1, k2: implies(0 <= k1 and k1 < k2 and k2 < len(result), "
                               "not py_eq(result[k1], result[k2]))))"),
             "raises-nothing": "returned",
         },
         loops={0: LoopSpec(inv=[
             "len(in_set) == len(result)",
             "forall(lambda k: implies(0 <= k and k < len(result), in_set[k] is result[k]))",
             "forall(lambda i: implies(0 <= i and i < _i, exists(lambda k: 0 <= k and k < len(result) and py_eq(inp[i], result[k]))))",
             "forall(lambda k: implies(0 <= k and k < len(result), exists(lambda i: 0 <= i and i < _i and result[k] is inp[i])))",
             "forall(lambda k1, k2: implies(0 <= k1 and k1 < k2 and k2 < len(result), not py_eq(result[k1], result[k2])))",
         ])},
         notes=["py_eq is assumed reflexive and symmetric (an equivalence is not needed for these clauses)"],
         cover=["returned"])

# `_dedup` under a second, separate contract: the result keeps the order of FIRST occurrences (it is a subsequence of the input), and
# an input without duplicates comes back element by element.  (C15: the member order of a canonical form does not depend on how often a
# member was repeated.)
def _dedup_scenarios(mod):
    out = []
    for inp in [[], [1, 2, 3], [3, 1, 3, 2, 1], ["a", "a"], [(int, 1), (bool, True), (int, 1)], [2, 1]]:
        def factory(inp=inp):
            return mod._dedup, {"inp": list(inp)}, {}
        out.append((repr(inp), factory))
    return out


contract(F, "_dedup", name=F + ":_dedup[order]", props=["C15"], params={"inp": "sym"}, scenarios=_dedup_scenarios,
         post={
             "subsequence": ("implies(returned, forall(lambda k1, k2: implies(0 <= k1 and k1 < k2 and k2 < len(result), "
                             "exists(lambda i1, i2: 0 <= i1 and i1 < i2 and i2 < len(inp) and result[k1] is inp[i1] and result[k2] is inp[i2]))))"),
             "no-duplicates-identity": ("implies(returned and forall(lambda i1, i2: implies(0 <= i1 and i1 < i2 and i2 < len(inp), not py_eq(inp[i1], inp[i2]))), "
                                        "len(result) == len(inp) and forall(lambda k: implies(0 <= k and k < len(inp), result[k] is inp[k])))"),
         },
         loops={0: LoopSpec(inv=[
             "len(in_set) == len(result)",
             "forall(lambda k: implies(0 <= k and k < len(result), in_set[k] is result[k]))",
             "forall(lambda k: implies(0 <= k and k < len(result), exists(lambda i: 0 <= i and i < _i and result[k] is inp[i])))",
             "forall(lambda k1, k2: implies(0 <= k1 and k1 < k2 and k2 < len(result), "
             "exists(lambda i1, i2: 0 <= i1 and i1 < i2 and i2 < _i and result[k1] is inp[i1] and result[k2] is inp[i2])))",
             "exists(lambda i1, i2: 0 <= i1 and i1 < i2 and i2 < _i and py_eq(inp[i1], inp[i2])) or (len(result) == _i and "
             "forall(lambda k: implies(0 <= k and k < _i, result[k] is inp[k])))",
         ])},
         notes=["py_eq is assumed reflexive and symmetric"], cover=["returned"])


# ---- Union normalisation, step 1: nested unions are unfolded in place, nothing else is touched, order is kept ----------------------
# (C15: "union members ... nested": Union[Union[A, B], C] and Union[A, B, C] get the same member list)
def _unfold_scenarios(mod):
    import typing as t
    out = []
    pools = [[int, str], [t.Union[int, str], bytes], [t.Optional[int], t.Union[str, bytes], float], [], [t.List[t.Union[int, str]]],
             [t.Union[int, str], t.Union[int, bytes]]]
    for hints in pools:
        def factory(hints=hints):
            n = mod.TypeNormalizer(mod.ImplicitParamsGetter())
            return mod.TypeNormalizer._unfold_union_args, {"self": n, "norm_args": [n.normalize(h) for h in hints]}, {}
        out.append((repr(hints).replace("typing.", ""), factory))
    return out


IS_U = "py_eq(norm_args[{i}].origin, Union)"
contract(F, "TypeNormalizer._unfold_union_args", props=["C15"], params={"self": ("const", None), "norm_args": "sym"},
         consts={"Union": __import__("typing").Union},
         post={
             "raises-nothing": "returned",
             # every member that is not a union is kept
             "keeps-plain-members": ("implies(returned, forall(lambda i: implies(0 <= i and i < len(norm_args) and not " + IS_U.format(i="i") + ", "
                                     "exists(lambda k: 0 <= k and k < len(result) and result[k] is norm_args[i]))))"),
             # every member of a nested union is lifted
             "lifts-nested-members": ("implies(returned, forall(lambda i, m: implies(0 <= i and i < len(norm_args) and " + IS_U.format(i="i") + " and "
                                      "0 <= m and m < len(norm_args[i].args), exists(lambda k: 0 <= k and k < len(result) and "
                                      "result[k] is norm_args[i].args[m]))))"),
             # nothing is invented
             "only-members": ("implies(returned, forall(lambda k: implies(0 <= k and k < len(result), exists(lambda i: 0 <= i and i < len(norm_args) and "
                              "ite(" + IS_U.format(i="i") + ", exists(lambda m: 0 <= m and m < len(norm_args[i].args) and result[k] is norm_args[i].args[m]), "
                              "result[k] is norm_args[i])))))"),
         },
         loops={0: LoopSpec(inv=[
             "forall(lambda i: implies(0 <= i and i < _i and not " + IS_U.format(i="i") + ", exists(lambda k: 0 <= k and k < len(result) and result[k] is norm_args[i])))",
             "forall(lambda i, m: implies(0 <= i and i < _i and " + IS_U.format(i="i") + " and 0 <= m and m < len(norm_args[i].args), "
             "exists(lambda k: 0 <= k and k < len(result) and result[k] is norm_args[i].args[m])))",
             "forall(lambda k: implies(0 <= k and k < len(result), exists(lambda i: 0 <= i and i < _i and "
             "ite(" + IS_U.format(i="i") + ", exists(lambda m: 0 <= m and m < len(norm_args[i].args) and result[k] is norm_args[i].args[m]), result[k] is norm_args[i]))))",
         ])},
         scenarios=_unfold_scenarios, cover=["returned"])

# The same function under a second, separate contract (its own invariant: keeping the two arguments apart keeps each solver query
# small — with the identity invariant added to the three above, `inv-preserve/1` of the `extend` path went `unknown` in z3 and cvc5):
# a union without nested unions is left exactly as it is — same members, same order.
contract(F, "TypeNormalizer._unfold_union_args", name=F + ":TypeNormalizer._unfold_union_args[identity]", props=["C15"],
         params={"self": ("const", None), "norm_args": "sym"}, consts={"Union": __import__("typing").Union},
         post={
             "no-nested-identity": ("implies(returned and forall(lambda i: implies(0 <= i and i < len(norm_args), not " + IS_U.format(i="i") + ")), "
                                    "len(result) == len(norm_args) and forall(lambda k: implies(0 <= k and k < len(norm_args), result[k] is norm_args[k])))"),
         },
         loops={0: LoopSpec(inv=[
             "exists(lambda i: 0 <= i and i < _i and " + IS_U.format(i="i") + ") or (len(result) == _i and "
             "forall(lambda k: implies(0 <= k and k < _i, result[k] is norm_args[k])))",
         ])},
         scenarios=_unfold_scenarios, cover=["returned"])


# ---- Union normalisation, step 3: all Literal members are merged into ONE Literal member placed last; every other member is kept,
# in order (C15: "literal unions merged or split").  `_create_norm_literal` is abstracted here (typed de-duplication: `_dedup` above
# and the bounded check of props/C15.py).
def _merge_scenarios(mod):
    import typing as t
    out = []
    pools = [[int, str], [t.Literal[1], int], [t.Literal[1], int, t.Literal["a", 2]], [t.Literal[0], t.Literal[False]], [], [t.Literal["x"]],
             [bytes, t.Literal[1, 2], t.List[int], t.Literal[3]]]
    for hints in pools:
        def factory(hints=hints):
            n = mod.TypeNormalizer(mod.ImplicitParamsGetter())
            return mod.TypeNormalizer._merge_literals, {"self": n, "args": [n.normalize(h) for h in hints]}, {}
        out.append((repr(hints).replace("typing.", ""), factory))
    return out


IS_L = "py_eq(args[{i}].origin, Literal)"
contract(F, "TypeNormalizer._merge_literals", props=["C15"], params={"self": ("const", None), "args": "sym"},
         consts={"Literal": __import__("typing").Literal},
         opaque={"_create_norm_literal": (lambda m: m._create_norm_literal, [])},
         post={
             "raises-nothing": "returned",
             "keeps-other-members": ("implies(returned, forall(lambda i: implies(0 <= i and i < len(args) and not " + IS_L.format(i="i") + ", "
                                     "exists(lambda k: 0 <= k and k < len(result) and result[k] is args[i]))))"),
             # everything except possibly the last element is an original non-literal member: no literal member survives unmerged
             "literals-only-merged": ("implies(returned, forall(lambda k: implies(0 <= k and k < len(result) - 1, exists(lambda i: 0 <= i and i < len(args) "
                                      "and result[k] is args[i] and not " + IS_L.format(i="i") + "))))"),
             # merging never grows the member list: at most ONE element is added for all literal members together, and only if there is
             # a literal member to merge
             "never-grows": "implies(returned, len(result) <= len(args))",
             "no-literal-no-addition": ("implies(returned and forall(lambda i: implies(0 <= i and i < len(args), not " + IS_L.format(i="i") + ")), "
                                        "len(result) == len(args) and forall(lambda k: implies(0 <= k and k < len(args), result[k] is args[k])))"),
         },
         loops={0: LoopSpec(inv=[
             "forall(lambda i: implies(0 <= i and i < _i and not " + IS_L.format(i="i") + ", exists(lambda k: 0 <= k and k < len(result) and result[k] is args[i])))",
             "forall(lambda k: implies(0 <= k and k < len(result), exists(lambda i: 0 <= i and i < _i and result[k] is args[i] and not " + IS_L.format(i="i") + ")))",
             "len(result) <= _i",
             "implies(len(lit_args) > 0, len(result) < _i)",
             "implies(forall(lambda i: implies(0 <= i and i < _i, not " + IS_L.format(i="i") + ")), len(lit_args) == 0 and len(result) == _i and "
             "forall(lambda k: implies(0 <= k and k < _i, result[k] is args[k])))",
         ])},
         scenarios=_merge_scenarios, cover=["returned"])
