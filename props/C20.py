"""C20: unit contracts (contracts/*.py) plus the GENPROG obligations that carry this property (generated model loaders, dumpers, converters),
plus a bounded probe with inputs OUTSIDE the data universe D: mappings whose own `__getitem__` has a side effect (collections.defaultdict).
D deliberately contains only mappings that are read without side effects; on a defaultdict even `data['key']` inserts the key, so what
adaptix may do at most is never to subscript a key it has not seen.  The probe snapshots the input before and after loading."""
import itertools


def side_effecting_mappings():
    from collections import defaultdict
    from dataclasses import dataclass, field

    from adaptix import DebugTrail, Retort

    @dataclass
    class M:
        a: int
        b: int
        c: int = 5
        d: list = field(default_factory=list)
    kinds = {"a": "required", "b": "required", "c": "optional", "d": "optional"}
    viol, n = [], 0
    for dt in DebugTrail:
        loader = Retort(debug_trail=dt).get_loader(M)
        for present in itertools.chain.from_iterable(itertools.combinations("abcd", k) for k in range(0, 5)):
            n += 1
            data = defaultdict(int, {k: ([] if k == "d" else 1) for k in present})
            before = dict(data)
            try:
                loader(data)
            except Exception:  # noqa: BLE001,S110
                pass
            inserted = sorted(set(data) - set(before))
            changed = sorted(k for k in before if data.get(k) != before[k])
            if inserted or changed:
                ik = "+".join(sorted({kinds.get(k, "unknown") for k in inserted})) or "none"
                viol.append({"unit": "model loader on a defaultdict", "clause": "input-unchanged",
                             "witness": f"{dt.name}; present={''.join(present) or '-'}; inserted-kinds={ik}",
                             "w": {"input": f"defaultdict(int, {before!r}) loaded as M(a, b, c=5, d=[]) under {dt.name}"[:300],
                                   "native_outcome": f"the input became {dict(data)!r}: keys {inserted} were inserted by subscripting"[:300]}})
    return {"obligations": 0, "discharged": 0, "violations": viol, "solver_time": 0.0,
            "bounded": [{"unit": "model loader on mappings with a side-effecting __getitem__ (collections.defaultdict; outside D)",
                         "bound": f"{n} inputs: every subset of 4 keys (2 required, 2 optional) x 3 debug-trail modes"}],
            "samples": [{"defaultdict_inputs": n, "mutated": len(viol)}],
            "assumptions": ["D contains only mappings read without side effects; defaultdict is probed separately (bounded)"]}


def extra_out_dumpers():
    """Dumpers with `extra_out` (extractor / target field) are outside the symbolic dumper family (`{**result, **extra}` over a
    symbolic mapping): bounded native probe — for every subset of omitted fields the dump is a NEW mapping holding exactly the
    emitted fields plus the extras, never the mapping kept inside the object or returned by the extractor."""
    from dataclasses import dataclass, field
    from typing import Any, Dict

    from adaptix import DebugTrail, Retort, name_mapping

    @dataclass
    class M:
        a: int = 1
        b: str = "x"
        extra: Any = field(default_factory=dict)

    @dataclass
    class MD:
        a: int = 1
        b: str = "x"
        extra: Dict[str, int] = field(default_factory=dict)
    viol, n = [], 0

    def extractor(obj):
        return obj.extra
    configs = {
        "extractor+omit": (M, dict(omit_default=True, extra_out=extractor, skip=["extra"])),
        "extractor": (M, dict(extra_out=extractor, skip=["extra"])),
        "target-any+omit": (M, dict(omit_default=True, extra_out="extra")),
        "target-dict+omit": (MD, dict(omit_default=True, extra_out="extra")),
        "extractor+skip-all": (M, dict(extra_out=extractor, skip=["a", "b", "extra"])),
    }
    for (cname, (cls, kw)), dt in itertools.product(configs.items(), DebugTrail):
        dumper = Retort(recipe=[name_mapping(cls, **kw)], debug_trail=dt).get_dumper(cls)
        for a, b, extra in itertools.product((1, 2), ("x", "y"), ({}, {"k": 1})):
            n += 1
            obj = cls(a, b, dict(extra))
            snap = repr(obj)
            label = f"{cname}; {dt.name}; a={a} b={b!r} extra={extra!r}"

            def report(clause, detail):
                viol.append({"unit": "model dumper with extra_out", "clause": clause, "witness": label,
                             "w": {"input": f"{cls.__name__}({a}, {b!r}, {extra!r}) with name_mapping({', '.join(kw)})"[:300], "native_outcome": detail[:300]}})
            try:
                out1, out2 = dumper(obj), dumper(obj)
            except Exception as e:  # noqa: BLE001
                report("dumps", f"raised {type(e).__name__}: {e}")
                continue
            want = dict(extra)
            skip = set(kw.get("skip", ()))
            for f_, v, dflt in (("a", a, 1), ("b", b, "x")):
                if f_ not in skip and not (kw.get("omit_default") and v == dflt):
                    want[f_] = v
            if out1 != want:
                report("extras-merged", f"dump gave {out1!r}, expected {want!r}")
            if out1 is obj.extra or out1 is out2:
                report("fresh-result", "the dump result is " + ("the mapping stored in the object" if out1 is obj.extra else "shared between two calls"))
            if repr(obj) != snap:
                report("modifies-nothing", f"the object changed to {obj!r}")
    # several extra targets: the generated dumper merges the dumped mappings of all targets (`extra_stack`); a target dumped as is
    # (Any) is the mapping stored in the object itself, so the merge must never be done in place
    @dataclass
    class M2:
        a: int = 1
        b: str = "x"
        x1: Any = field(default_factory=dict)
        x2: Dict[str, int] = field(default_factory=dict)
        x3: Any = field(default_factory=dict)
    n2 = 0
    for targets, omit, dt in itertools.product((["x1", "x2"], ["x2", "x1"], ["x1", "x3"], ["x1", "x2", "x3"]), (False, True), DebugTrail):
        skip = [f_ for f_ in ("x1", "x2", "x3") if f_ not in targets]
        dumper = Retort(recipe=[name_mapping(M2, extra_out=targets, omit_default=omit, skip=skip)], debug_trail=dt).get_dumper(M2)
        for a, e1, e2 in itertools.product((1, 2), ({}, {"k": 1}), ({}, {"m": 2})):
            n2 += 1
            extras = {"x1": dict(e1), "x2": dict(e2), "x3": {"z": 3}}
            obj = M2(a, "x", extras["x1"], extras["x2"], extras["x3"])
            snap = repr(obj)
            label = f"targets={'+'.join(targets)}; omit={omit}; {dt.name}; a={a} x1={e1!r} x2={e2!r}"

            def report2(clause, detail):
                viol.append({"unit": "model dumper with extra_out", "clause": clause, "witness": label,
                             "w": {"input": f"M2({a}, 'x', {e1!r}, {e2!r}, {{'z': 3}}) with extra_out={targets!r}"[:300], "native_outcome": detail[:300]}})
            try:
                out1, out2 = dumper(obj), dumper(obj)
            except Exception as e:  # noqa: BLE001
                report2("dumps", f"raised {type(e).__name__}: {e}")
                continue
            want = {}
            for t_ in targets:
                want.update(extras[t_] if t_ != "x3" else {"z": 3})
            if not (omit and a == 1):
                want["a"] = a
            if not omit:
                want["b"] = "x"
            if out1 != want or out2 != want:
                report2("extras-merged", f"dumps gave {out1!r} then {out2!r}, expected {want!r}")
            if any(out1 is getattr(obj, t_) for t_ in ("x1", "x2", "x3")) or out1 is out2:
                report2("fresh-result", "the dump result is a mapping stored in the object or shared between two calls")
            if repr(obj) != snap:
                report2("modifies-nothing", f"the object changed from {snap} to {obj!r}")
    # ... and a model with an OPTIONAL output field (TypedDict NotRequired key): the generated dumper then collects the targets one by
    # one at run time (`extra_stack`) instead of unpacking them into one literal
    from typing import TypedDict
    try:
        from typing import NotRequired
    except ImportError:  # pragma: no cover
        from typing_extensions import NotRequired

    class TD(TypedDict):
        a: int
        c: NotRequired[str]
        x1: Any
        x2: Dict[str, int]
        x3: Any
    n3 = 0
    for targets, dt in itertools.product((["x1", "x2"], ["x2", "x1"], ["x1", "x3"], ["x3", "x2", "x1"]), DebugTrail):
        skip = [f_ for f_ in ("x1", "x2", "x3") if f_ not in targets]
        dumper = Retort(recipe=[name_mapping(TD, extra_out=targets, skip=skip)], debug_trail=dt).get_dumper(TD)
        for has_c, e1, e2 in itertools.product((False, True), ({}, {"k": 1}), ({}, {"m": 2})):
            n3 += 1
            obj = {"a": 1, "x1": dict(e1), "x2": dict(e2), "x3": {"z": 3}}
            if has_c:
                obj["c"] = "cc"
            snap = repr(obj)
            label = f"typeddict; targets={'+'.join(targets)}; {dt.name}; c={'present' if has_c else 'absent'} x1={e1!r} x2={e2!r}"

            def report3(clause, detail):
                viol.append({"unit": "model dumper with extra_out", "clause": clause, "witness": label,
                             "w": {"input": f"TypedDict {obj!r} with extra_out={targets!r}"[:300], "native_outcome": detail[:300]}})
            try:
                out1, out2 = dumper(obj), dumper(obj)
            except Exception as e:  # noqa: BLE001
                report3("dumps", f"raised {type(e).__name__}: {e}")
                continue
            want = {"a": 1}
            if has_c:
                want["c"] = "cc"
            for t_ in targets:
                want.update({"x1": e1, "x2": e2, "x3": {"z": 3}}[t_])
            if out1 != want or out2 != want:
                report3("extras-merged", f"dumps gave {out1!r} then {out2!r}, expected {want!r}")
            if any(out1 is obj[t_] for t_ in ("x1", "x2", "x3")) or out1 is out2:
                report3("fresh-result", "the dump result is a mapping stored in the object or shared between two calls")
            if repr(obj) != snap:
                report3("modifies-nothing", f"the object changed from {snap} to {obj!r}")
    return {"obligations": 0, "discharged": 0, "violations": viol, "solver_time": 0.0,
            "bounded": [{"unit": "model dumpers with several extra_out targets on a TypedDict with a NotRequired key (targets collected at run time)",
                         "bound": f"{n3} dumps: 4 target lists x 3 debug-trail modes x 8 objects"},
                        {"unit": "model dumpers with extra_out (extractor / target field)",
                         "bound": f"{n} dumps: 5 configurations x 3 debug-trail modes x 8 objects (every subset of omitted fields, empty / non-empty extras)"},
                        {"unit": "model dumpers with several extra_out targets (as-is and typed mappings, both orders)",
                         "bound": f"{n2} dumps: 4 target lists x omit_default on/off x 3 debug-trail modes x 8 objects"}],
            "samples": [{"extra_out_dumps": n, "failed": len(viol)}],
            "assumptions": ["extra_out dumpers are checked only on this bounded family"]}


def extra_checks(tier, seed):
    from genprog.check import extra_for_property
    return [extra_for_property("C20", tier, seed), side_effecting_mappings(), extra_out_dumpers()]
