"""C10 extras (bounded stand-in, labelled bounded): the construction of checkers from predicates over live typing objects
(`create_loc_stack_checker`, the `P` builder) is reflection, so the composition is decided by exhaustive enumeration:
every predicate expression up to a nesting bound over a printed universe of classes / field names, evaluated on every
location stack up to a depth bound, against a reference semantics written from the tutorial's "Predicate system" section
and the property text (not from loc_stack_filtering.py).  The per-function contracts (contracts/loc_stack_filtering.py) carry
the unbounded part."""
import abc
import itertools
import re
import time
import typing
from typing import List, Optional, Protocol, runtime_checkable

LEVEL_TEXT = ("checker classes proved per function for arbitrary inner predicates, chain lengths and stacks (loop invariant, "
              "quantified any/all); predicate construction and the P identities enumerated exhaustively up to a stated bound")


class Base:
    pass


class Child(Base):
    pass


class Shape(abc.ABC):
    @abc.abstractmethod
    def area(self):
        ...


class Square(Shape):
    def area(self):
        return 1


@runtime_checkable
class HasName(Protocol):
    def name(self):
        ...


class Named:
    def name(self):
        return "n"


FIELD_IDS = ["a", "ab", "user_id", "b_"]
LOC_TYPES = [int, str, Base, Child, Square, Named, list, List[int], list[str], Optional[int]]


# ------------------------------------------------------------------------------------------------ reference semantics
def _origin(tp):
    return typing.get_origin(tp) or tp


def ref_atom(pred, loc):
    """does the atomic predicate accept a stack whose LAST location is `loc`"""
    kind = pred[0]
    if kind == "str":
        s = pred[1]
        fid = getattr(loc, "field_id", None)
        if fid is None:
            return False
        return s == fid if s.isidentifier() else re.fullmatch(s, fid) is not None
    if kind == "re":
        fid = getattr(loc, "field_id", None)
        return fid is not None and pred[1].fullmatch(fid) is not None
    if kind == "cls":           # a class: all same types
        c = pred[1]
        return isinstance(_origin(loc.type), type) and _origin(loc.type) is c
    if kind == "sub":           # abstract class / runtime protocol: all subclasses / implementations
        c = pred[1]
        o = _origin(loc.type)
        return isinstance(o, type) and issubclass(o, c)
    if kind == "hint":          # a parametrised hint: exactly that type (up to spelling)
        return _canon(loc.type) == _canon(pred[1])
    raise ValueError(kind)


def _canon(tp):
    o = typing.get_origin(tp)
    if o is None:
        return tp
    if o is typing.Union:
        return ("union", frozenset(_canon(a) for a in typing.get_args(tp)))
    return (o, tuple(_canon(a) for a in typing.get_args(tp)))


def ref_match(pred, stack):
    kind = pred[0]
    if kind in ("str", "re", "cls", "sub", "hint"):
        return ref_atom(pred, stack[-1])
    if kind == "any":
        return True
    if kind == "chain":
        els = pred[1]
        if len(stack) < len(els):
            return False
        n = len(els)
        return all(ref_match(els[n - 1 - k], stack[:len(stack) - k]) for k in range(n))
    if kind == "or":
        return any(ref_match(p, stack) for p in pred[1:])
    if kind == "and":
        return all(ref_match(p, stack) for p in pred[1:])
    if kind == "xor":
        r = False
        for p in pred[1:]:
            r ^= ref_match(p, stack)
        return r
    if kind == "not":
        return not ref_match(pred[1], stack)
    raise ValueError(kind)


# ------------------------------------------------------------------------------------------------ the real predicates
def build(pred, api):
    """the real predicate object for a predicate AST (a value accepted by create_loc_stack_checker)"""
    P = api["P"]
    kind = pred[0]
    if kind in ("str", "re", "cls", "sub", "hint"):
        return pred[1]
    if kind == "any":
        return P.ANY
    if kind == "chain":
        p = P
        for el in pred[1]:
            if el[0] == "str" and el[1].isidentifier() and el[2:] == ("attr",):
                p = getattr(p, el[1])
            elif el[0] in ("or", "and", "xor", "not", "chain"):
                p = p[api["create"](build(el, api))]
            else:
                p = p[build(el, api)]
        return p
    if kind in ("or", "and", "xor"):
        parts = [_as_p(build(p, api), api) for p in pred[1:]]
        r = parts[0]
        for q in parts[1:]:
            r = r | q if kind == "or" else r & q if kind == "and" else r ^ q
        return r
    if kind == "not":
        return ~_as_p(build(pred[1], api), api)
    raise ValueError(kind)


def _as_p(x, api):
    if isinstance(x, (api["LocStackPattern"], api["LocStackChecker"])):
        return x
    return api["P"][x]


def show(pred):
    kind = pred[0]
    if kind in ("str", "re"):
        return repr(pred[1] if kind == "str" else pred[1].pattern)
    if kind in ("cls", "sub", "hint"):
        return getattr(pred[1], "__name__", repr(pred[1]))
    if kind == "any":
        return "ANY"
    if kind == "chain":
        return "P" + "".join(f"[{show(e)}]" for e in pred[1])
    if kind == "not":
        return f"~({show(pred[1])})"
    return "(" + {"or": " | ", "and": " & ", "xor": " ^ "}[kind].join(show(p) for p in pred[1:]) + ")"


def extra_checks(tier, seed):
    from adaptix import P
    from adaptix._internal.model_tools.definitions import NoDefault, create_attr_accessor
    from adaptix._internal.provider import location as L
    from adaptix._internal.provider.loc_stack_filtering import (
        LocStack,
        LocStackChecker,
        LocStackPattern,
        create_loc_stack_checker,
    )
    t0 = time.time()
    api = {"P": P, "create": create_loc_stack_checker, "LocStackPattern": LocStackPattern, "LocStackChecker": LocStackChecker}
    base = {"default": NoDefault(), "metadata": {}}
    thorough = tier == "thorough"
    loc_types = LOC_TYPES if thorough else [int, Child, Square, Named, List[int], list[str], Optional[int], Base]
    fids = FIELD_IDS if thorough else ["a", "ab", "user_id"]
    locs = [L.TypeHintLoc(type=t) for t in loc_types]
    locs += [L.InputFieldLoc(type=t, field_id=f, is_required=True, **base) for f in fids for t in (int, Child)]
    locs += [L.OutputFieldLoc(type=Square, field_id=fids[1], accessor=create_attr_accessor(fids[1], is_required=True), **base),
             L.FieldLoc(type=Named, field_id=fids[0], **base), L.GenericParamLoc(type=int, generic_pos=0)]
    max_depth = 3
    stacks = [tuple(c) for d in range(1, max_depth + 1) for c in itertools.product(locs, repeat=d)] if thorough else \
        [tuple(c) for d in (1, 2) for c in itertools.product(locs, repeat=d)] + \
        [tuple(c) for c in itertools.product(locs[::3], locs, locs[::2])]
    atoms = [("cls", int), ("cls", Base), ("cls", Child), ("cls", list), ("sub", Shape), ("sub", HasName), ("hint", List[int]),
             ("hint", Optional[int]), ("str", "a"), ("str", "ab"), ("str", "a|ab"), ("str", "a.*"), ("str", ".*_id"),
             ("str", r"[a-z]+?"), ("re", re.compile("ab|a")), ("str", "user_id")]
    if not thorough:
        atoms = [a for a in atoms if a[1] not in (Base, "a.*", "user_id")]
    field_atoms = [a for a in atoms if a[0] in ("str", "re")]
    type_atoms = [a for a in atoms if a[0] not in ("str", "re")]
    preds = list(atoms) + [("any",)]
    # chains: class.field, class.field.class..., ANY in every position
    some_t, some_f = type_atoms[:5], field_atoms[:4]
    for t, f in itertools.product(some_t, some_f):
        preds.append(("chain", [t, f]))
    for t, f, t2 in itertools.product(some_t[:3], some_f[:2], some_t[:3]):
        preds.append(("chain", [t, f, t2]))
    for t, f in itertools.product(some_t[:3], some_f[:2]):
        preds += [("chain", [t, ("any",), f]), ("chain", [("any",), t, f]), ("chain", [t, f, ("any",)]),
                  ("chain", [t, ("str", "a", "attr")]), ("chain", [t, ("or", f, ("str", "user_id"))])]
    # combinators, nesting 2
    small = [atoms[0], atoms[2], field_atoms[0], field_atoms[2], ("chain", [type_atoms[1], field_atoms[1]]), ("any",)]
    for a, b in itertools.product(small, repeat=2):
        preds += [("or", a, b), ("and", a, b), ("xor", a, b)]
    for a in small:
        preds += [("not", a), ("not", ("or", a, small[2])), ("and", ("not", a), small[0]), ("xor", a, small[1], small[3])]
    for a, b in itertools.product(small[:3], repeat=2):
        preds.append(("chain", [("and", a, ("not", b)), field_atoms[0]]))

    viol = []
    n_eval = 0

    def check_one(pred, built=None, shown=None):
        """`built`: a predicate object assembled in another way (e.g. with `+`) that must mean `pred`"""
        nonlocal n_eval
        shown_ = shown or show(pred)
        try:
            checker = create_loc_stack_checker(build(pred, api) if built is None else built())
        except Exception as e:  # noqa: BLE001
            viol.append({"unit": "create_loc_stack_checker", "clause": "creation", "witness": shown_[:160],
                         "w": {"native_outcome": f"{type(e).__name__}: {e}"[:300], "input": shown_[:200]}})
            return
        bad = 0
        for st in stacks:
            n_eval += 1
            want = ref_match(pred, st)
            try:
                got = checker.check_loc_stack(None, LocStack(*st))
            except Exception as e:  # noqa: BLE001
                got = f"{type(e).__name__}: {e}"
            if got is not want:
                bad += 1
                if bad <= 2:
                    viol.append({"unit": "create_loc_stack_checker", "clause": "matches-as-documented",
                                 "witness": f"{shown_} on {_show_stack(st)}"[:200],
                                 "w": {"native_outcome": f"checker says {got!r}, the documented rules say {want!r}",
                                       "input": f"{shown_} | {_show_stack(st)}"[:300]}})
    for pred in preds:
        check_one(pred)
        if len(viol) > 40:
            break
    # `+` concatenates chains of ANY length, in every bracketing: p + q means the elements of p followed by the elements of q
    parts = [[t] for t in some_t[:3]] + [[f] for f in some_f[:2]] + [[t, f] for t, f in itertools.product(some_t[:2], some_f[:2])] + \
        [[f, t] for t, f in itertools.product(some_t[1:3], some_f[:2])] + [[some_t[0], some_f[0], some_t[1]], [("any",), some_f[1]]]
    n_plus = 0
    for c1, c2 in itertools.product(parts, repeat=2):
        if len(viol) > 40:
            break
        n_plus += 1
        check_one(("chain", c1 + c2), built=lambda c1=c1, c2=c2: build(("chain", c1), api) + build(("chain", c2), api),
                  shown=f"{show(('chain', c1))} + {show(('chain', c2))}")
    for c1, c2, c3 in itertools.product(parts[:5] + parts[9:11], repeat=3):
        if len(viol) > 40:
            break
        n_plus += 2
        b = lambda c: build(("chain", c), api)  # noqa: E731
        check_one(("chain", c1 + c2 + c3), built=lambda c1=c1, c2=c2, c3=c3: b(c1) + (b(c2) + b(c3)),
                  shown=f"{show(('chain', c1))} + ({show(('chain', c2))} + {show(('chain', c3))})")
        check_one(("chain", c1 + c2 + c3), built=lambda c1=c1, c2=c2, c3=c3: (b(c1) + b(c2)) + b(c3),
                  shown=f"({show(('chain', c1))} + {show(('chain', c2))}) + {show(('chain', c3))}")

    # documented identities, as semantic equality over all stacks
    n_ident = 0

    def same(name, p1, p2):
        nonlocal n_ident
        c1, c2 = create_loc_stack_checker(p1), create_loc_stack_checker(p2)
        for st in stacks:
            n_ident += 1
            ls = LocStack(*st)
            r1, r2 = c1.check_loc_stack(None, ls), c2.check_loc_stack(None, ls)
            if r1 is not r2:
                viol.append({"unit": "LocStackPattern", "clause": f"identity:{name}", "witness": _show_stack(st)[:160],
                             "w": {"native_outcome": f"left side {r1!r}, right side {r2!r}", "input": _show_stack(st)[:300]}})
                return
    classes = [int, Base, Child, Shape, HasName]
    for n in ("a", "ab", "user_id"):
        same("P['n'] == P.n", P[n], getattr(P, n))
        for A in classes:
            same("P[A] + P.n == P[A].n", P[A] + getattr(P, n), getattr(P[A], n))
    for A in classes:
        same("P[A] == A", P[A], A)
        for B in classes:
            same("P[A, B] == P[A] | P[B]", P[A, B], P[A] | P[B])
    return [{
        "obligations": 0, "discharged": 0, "violations": viol,
        "bounded": [{"unit": "create_loc_stack_checker / P builder over live typing objects",
                     "bound": f"{len(preds)} predicate expressions (nesting <= 2, chains <= 3) + {n_plus} `+` concatenations (2 and 3 operands, "
                              f"operands of 1-3 elements, both bracketings) x {len(stacks)} location stacks "
                              f"(depth <= {max_depth}, {len(locs)} locations): {n_eval} evaluations; {n_ident} identity evaluations"}],
        "samples": [{"predicates": len(preds), "stacks": len(stacks), "evaluations": n_eval, "identity_evaluations": n_ident,
                     "failed": len(viol), "seconds": round(time.time() - t0, 1)}],
        "assumptions": ["reference semantics transcribed from docs/loading-and-dumping/tutorial.rst (Predicate system) and the "
                        "property text; typing reflection is outside the contracts"],
        "solver_time": 0.0,
    }]


def _show_stack(st):
    out = []
    for loc in st:
        fid = getattr(loc, "field_id", None)
        t = getattr(loc.type, "__name__", repr(loc.type))
        out.append(f"{type(loc).__name__}({fid + ': ' if fid else ''}{t})")
    return " > ".join(out)
