"""GENPROG for generated model DUMPERS (DESIGN.md Appendix D.3).

result is a new dict/list tree with  at(result, path_f) == res(dumper_f, value_f)  for every present field that is not
omitted; omitted <=> omit_default applies and the FIELD VALUE equals the default (identity for None); list gaps hold None;
no other keys; a failing field dumper makes the dumper fail (DISABLE/FIRST: that error, FIRST with the field's trail
element; ALL: a group holding every failing field exactly once).
"""
from __future__ import annotations

import hashlib
import itertools
import random
import time
import traceback

import z3

from pyvc import theory as T
from pyvc import verify as _verify  # noqa: F401
from pyvc.builtins_theory import set_discipline
from pyvc.interp import Ctx, Interp
from pyvc.values import Closure, HDict, HList, St, Unsupported, V, const
from pyvc.verify import Obl, discharge

from . import symdata
from .layout_spec import DictNode, Leaf, ListNode, layout
from .run import parse_generated

from pyvc.values import EMPTY_DICT_CANON as EMPTY_DICT  # noqa: E402
from pyvc.values import EMPTY_LIST_CANON as EMPTY_LIST  # noqa: E402


class DumperRun:
    def __init__(self, source, namespace, case):
        symdata.install()
        self.tree, self.maker, self.fn = parse_generated(source)
        self.ctx = Ctx()
        self.ctx.max_paths = 6000
        glob = {}
        env = {}
        self.interp = Interp(self.ctx, glob, unit_name="generated dumper")
        self.dumpers = {}
        for name, val in namespace.items():
            if name == "__builtins__":
                continue
            if name.startswith("g_dumper_"):
                f = name[len("g_dumper_"):]
                v = V("sym", t=z3.Const(f"dumper_{f}", T.Val))
                self.dumpers[f] = v
                set_discipline(self.interp, v, "DUMP")
                env[name] = v
            else:
                glob[name] = val
        self.env = env
        self.st0 = St()
        self.case = case
        if case.model_kind == "typeddict":
            self.root = symdata.SNode(self.interp, self.st0, "obj")
            self.st0.assume(self.root.ismap)
            self.data = self.root.value()
        else:
            self.root = None
            self.data = V("sym", t=z3.Const("obj", T.Val))
        self.paths = []

    def field_value(self, fname):
        """(present Bool, value term)"""
        if self.root is not None:
            has, child = self.root.entry(self.interp, self.st0, fname)
            f = next(x for x in self.case.fields if x.name == fname)
            return (z3.BoolVal(True) if f.required else has), child.t, (None if f.required else has)
        return z3.BoolVal(True), T.attr_fn(fname)(self.data.t), None

    def run(self):
        interp = self.interp
        st = self.st0
        interp.ensure_trails(st)
        clo = Closure(self.maker, dict(self.env), "__maker__", None, False)
        made = list(interp.call_closure(st, clo, [], {}))
        if len(made) != 1 or made[0][1][0] != "ok" or made[0][1][1].kind != "fn":
            raise Unsupported("closure maker did not return the dumper")
        s1, r = made[0]
        if self.root is not None:
            # required keys of a TypedDict are present (the dumper's precondition: a well-typed object)
            for f in self.case.fields:
                if f.required:
                    s1.assume(self.root.entry(interp, s1, f.name)[0])
        interp.entry_state = s1.fork()
        for s2, r2 in interp.call_closure(s1, r[1].d, [self.data], {}):
            interp.normalize_arrays(s2)
            self.paths.append((s2, r2))
            if len(self.paths) > self.ctx.max_paths:
                raise Unsupported("path explosion in generated dumper")
        return self.paths


def default_term(interp, st, f):
    kind, d = f.default
    val = d if kind == "value" else d()
    if isinstance(val, list) and not val:
        return interp.reg.obj(EMPTY_LIST)
    if isinstance(val, dict) and not val:
        return interp.reg.obj(EMPTY_DICT)
    return interp.const_term(st, val)


class DumpExpect:
    def __init__(self, run: DumperRun, case):
        self.run = run
        self.case = case
        self.interp = run.interp
        self.layout = case.layout
        self.fields = {f.name: f for f in case.fields}
        self.vals = {f.name: run.field_value(f.name) for f in case.fields}
        self.leaves = {}
        self._collect(self.layout.crown, ())

    def _collect(self, node, path):
        if isinstance(node, Leaf):
            self.leaves[node.field] = path
            return
        for k, ch in node.children.items():
            self._collect(ch, path + (k,))

    def ok(self, fname):
        return T.F_ok(self.run.dumpers[fname].t, self.vals[fname][1])

    def omitted(self, s, fname, as_is):
        f = self.fields[fname]
        if not self.case.omit_default or f.default is None:
            return z3.BoolVal(False)
        val = self.vals[fname][1]
        if as_is:
            val = T.F_res(self.run.dumpers[fname].t, val)       # what the generated code compares (equal under the hypothesis)
        kind, d = f.default
        if kind == "value" and (d is None or d is True or d is False):
            return val == self.interp.const_term(s, d)
        return T.F_pyeq(val, default_term(self.interp, s, f))

    def clauses(self, s, r):
        out = []
        present_fields = [f for f in self.leaves]
        all_ok = z3.And(*[z3.Implies(self.vals[f][0], self.ok(f)) for f in present_fields]) if present_fields else z3.BoolVal(True)
        if r[0] == "ok":
            out.append(("accept-iff", ["C03", "C06"], all_ok, "returned although a field dumper fails"))
            out.extend(self.tree_clauses(s, r[1]))
        else:
            out.append(("accept-iff", ["C03", "C06"], z3.Not(all_ok), "raised although every field dumper succeeds"))
            out.extend(self.error_clauses(s, r[1]))
        out.append(("modifies-nothing", ["C20"], z3.BoolVal(not s.mods), "; ".join(map(str, s.mods))))
        return out

    # the dumped tree ------------------------------------------------------------------------------------------
    def tree_clauses(self, s, result: V):
        out = []
        found = {}
        problems = []

        def walk(cnode, v: V, path):
            if isinstance(cnode, Leaf):
                found[cnode.field] = v
                return
            if v.kind != "ref":
                problems.append(f"node at {path} is not a container built by the dumper")
                return
            h = s.heap[v.d]
            if not h.fresh:
                problems.append(f"container at {path} is not new")
            if isinstance(cnode, DictNode):
                if not isinstance(h, HDict) or h.pairs is None:
                    problems.append(f"node at {path} is not a dict with constant keys")
                    return
                keys = {}
                for kk, vv in h.pairs:
                    if kk.kind != "const":
                        problems.append(f"non-constant key at {path}")
                        return
                    keys[kk.d] = vv
                for k in keys:
                    if k not in cnode.children:
                        problems.append(f"unexpected key {k!r} at {path}")
                for k, ch in cnode.children.items():
                    if k in keys:
                        walk(ch, keys[k], path + (k,))
                    elif not isinstance(ch, Leaf):
                        problems.append(f"container key {k!r} missing at {path}")
            else:
                if not isinstance(h, HList) or h.items is None:
                    problems.append(f"node at {path} is not a list of known length")
                    return
                if len(h.items) != cnode.size:
                    problems.append(f"list at {path} has {len(h.items)} items, layout has {cnode.size}")
                    return
                for i, it in enumerate(h.items):
                    if i in cnode.children:
                        walk(cnode.children[i], it, path + (i,))
                    elif not (it.kind == "const" and it.d is None):
                        problems.append(f"gap {i} at {path} does not hold None")
        walk(self.layout.crown, result, ())
        out.append(("tree-shape", ["C03", "C20", "C02", "C01"], z3.BoolVal(not problems), "; ".join(problems)))
        for fname, path in self.leaves.items():
            present, val, _ = self.vals[fname]
            in_list = any(isinstance(p, int) for p in path[-1:])
            written = fname in found
            dumped = T.F_res(self.run.dumpers[fname].t, val)
            if written:
                out.append((f"value:{fname}", ["C03", "C01", "C02"], self.interp.term(s, found[fname]) == dumped,
                            f"the value at {path} is not the dumped field {fname}"))
            for as_is, cname, props in ((True, "omit-default-as-is", ["C03"]), (False, "omit-default", ["C03"])):
                emit = z3.And(present, z3.Not(self.omitted(s, fname, as_is)))
                hyp = []
                if as_is:
                    hyp = [dumped == val]
                goal = z3.Implies(z3.And(*hyp), emit == z3.BoolVal(written)) if hyp else (emit == z3.BoolVal(written))
                if not self.case.omit_default and not as_is:
                    continue
                if not self.case.omit_default:
                    cname, goal = "emitted-iff-present", emit == z3.BoolVal(written)
                out.append((f"{cname}:{fname}", props, goal,
                            f"field {fname} is {'written' if written else 'left out'} at {path} against the omit/present rule"))
        return out

    # errors ------------------------------------------------------------------------------------------------------
    def error_clauses(self, s, e: V):
        out = []
        interp = self.interp
        interp.ensure_trails(s)
        mode = self.case.debug_trail.name
        leaves = [e]
        if e.ty is not None and issubclass(e.ty, BaseExceptionGroup) and e.tag and e.tag[0] == "exc_fields":
            excs = e.tag[1].get("exceptions") or e.tag[1].get("arg1")
            if excs is not None and excs.kind == "ref" and s.heap[excs.d].items is not None:
                leaves = list(s.heap[excs.d].items)
        out.append(("error-shape", ["C06", "C05"], z3.BoolVal((mode == "ALL") == (leaves != [e] or e.ty is not None)),
                    "ALL must raise a group, DISABLE/FIRST the field dumper's own error"))
        for n, leaf in enumerate(leaves):
            if leaf.ty is not None:
                out.append((f"error-origin:{n}", ["C06"], z3.BoolVal(False), f"{leaf.ty.__name__} created by the dumper itself"))
                continue
            lt = interp.term(s, leaf)
            alts = []
            for fname in self.leaves:
                present, val, _ = self.vals[fname]
                cond = [T.F_raised_on(lt) == val, T.F_raised_by(lt) == self.run.dumpers[fname].t]
                old_len = z3.Select(interp.trail0[0], lt)
                new_len = z3.Select(s.trail_len, lt)
                if mode == "DISABLE":
                    cond.append(new_len == old_len)
                else:
                    cond.append(new_len == old_len + 1)
                    el = self.trail_element(fname)
                    cond.append(z3.Select(z3.Select(s.trail_arr, lt), old_len) == interp.const_term(s, el))
                alts.append(z3.And(*cond))
            out.append((f"error-is-field:{n}", ["C05", "C06"], z3.Or(*alts) if alts else z3.BoolVal(False),
                        "the reported error is not a failing field dumper's error with that field's trail element"))
        if mode == "ALL":
            for fname in self.leaves:
                present, val, _ = self.vals[fname]
                hit = [z3.And(T.F_raised_on(interp.term(s, l)) == val, T.F_raised_by(interp.term(s, l)) == self.run.dumpers[fname].t)
                       for l in leaves if l.ty is None]
                out.append((f"all-complete:{fname}", ["C05", "C06"],
                            z3.Implies(z3.And(present, z3.Not(self.ok(fname))), z3.Or(*hit) if hit else z3.BoolVal(False)),
                            f"failing field {fname} is not reported under DebugTrail.ALL"))
            sym = [interp.term(s, l) for l in leaves if l.ty is None]
            if len(sym) > 1:
                out.append(("all-once", ["C05"], z3.Distinct(*sym), "an error is reported twice"))
        return out

    def trail_element(self, fname):
        if self.case.model_kind == "typeddict":
            return fname
        from adaptix.struct_trail import Attr
        key = ("attr", fname)
        cache = self.interp.ctx.__dict__.setdefault("attr_elems", {})
        # trail elements are compared as values: the generator captures an Attr(name) object per field
        ns = self.run.interp.globals
        return ns.get(f"g_trail_element_{fname}", Attr(fname))


# ------------------------------------------------------------------------------------------ family
class DumpCase:
    def __init__(self, label, fields, nm, debug_trail, model_kind="dataclass", omit_default=False):
        self.label = label
        self.fields = fields
        self.nm = dict(nm)
        self.debug_trail = debug_trail
        self.strict = True
        self.model_kind = model_kind
        self.omit_default = omit_default
        self.want_loader, self.want_dumper = False, True
        self.kwargs_param = False
        self.model = None
        self.layout = None
        self.model_name = "M"
        self.twin = None

    def build(self):
        from . import family
        if self.model_kind == "typeddict":
            from typing import NotRequired, TypedDict
            ann = {f.name: (family.opaque_type(f.name) if f.required else NotRequired[family.opaque_type(f.name)])
                   for f in self.fields}
            self.model = TypedDict("TD", ann)
        else:
            self.model = family.make_dataclass_model(self.fields, name=self.model_name)
        nm = {k: v for k, v in self.nm.items() if k != "extra_in"}
        self.layout = layout(self.fields, dumping=True, **nm)
        return self

    def recipe(self):
        from adaptix import name_mapping
        from . import family
        c = family.Case(self.label, self.fields, self.nm, self.debug_trail)
        c.model = self.model
        provs = c.recipe()[:-1]
        kw = {}
        base = c.recipe()[-1]
        # rebuild name_mapping with omit_default
        nm = self.nm
        from adaptix import NameStyle
        if nm.get("map") is not None:
            kw["map"] = nm["map"]
        if nm.get("as_list"):
            kw["as_list"] = True
        if "trim" in nm:
            kw["trim_trailing_underscore"] = nm["trim"]
        if nm.get("skip"):
            kw["skip"] = list(nm["skip"])
        if self.omit_default:
            kw["omit_default"] = True
        self._stubs = [p for p in provs]
        return provs + [name_mapping(self.model, **kw)]


def hostile_dumper_family(tier="quick"):
    from adaptix import DebugTrail

    from . import family
    from .family import F, O
    cases = []
    quick = tier != "thorough"
    dts = [DebugTrail.ALL, DebugTrail.DISABLE] if quick else list(DebugTrail)
    keys = list(family.HOSTILE_KEYS)

    def add(label, fields, nm, dt, twin_fields=None, omit=False, kind="dataclass", model_name="M"):
        twin_fields = twin_fields or fields
        c = DumpCase(f"dump:hostile:{label}/{dt.name}", fields, nm, dt, model_kind=kind, omit_default=omit)
        c.model_name = model_name
        c.twin = DumpCase(f"dump:twin:{label}/{dt.name}", twin_fields, family._rename_nm(nm, fields, twin_fields), dt,
                          model_kind=kind, omit_default=omit)
        cases.append(c)
    gi = 0
    for gname, ids in family.HOSTILE_ID_GROUPS.items():
        fields = [F(ids[0]), F(ids[1]), F(ids[2], O, ("value", "x")), F(ids[3], O, ("value", 5))]
        twin_fields = family._benign_twin_fields(fields)
        ks = [keys[(gi * 4 + j) % len(keys)] for j in range(4)]
        gi += 1
        for dt in dts:
            add(f"{gname}/plain", fields, {}, dt, twin_fields)
            add(f"{gname}/plain+omit", fields, {}, dt, twin_fields, omit=True)
            add(f"{gname}/hostile-keys+omit", fields, {"map": dict(zip(ids, ks))}, dt, twin_fields, omit=True)
            add(f"{gname}/hostile-nested", fields, {"map": {ids[0]: (ks[0], ks[1]), ids[1]: (ks[0], ks[2]), ids[2]: (ks[3], ks[0])}}, dt,
                twin_fields)
    plain_fields = [F("a"), F("b"), F("c", O, ("value", 1)), F("d", O, ("value", "x"))]
    for i in range(0, len(keys), 4):
        ks = (keys[i:i + 4] + keys[:4])[:4]
        for dt in dts:
            add(f"keys{i // 4}/map+omit", plain_fields, {"map": dict(zip("abcd", ks))}, dt, omit=True)
            add(f"keys{i // 4}/map", plain_fields, {"map": dict(zip("abcd", ks))}, dt)
    for i, mn in enumerate(family.HOSTILE_MODEL_NAMES):
        add(f"model-name{i}/plain", plain_fields, {}, dts[i % len(dts)], model_name=mn)
    for dt in dts:
        tdf = [F("from"), F("class"), F("a", O)]
        add("typeddict-keywords/plain", tdf, {}, dt, family._benign_twin_fields(tdf), kind="typeddict")
    return cases


def dumper_family(tier="quick", group="base"):
    if group == "hostile":
        return hostile_dumper_family(tier)
    from adaptix import DebugTrail
    from .family import F, O
    models = {
        "req2": [F("a"), F("b")],
        "defaults": [F("a"), F("b", O, ("value", None)), F("c", O, ("factory", list)), F("d", O, ("value", 5))],
    }
    models["container-default"] = [F("a"), F("e", O, ("factory", dict))]
    nms = {"plain": {}, "rename": {"map": {"a": "alpha"}}, "nested": {"map": {"a": ("n", "x"), "b": ("n", "y")}},
           "deep-e": {"map": {"e": ("p", "attrs")}},
           "list": {"as_list": True}, "list-gap": {"map": {"a": 0, "b": 2}}, "skip-b": {"skip": ["b"]}}
    cases = []
    for (mname, fields), (nname, nm), dt in itertools.product(models.items(), nms.items(), DebugTrail):
        if nname == "list-gap" and mname != "req2":
            continue
        if nname == "list" and mname != "req2":
            continue
        if nname == "skip-b" and mname == "req2":
            continue
        if (nname == "deep-e") != (mname == "container-default"):
            continue
        cases.append(DumpCase(f"dump:{mname}/{nname}/{dt.name}", fields, nm, dt))
        if (mname == "defaults" and nname in ("plain", "nested")) or mname == "container-default":
            cases.append(DumpCase(f"dump:{mname}/{nname}+omit/{dt.name}", fields, nm, dt, omit_default=True))
    td = [F("a"), F("b", O, ("value", None))]
    for dt in DebugTrail:
        cases.append(DumpCase(f"dump:typeddict/plain/{dt.name}", td, {}, dt, model_kind="typeddict"))
        cases.append(DumpCase(f"dump:typeddict/nested/{dt.name}", td, {"map": {"b": ("n", "bb")}}, dt, model_kind="typeddict"))
    return cases


# ------------------------------------------------------------------------------------------ driver
def verify_dump_case(job):
    idx, tier, seed = job[:3]
    group = job[3] if len(job) > 3 else "base"
    try:
        from pyvc import extract
        extract.ensure_repo_on_path()
        case = dumper_family(tier, group)[idx].build()
        return _verify(case, tier, seed)
    except Exception:  # noqa: BLE001
        return {"label": f"dump-case#{idx}", "error": ("crash", traceback.format_exc()[-1500:]), "obls": [], "failures": [],
                "paths": 0, "time": 0, "solver_time": 0, "assumptions": [], "src_sha": None, "xcheck": None}


def _verify(case, tier, seed):
    from .run import capture
    t0 = time.time()
    out = {"label": case.label, "error": None, "obls": [], "failures": [], "paths": 0, "assumptions": [], "xcheck": None,
           "solver_time": 0, "src_sha": None}
    try:
        cap = capture(case)
    except Exception as e:  # noqa: BLE001
        out["error"] = ("creation", f"{type(e).__name__}: {str(e)[:300]}")
        out["time"] = time.time() - t0
        return out
    src = cap["dumper_src"]
    out["src_sha"] = hashlib.sha256(src.encode()).hexdigest()[:16]
    structure = None
    if getattr(case, "twin", None) is not None:
        from .check import structure_obligation
        structure = structure_obligation(case, src, "dumper_src")
    try:
        run = DumperRun(src, cap["dumper_ns"], case)
        exp = DumpExpect(run, case)
        paths = run.run()
    except Unsupported as e:
        out["error"] = ("unsupported", str(e))
        out["time"] = time.time() - t0
        return out
    out["paths"] = len(paths)
    obls = []
    for k, (s, r) in enumerate(paths):
        for cname, props, goal, note in exp.clauses(s, r):
            o = Obl(f"{case.label}/{cname}/p{k}", cname, list(s.pc), goal, "post", k, s)
            o.props, o.note = props, note
            obls.append(o)
    if structure is not None:
        o = Obl(f"{case.label}/structure-unchanged", "structure-unchanged", [], z3.BoolVal(structure[0]), "post", 0, run.st0)
        o.props, o.note = ["C19"], structure[1]
        obls.append(o)
        for o2 in obls:
            # the strong omit-default clause is the recorded C03 finding (dumped value compared); hostility is judged on the
            # as-is clause
            if "C19" not in (o2.props or []) and o2.clause.split(":")[0] != "omit-default":
                o2.props = list(o2.props or []) + ["C19"]
    t1 = time.time()
    discharge(run.interp, obls, 6000 if tier == "quick" else 60000, ext_budget=(6000 if tier == "quick" else None))
    out["solver_time"] = time.time() - t1
    out["assumptions"] = sorted(run.ctx.assumptions)
    bad = [o for o in obls if o.status != "discharged"]
    native = native_dump_check(case, cap, seed)
    for o in obls:
        out["obls"].append({"name": o.name, "clause": o.clause, "props": o.props, "status": o.status, "backend": o.backend,
                            "time": round(o.time, 4)})
    for o in bad:
        base = o.clause.split(":")[0]
        ws = [w for w in native["mismatches"] if w["clause"].split(":")[0] == base] or \
            ([] if base == "omit-default" else native["mismatches"])
        out["failures"].append({"obligation": o.name, "clause": o.clause, "props": o.props, "backend": o.backend,
                                "solver_status": o.status, "note": o.note, "model": str(o.model)[:600] if o.model else None,
                                "witnesses": ws[:3]})
    if not bad:
        out["xcheck"] = {"scenarios": native["n"], "mismatches": native["mismatches"][:3]}
    out["time"] = time.time() - t0
    return out


class _Conv:
    """a value whose dumped form differs from itself (like Decimal -> str)"""

    def __init__(self, v):
        self.v = v

    def __eq__(self, other):
        return isinstance(other, _Conv) and other.v == self.v

    def __hash__(self):
        return hash(("conv", self.v))

    def __repr__(self):
        return f"Conv({self.v!r})"


def native_dump_check(case, cap, seed=0):
    """the real dumper on concrete objects with scripted field dumpers, against the native twin of the specification"""
    from .check import _find_passthroughs
    dumper = cap["dumper"]
    stubs = _find_passthroughs(cap["retort"])
    mismatches, n = [], 0

    class DumpBoom(KeyError):
        pass

    def behaviour(name):
        def b(x):
            if x == "bad":
                e = DumpBoom(name)
                e._about = name
                raise e
            return _conv(x)                # a converting dumper (like Decimal -> str): the dumped form differs from the value
        return b
    for p in stubs:
        p.behaviour = behaviour(p.name)
    try:
        options = []
        for f in case.fields:
            vals = ["good", "bad"]
            if f.default is not None:
                kind, d = f.default
                vals.append(d if kind == "value" else d())
            if case.model_kind == "typeddict" and not f.required:
                vals.append(_ABSENT)
            options.append(vals)
        combos = list(itertools.product(*options))
        random.Random(seed).shuffle(combos)
        for combo in combos[:200]:
            n += 1
            values = dict(zip([f.name for f in case.fields], combo))
            if case.model_kind == "typeddict":
                obj = {k: v for k, v in values.items() if v is not _ABSENT}
            else:
                obj = case.model(**values)
            snap = repr(obj)
            expected, failing = {}, []
            for f in case.fields:
                v = values[f.name]
                path = case.layout.paths.get(f.name)
                if path is None or v is _ABSENT:
                    continue
                if v == "bad":
                    failing.append(f.name)
                    continue
                omit = False
                if case.omit_default and f.default is not None:
                    kind, d = f.default
                    dv = d if kind == "value" else d()
                    omit = (v is dv) if dv is None else (type(v) is type(dv) and v == dv)
                if not omit:
                    expected[path] = _conv(v)
            try:
                got = dumper(obj)
                outcome = ("ok", got)
            except Exception as e:  # noqa: BLE001
                outcome = ("raise", e)

            def mm(clause, detail):
                mismatches.append({"clause": clause, "signature": snap[:90], "input": snap[:200], "native_outcome": detail[:300]})
            if repr(obj) != snap:
                mm("modifies-nothing", "object mutated")
            if outcome[0] == "ok":
                if failing:
                    mm("accept-iff", f"returned {got!r} although dumpers of {failing} fail")
                    continue
                flat = dict(_flatten(got, case.layout.crown))
                if flat != expected:
                    only_omit = case.omit_default and all(
                        (k in flat and k not in expected) and flat[k] == _conv(_default_of(case, k)) for k in set(flat) ^ set(expected)) \
                        and all(flat[k] == expected[k] for k in set(flat) & set(expected))
                    mm("omit-default" if only_omit else "tree-shape", f"dumped {got!r}: leaves {flat!r}, expected {expected!r}")
            else:
                e = outcome[1]
                if not failing:
                    mm("accept-iff", f"raised {type(e).__name__}: {e} although every dumper succeeds")
                    continue
                reported = [getattr(x, "_about", None) for x in _flat_excs(e)]
                if case.debug_trail.name == "ALL":
                    if sorted(r for r in reported if r) != sorted(failing):
                        mm("all-complete", f"failing {failing}, reported {reported}")
                elif len(reported) != 1 or reported[0] not in failing:
                    mm("error-is-field", f"failing {failing}, raised {type(e).__name__} about {reported}")
            if len(mismatches) > 10:
                break
    finally:
        for p in stubs:
            p.behaviour = None
    return {"n": n, "mismatches": mismatches}


_ABSENT = object()


def _conv(x):
    if x is None or isinstance(x, str):
        return x
    return f"conv:{x!r}"


def _default_of(case, path):
    for f in case.fields:
        if case.layout.paths.get(f.name) == path and f.default is not None:
            return f.default[1] if f.default[0] == "value" else f.default[1]()
    return object()


def _flat_excs(e):
    if isinstance(e, BaseExceptionGroup):
        for s in e.exceptions:
            yield from _flat_excs(s)
    else:
        yield e


def _flatten(got, cnode, path=()):
    if isinstance(cnode, Leaf):
        yield path, got
        return
    if isinstance(cnode, DictNode):
        if not isinstance(got, dict):
            yield path + ("<not a dict>",), got
            return
        for k, v in got.items():
            if k in cnode.children:
                yield from _flatten(v, cnode.children[k], path + (k,))
            else:
                yield path + (k, "<unexpected>"), v
    else:
        if not isinstance(got, (list, tuple)):
            yield path + ("<not a list>",), got
            return
        for i, v in enumerate(got):
            if i in cnode.children:
                yield from _flatten(v, cnode.children[i], path + (i,))
            elif v is not None:
                yield path + (i, "<gap not None>"), v
