"""Path-wise symbolic executor over the real AST (DESIGN.md §2).

Executes a `Unit` (a function / closure extracted from /repo's current working tree) on symbolic arguments and
yields every feasible path `(St, signal)`.  Loops over symbolic sequences are cut by the invariants of the
side-car contract; calls are resolved to (a) nested closures of the same unit — inlined, (b) units with a
contract — the contract only, (c) symbolic callables — the declared discipline (`LD`, `DUMP`, …),
(d) built-ins — the theory handlers of `builtins_theory` or the probed per-cell outcome table.
"""
from __future__ import annotations

import ast
import builtins
import inspect

import z3

from . import theory as T
from .values import (ALL_CELLS, Closure, HDict, HList, HObj, SeqIter, St, Unsupported, V, cell_formula, const,
                     new_id, root_thunks)

RET, RAISE, BRK, CONT = "ret", "raise", "break", "continue"


class Ctx:
    """Per-unit-run context shared by all paths."""

    def __init__(self, reg=None):
        self.reg = reg or T.Registry()
        self.roots = {}          # root id -> z3 term
        self.root_names = {}     # root id -> name
        self.fresh = 0
        self.assumptions = set()
        self.extra_axioms = []
        self.max_paths = 4000
        self.n_paths = 0
        self.disciplines = {}    # z3 term id -> discipline name for symbolic callables
        self.solver_checks = 0

    def fresh_val(self, prefix="v"):
        self.fresh += 1
        return z3.Const(f"{prefix}!{self.fresh}", T.Val)

    def fresh_int(self, prefix="n"):
        self.fresh += 1
        return z3.Int(f"{prefix}!{self.fresh}")

    def fresh_bool(self, prefix="b"):
        self.fresh += 1
        return z3.Bool(f"{prefix}!{self.fresh}")

    def assume_note(self, s):
        self.assumptions.add(s)


class Interp:
    def __init__(self, ctx: Ctx, module_globals: dict, handlers=None, contract_lookup=None, loop_specs=None,
                 unit_name="<unit>"):
        self.ctx = ctx
        self.reg = ctx.reg
        self.globals = module_globals
        from . import adaptix_theory, builtins_theory  # noqa: F401
        self.handlers = builtins_theory.HANDLERS if handlers is None else handlers
        self.contract_lookup = contract_lookup   # callable(python object or Closure) -> contract or None
        self.loop_specs = loop_specs or {}       # loop ordinal -> LoopSpec
        self.loop_ordinals = {}                  # id(ast node) -> ordinal
        self.unit_name = unit_name
        self.obligations = []                    # (name, st snapshot pc, formula, meta)
        self.inline_depth = 0
        self.feas_solver = None
        self.bounded_loops = []                  # loops handled by bounded unrolling (reported as bounded)
        self.executed = set()                    # repo functions inlined while executing the unit
        self.loop_index = []                     # symbolic index of the enclosing cut loop / quantified body
        self.prefer_shadow = False               # containers of D are taken concretely per cell (no sub-loaders around)
        self.opaque = {}                         # python callable -> (name, [exception classes]): abstracted callees
        self.method_disciplines = {}
        self.unroll_bound = 3

    # ------------------------------------------------------------------ data roots
    def new_datum(self, st: St, name: str, in_D=True) -> V:
        """A fresh symbolic datum of the universe D."""
        t = self.ctx.fresh_val(name)
        v = V("sym", t=t)
        if in_D:
            rid = new_id()
            self.ctx.roots[rid] = t
            self.ctx.root_names[rid] = name
            v.root = rid
            v.shadow = root_thunks()
            st.live[rid] = ALL_CELLS
            st.assume(self.in_D_fact(t))
        return v

    def in_D_fact(self, t):
        from .universe import N_CELLS, rep_class
        return z3.Or(*[z3.And(T.F_cell(t) == c, T.F_cls(t) == self.reg.cls(rep_class(c))) for c in range(N_CELLS)])

    # ------------------------------------------------------------------ terms
    def term(self, st: St, v: V):
        if v.t is not None and v.kind != "ref":
            return v.t
        k = v.kind
        if k == "const":
            v.t = self.const_term(st, v.d)
        elif k == "int":
            v.t = T.F_IntV(v.d)
        elif k == "bool":
            v.t = T.F_BoolV(v.d)
        elif k == "type":
            v.t = T.F_ClsObj(v.d)
        elif k == "tuple":
            t = self.ctx.fresh_val("tup")
            st.assume(T.F_cls(t) == self.reg.cls(tuple))
            st.assume(T.F_len(t) == len(v.d))
            for i, it in enumerate(v.d):
                st.assume(T.F_at(t, i) == self.term(st, it))
            v.t = t
        elif k == "ref":
            return self.snapshot(st, v)
        elif k in ("fn", "bound", "gen", "iter"):
            v.t = self.reg.obj(v.d) if k == "fn" else self.ctx.fresh_val(k)
        else:
            raise Unsupported(f"term of {v!r}")
        return v.t

    def key_term(self, st, v: V):
        """the term under which a value is looked up / stored in a symbolic dict: tuples are keys BY VALUE (two tuples with the
        same components are the same key), everything else by its own term"""
        if v.kind == "tuple" and v.shadow is None:
            ts = [self.key_term(st, it) for it in v.d]
            f = z3.Function(f"tuplekey_{len(ts)}", *([T.Val] * len(ts)), T.Val)
            t = f(*ts) if ts else z3.Const("tuplekey_empty", T.Val)
            st.assume(T.F_cls(t) == self.reg.cls(tuple))
            st.assume(T.F_len(t) == len(ts))
            for i, it in enumerate(ts):
                st.assume(T.F_at(t, i) == it)
            self.ctx.assume_note("tuple keys of symbolic dicts are compared component-wise by term identity (finer than ==)")
            return t
        return self.term(st, v)

    def const_term(self, st, o):
        if o is None:
            return T.NoneV
        if o is True or o is False:
            return T.F_BoolV(z3.BoolVal(o))
        if type(o) is int:
            return T.F_IntV(z3.IntVal(o))
        if type(o) is str:
            return T.F_StrV(z3.StringVal(o))
        if isinstance(o, type):
            return T.F_ClsObj(self.reg.cls(o))
        if type(o) is tuple:
            t = self.reg.obj(o)
            st.assume(T.F_len(t) == len(o))
            for i, it in enumerate(o):
                st.assume(T.F_at(t, i) == self.const_term(st, it))
            return t
        return self.reg.obj(o)

    def snapshot(self, st, v):
        """Term for the *current* content of a heap object."""
        h = st.heap[v.d]
        from .values import EMPTY_DICT_CANON, EMPTY_LIST_CANON
        if isinstance(h, HList) and h.items is not None and not h.items and not h.kind_set:
            t = self.reg.obj(EMPTY_LIST_CANON)
            st.assume(T.F_len(t) == 0)
            return t
        if isinstance(h, HDict) and h.pairs is not None and not h.pairs:
            t = self.reg.obj(EMPTY_DICT_CANON)
            st.assume(T.F_mlen(t) == 0)
            return t
        t = self.ctx.fresh_val("snap")
        if isinstance(h, HList):
            st.assume(T.F_cls(t) == self.reg.cls(list))
            if h.items is not None:
                st.assume(T.F_len(t) == len(h.items))
                for i, it in enumerate(h.items):
                    st.assume(T.F_at(t, i) == self.term(st, it))
            else:
                j = z3.Int("j!")
                st.assume(T.F_len(t) == h.ln)
                st.assume(z3.ForAll([j], T.F_at(t, j) == z3.Select(h.arr, j),
                                    patterns=[T.F_at(t, j), z3.Select(h.arr, j)]))
        elif isinstance(h, HDict):
            st.assume(T.F_cls(t) == self.reg.cls(dict))
            if h.pairs is not None:
                st.assume(T.F_mlen(t) == len(h.pairs))
                for i, (kk, vv) in enumerate(h.pairs):
                    st.assume(T.F_keyat(t, i) == self.term(st, kk))
                    st.assume(T.F_valat(t, i) == self.term(st, vv))
        elif isinstance(h, HObj):
            st.assume(T.F_cls(t) == self.reg.cls(h.cls))
            for a, av in h.attrs.items():
                st.assume(T.attr_fn(a)(t) == self.term(st, av))
        return t

    # ------------------------------------------------------------------ feasibility
    def feasible(self, st: St) -> bool:
        for cells in st.live.values():
            if not cells:
                return False
        return True

    def check_sat(self, st: St, extra=None, timeout=2000) -> bool:
        """SMT feasibility (used sparingly: at symbolic forks)."""
        s = z3.Solver()
        s.set("timeout", timeout)
        # ground theory only (no quantified background axioms): `unsat` here is `unsat` in the full theory, and the
        # solver is not left guessing `unknown` on satisfiable queries
        s.add(*self.reg.stable_ground_facts())
        s.add(*[f for f in st.pc if not T.has_quantifier(f)])
        if extra is not None:
            s.add(extra)
        self.ctx.solver_checks += 1
        return s.check() != z3.unsat

    # ------------------------------------------------------------------ truthiness
    def truth(self, st: St, v: V):
        """yield (st, bool) forks for the truth value of v."""
        k = v.kind
        if k == "const":
            yield st, bool(v.d)
            return
        if k == "bool":
            yield from self.fork_on(st, v.d)
            return
        if k == "int":
            yield from self.fork_on(st, v.d != 0)
            return
        if k == "tuple":
            yield st, bool(v.d)
            return
        if k in ("fn", "bound", "type", "gen", "iter"):
            yield st, True
            return
        if k == "ref":
            h = st.heap[v.d]
            if isinstance(h, HList):
                if h.items is not None:
                    yield st, bool(h.items)
                else:
                    for s_, b_ in self.fork_on(st, h.ln > 0):
                        if b_:
                            # instantiation hints: make the first / last element available to E-matching
                            hh = s_.heap[v.d]
                            s_.assume(T.F_touch(z3.Select(hh.arr, 0)))
                            s_.assume(T.F_touch(z3.Select(hh.arr, hh.ln - 1)))
                        yield s_, b_
                return
            if isinstance(h, HDict):
                if h.pairs is not None:
                    yield st, bool(h.pairs)
                else:
                    yield from self.fork_on(st, h.kn > 0)
                return
            yield st, True
            return
        if v.shadow is not None and v.root is not None:
            yield from self.partition(st, v, bool)
            return
        if v.ty is not None and issubclass(v.ty, BaseException):
            yield st, True
            return
        t = self.term(st, v)
        if getattr(self, "index_safety", False):
            # a tuple is true exactly when it is not empty (the only falsy instance of `tuple` is ())
            st.assume(z3.Implies(T.F_cls(t) == self.reg.cls(tuple), T.F_truth(t) == (T.F_len(t) > 0)))
        yield from self.fork_on(st, T.F_truth(t))

    def fork_on(self, st: St, cond):
        """Fork on a z3 Bool; prunes infeasible sides with the solver."""
        cond = z3.simplify(cond)
        if z3.is_true(cond):
            yield st, True
            return
        if z3.is_false(cond):
            yield st, False
            return
        s1 = st.fork()
        s1.assume(cond)
        if self.check_sat(s1):
            yield s1, True
        s2 = st
        s2.assume(z3.Not(cond))
        if self.check_sat(s2):
            yield s2, False

    def partition(self, st: St, v: V, fn):
        """Partition the live cells of v's root by fn(shadow value); yields (st, key)."""
        live = st.live[v.root]
        groups = {}
        for c in sorted(live):
            key = fn(v.shadow[c]())
            groups.setdefault(key, []).append(c)
        items = list(groups.items())
        for n, (key, cells) in enumerate(items):
            s = st if n == len(items) - 1 else st.fork()
            self.narrow(s, v.root, cells)
            yield s, key

    def narrow(self, st: St, root, cells):
        cells = frozenset(cells)
        if cells != st.live[root]:
            st.live[root] = cells
            st.assume(cell_formula(self.ctx.roots[root], cells))

    # ------------------------------------------------------------------ shadows
    @staticmethod
    def is_concrete_like(v: V):
        return v.kind == "const" or v.shadow is not None

    def common_root(self, vs):
        root = None
        for v in vs:
            if v.kind == "const" and v.shadow is None:
                continue
            if v.shadow is None or v.root is None:
                return False
            if root is None:
                root = v.root
            elif root != v.root:
                return False
        return root

    @staticmethod
    def concrete(v: V, c):
        if v.shadow is not None:
            return v.shadow[c]()
        return v.d

    def shadow_apply(self, st: St, pyfunc, args, kwargs=None, name=None):
        """Apply a real python callable to shadowed/constant args, per live cell.  yields (st, ('ok'|'raise', V))."""
        kwargs = kwargs or {}
        allv = list(args) + list(kwargs.values())
        root = self.common_root(allv)
        if root is False:
            raise Unsupported(f"shadow_apply with mixed roots for {name}")
        name = name or getattr(pyfunc, "__qualname__", None) or getattr(pyfunc, "__name__", "f")
        if root is None:
            # fully constant call: just do it
            try:
                r = pyfunc(*[a.d for a in args], **{k: a.d for k, a in kwargs.items()})
            except Exception as e:  # noqa: BLE001
                yield st, (RAISE, self.exc_from_instance(st, e))
                return
            yield st, ("ok", const(r))
            return
        live = st.live[root]
        groups = {}
        for c in sorted(live):
            try:
                pyfunc(*[self.concrete(a, c) for a in args], **{k: self.concrete(a, c) for k, a in kwargs.items()})
                key = ("ok",)
            except Exception as e:  # noqa: BLE001
                key = (RAISE, type(e))
            groups.setdefault(key, []).append(c)
        self.ctx.assume_note(f"probed outcome of `{name}` per cell of D (uniform inside a cell)")
        items = list(groups.items())
        for n, (key, cells) in enumerate(items):
            s = st if n == len(items) - 1 else st.fork()
            self.narrow(s, root, cells)

            def mk(c, pyfunc=pyfunc, args=args, kwargs=kwargs):
                def th():
                    try:
                        return pyfunc(*[self.concrete(a, c) for a in args],
                                      **{k: self.concrete(a, c) for k, a in kwargs.items()})
                    except Exception as e:  # noqa: BLE001
                        return e
                return th
            shadow = {c: mk(c) for c in cells}
            if key[0] == "ok":
                # constant folding when every cell gives the same immutable constant
                vals = [shadow[c]() for c in cells]
                first = vals[0]
                if type(first) in (bool, type(None), int, str, type) and all(
                        type(x) is type(first) and x == first for x in vals) or \
                        all(x is first for x in vals) and isinstance(first, type):
                    yield s, ("ok", const(first))
                    continue
                t = self.app_term(s, name, args, kwargs)
                yield s, ("ok", V("sym", t=t, root=root, shadow=shadow))
            else:
                t = self.ctx.fresh_val("exc")
                s.assume(T.F_cls(t) == self.reg.cls(key[1]))
                yield s, (RAISE, V("sym", t=t, root=root, shadow=shadow, ty=key[1]))

    def app_term(self, st, name, args, kwargs):
        name = "".join(ch if ch.isalnum() else "_" for ch in name)
        ts = [self.term(st, a) for a in args] + [self.term(st, a) for _, a in sorted(kwargs.items())]
        if not ts:
            return self.ctx.fresh_val(name)
        return T.app_fn(name, len(ts))(*ts)

    def exc_from_instance(self, st, e):
        t = self.ctx.fresh_val("exc")
        st.assume(T.F_cls(t) == self.reg.cls(type(e)))
        return V("sym", t=t, ty=type(e), tag=("concrete_exc", e))

    # ------------------------------------------------------------------ exceptions
    def make_exception(self, st: St, pycls, args, kwargs=None):
        """Instantiate an exception class symbolically: fresh term, class fact, field observers."""
        t = self.ctx.fresh_val("exc_" + pycls.__name__)
        for prev in st.assumed:          # a newly allocated object
            st.assume(t != prev)
        st.assumed.append(t)
        st.assume(T.F_cls(t) == self.reg.cls(pycls))
        v = V("sym", t=t, ty=pycls)
        names = None
        try:
            sig = inspect.signature(pycls)
            ba = sig.bind(*args, **(kwargs or {}))
            names = list(ba.arguments.items())
        except (TypeError, ValueError):
            names = None
        if names is None and isinstance(pycls, type) and issubclass(pycls, BaseExceptionGroup) and len(args) == 2 and not kwargs:
            names = [("message", args[0]), ("exceptions", args[1])]       # the builtin groups have no introspectable signature
        fields = {}
        if names is not None:
            for n, a in names:
                if isinstance(a, V):
                    fields[n] = a
        else:
            for i, a in enumerate(args):
                fields[f"arg{i}"] = a
        for n, a in fields.items():
            st.assume(T.attr_fn(n)(t) == self.term(st, a))
        v.tag = ("exc_fields", fields)
        return v

    def exc_matches(self, st: St, exc: V, pyclasses):
        """yield (st, bool): does exc match `except pyclasses`."""
        if exc.ty is not None:
            yield st, issubclass(exc.ty, pyclasses)
            return
        t = self.term(st, exc)
        cond = z3.Or(*[T.F_sub(T.F_cls(t), self.reg.cls(c)) for c in pyclasses])
        yield from self.fork_on(st, cond)

    # ------------------------------------------------------------------ blocks & statements
    def exec_block(self, stmts, st: St):
        if not stmts:
            yield st, None
            return
        head, rest = stmts[0], stmts[1:]
        for s1, sig in self.exec_stmt(head, st):
            if sig is None:
                yield from self.exec_block(rest, s1)
            else:
                yield s1, sig

    def exec_stmt(self, node, st: St):
        self.ctx.n_paths += 0
        m = getattr(self, "s_" + type(node).__name__, None)
        if m is None:
            raise Unsupported(f"statement {type(node).__name__} at line {getattr(node, 'lineno', '?')}")
        yield from m(node, st)

    def s_Pass(self, node, st):
        yield st, None

    def s_Expr(self, node, st):
        if isinstance(node.value, ast.Constant):
            yield st, None
            return
        if isinstance(node.value, (ast.Yield,)):
            for s1, r in self.eval_yield(node.value, st):
                yield s1, (None if r[0] == "ok" else r)
            return
        for s1, r in self.eval(node.value, st):
            yield s1, (None if r[0] == "ok" else r)

    def s_Return(self, node, st):
        if node.value is None:
            yield st, (RET, const(None))
            return
        for s1, r in self.eval(node.value, st):
            yield s1, ((RET, r[1]) if r[0] == "ok" else r)

    def s_Raise(self, node, st):
        if node.exc is None:
            cur = st.env.get("$exc")
            if cur is None:
                raise Unsupported("bare raise outside handler")
            yield st, (RAISE, cur)
            return
        for s1, r in self.eval(node.exc, st):
            if r[0] != "ok":
                yield s1, r
                continue
            v = r[1]
            if v.kind == "const" and isinstance(v.d, type) and issubclass(v.d, BaseException):
                for s2, r2 in self.call(s1, v, [], {}):
                    yield s2, ((RAISE, r2[1]) if r2[0] == "ok" else r2)
            else:
                yield s1, (RAISE, v)

    def s_Assign(self, node, st):
        for s1, r in self.eval(node.value, st):
            if r[0] != "ok":
                yield s1, r
                continue
            yield from self.assign_targets(node.targets, r[1], s1)

    def assign_targets(self, targets, v, st):
        if not targets:
            yield st, None
            return
        for s1, sig in self.assign(targets[0], v, st):
            if sig is None:
                yield from self.assign_targets(targets[1:], v, s1)
            else:
                yield s1, sig

    def s_AnnAssign(self, node, st):
        if node.value is None:
            yield st, None
            return
        for s1, r in self.eval(node.value, st):
            if r[0] != "ok":
                yield s1, r
                continue
            yield from self.assign(node.target, r[1], s1)

    def s_AugAssign(self, node, st):
        load = ast.copy_location(ast.BinOp(left=self.as_load(node.target), op=node.op, right=node.value), node)
        for s1, r in self.eval(load, st):
            if r[0] != "ok":
                yield s1, r
                continue
            yield from self.assign(node.target, r[1], s1)

    @staticmethod
    def as_load(t):
        if isinstance(t, ast.Name):
            return ast.copy_location(ast.Name(id=t.id, ctx=ast.Load()), t)
        if isinstance(t, ast.Attribute):
            return ast.copy_location(ast.Attribute(value=t.value, attr=t.attr, ctx=ast.Load()), t)
        if isinstance(t, ast.Subscript):
            return ast.copy_location(ast.Subscript(value=t.value, slice=t.slice, ctx=ast.Load()), t)
        raise Unsupported("augassign target")

    def assign(self, target, v: V, st: St):
        if isinstance(target, ast.Name):
            st.env[target.id] = v
            yield st, None
        elif isinstance(target, (ast.Tuple, ast.List)):
            for s1, r in self.unpack(st, v, len(target.elts)):
                if r[0] != "ok":
                    yield s1, r
                    continue
                yield from self.assign_seq(target.elts, r[1], s1)
        elif isinstance(target, ast.Subscript):
            for s1, r in self.eval(target.value, st):
                if r[0] != "ok":
                    yield s1, r
                    continue
                for s2, r2 in self.eval(target.slice, s1):
                    if r2[0] != "ok":
                        yield s2, r2
                        continue
                    yield from self.store_item(s2, r[1], r2[1], v)
        elif isinstance(target, ast.Attribute):
            for s1, r in self.eval(target.value, st):
                if r[0] != "ok":
                    yield s1, r
                    continue
                yield from self.store_attr(s1, r[1], target.attr, v)
        else:
            raise Unsupported(f"assign target {type(target).__name__}")

    def assign_seq(self, elts, vals, st):
        if not elts:
            yield st, None
            return
        for s1, sig in self.assign(elts[0], vals[0], st):
            if sig is None:
                yield from self.assign_seq(elts[1:], vals[1:], s1)
            else:
                yield s1, sig

    def unpack(self, st, v: V, n):
        """yield (st, ('ok', [V]*n))"""
        if v.kind == "tuple":
            if len(v.d) != n:
                yield st, (RAISE, self.make_exception(st, ValueError, []))
            else:
                yield st, ("ok", list(v.d))
            return
        if v.kind == "const" and isinstance(v.d, (tuple, list)):
            if len(v.d) != n:
                yield st, (RAISE, self.make_exception(st, ValueError, []))
            else:
                yield st, ("ok", [const(x) for x in v.d])
            return
        if v.kind == "ref":
            h = st.heap[v.d]
            if isinstance(h, HList) and h.items is not None:
                if len(h.items) != n:
                    yield st, (RAISE, self.make_exception(st, ValueError, []))
                else:
                    yield st, ("ok", list(h.items))
                return
        if v.tag and v.tag[0] == "pair":
            yield st, ("ok", list(v.tag[1]))
            return
        h = self.handlers.get("$unpack")
        if h is not None:
            yield from h(self, st, v, n)
            return
        raise Unsupported(f"unpack of {v!r}")

    def store_item(self, st, obj: V, key: V, val: V):
        h = self.handlers.get("$setitem")
        yield from h(self, st, obj, key, val)

    def store_attr(self, st, obj: V, name, val: V):
        h = self.handlers.get("$setattr")
        yield from h(self, st, obj, name, val)

    def s_If(self, node, st):
        for s1, r in self.eval(node.test, st):
            if r[0] != "ok":
                yield s1, r
                continue
            for s2, b in self.truth(s1, r[1]):
                yield from self.exec_block(node.body if b else node.orelse, s2)

    def s_Assert(self, node, st):
        for s1, r in self.eval(node.test, st):
            if r[0] != "ok":
                yield s1, r
                continue
            for s2, b in self.truth(s1, r[1]):
                if b:
                    yield s2, None
                else:
                    yield s2, (RAISE, self.make_exception(s2, AssertionError, []))

    def s_FunctionDef(self, node, st):
        fv = self.make_closure(node, st, node.name)
        if not node.decorator_list:
            st.env[node.name] = fv
            yield st, None
            return
        # decorators of nested definitions change what the name is bound to: apply them (innermost first)
        def apply(i, s, cur):
            if i < 0:
                s.env[node.name] = cur
                yield s, None
                return
            for s1, r in self.eval(node.decorator_list[i], s):
                if r[0] != "ok":
                    yield s1, r
                    continue
                for s2, r2 in self.call(s1, r[1], [cur], {}):
                    if r2[0] != "ok":
                        yield s2, r2
                    else:
                        yield from apply(i - 1, s2, r2[1])
        yield from apply(len(node.decorator_list) - 1, st, fv)

    def make_closure(self, node, st, name):
        is_gen = any(isinstance(n, (ast.Yield, ast.YieldFrom)) for n in self.walk_own(node))
        return V("fn", Closure(node, st.env, name, None, is_gen))

    @staticmethod
    def walk_own(fn):
        """walk a function body without descending into nested function definitions"""
        todo = [n for n in fn.body if not isinstance(n, (ast.FunctionDef, ast.AsyncFunctionDef, ast.ClassDef))] \
            if not isinstance(fn, ast.Lambda) else [fn.body]
        while todo:
            n = todo.pop()
            yield n
            for ch in ast.iter_child_nodes(n):
                if isinstance(ch, (ast.FunctionDef, ast.Lambda, ast.AsyncFunctionDef)):
                    continue
                todo.append(ch)

    def s_Try(self, node, st):
        for s1, sig in self.exec_block(node.body, st):
            if sig is not None and sig[0] == RAISE:
                yield from self.run_finally(node, self.dispatch_handlers(node, s1, sig[1]))
            elif sig is None:
                yield from self.run_finally(node, self.exec_block(node.orelse, s1))
            else:
                yield from self.run_finally(node, [(s1, sig)])

    def run_finally(self, node, results):
        if not node.finalbody:
            yield from results
            return
        for s1, sig in results:
            for s2, sig2 in self.exec_block(node.finalbody, s1):
                yield s2, (sig if sig2 is None else sig2)

    def dispatch_handlers(self, node, st, exc: V):
        pending = [(st, 0)]
        while pending:
            s, idx = pending.pop()
            if idx >= len(node.handlers):
                yield s, (RAISE, exc)
                continue
            h = node.handlers[idx]
            if h.type is None:
                classes = (BaseException,)
            else:
                classes = None
                for s_t, r in self.eval(h.type, s):
                    if r[0] != "ok":
                        raise Unsupported("handler type evaluation raised")
                    tv = r[1]
                    if tv.kind == "const" and isinstance(tv.d, type):
                        classes = (tv.d,)
                    elif tv.kind == "const" and isinstance(tv.d, tuple):
                        classes = tuple(tv.d)
                    elif tv.kind == "tuple" and all(x.kind == "const" for x in tv.d):
                        classes = tuple(x.d for x in tv.d)
                    else:
                        raise Unsupported("non-constant exception class in handler")
                    s = s_t
                    break
            # shadowed exception classes: partition per cell
            if exc.ty is None and exc.shadow is not None:
                raise Unsupported("shadowed exception without static class")
            for s2, matched in self.exc_matches(s, exc, classes):
                if matched:
                    saved = s2.env.get("$exc")
                    s2.env["$exc"] = exc
                    if h.name:
                        s2.env[h.name] = exc
                    for s3, sig in self.exec_block(h.body, s2):
                        if saved is None:
                            s3.env.pop("$exc", None)
                        else:
                            s3.env["$exc"] = saved
                        if h.name:
                            s3.env.pop(h.name, None)
                        yield s3, sig
                else:
                    pending.append((s2, idx + 1))

    def s_Break(self, node, st):
        yield st, (BRK,)

    def s_Continue(self, node, st):
        yield st, (CONT,)

    def s_For(self, node, st):
        from . import loops
        yield from loops.exec_for(self, node, st)

    def s_While(self, node, st):
        from . import loops
        yield from loops.exec_while(self, node, st)

    def s_Import(self, node, st):
        """`import a.b [as c]` inside a function: the import is performed by CPython itself (deterministic for the interpreter in use);
        an ImportError is a raise path"""
        import importlib
        for alias in node.names:
            try:
                mod = importlib.import_module(alias.name)
            except ImportError as e:
                yield st, (RAISE, self.exc_from_instance(st, e))
                return
            if alias.asname:
                st.env[alias.asname] = const(mod)
            else:
                top = alias.name.split(".")[0]
                st.env[top] = const(importlib.import_module(top))
        self.ctx.assume_note("imports inside functions are resolved by the interpreter running the check")
        yield st, None

    def s_ImportFrom(self, node, st):
        raise Unsupported("from-import inside function")

    # ------------------------------------------------------------------ expressions
    def eval(self, node, st: St):
        """yield (st, ('ok', V)) or (st, ('raise', V))"""
        m = getattr(self, "e_" + type(node).__name__, None)
        if m is None:
            raise Unsupported(f"expression {type(node).__name__} at line {getattr(node, 'lineno', '?')}")
        yield from m(node, st)

    def eval_list(self, nodes, st: St):
        """evaluate left to right; yield (st, ('ok', [V])) | (st, ('raise', V))"""
        if not nodes:
            yield st, ("ok", [])
            return
        for s1, r in self.eval(nodes[0], st):
            if r[0] != "ok":
                yield s1, r
                continue
            for s2, r2 in self.eval_list(nodes[1:], s1):
                if r2[0] != "ok":
                    yield s2, r2
                else:
                    yield s2, ("ok", [r[1]] + r2[1])

    def e_Constant(self, node, st):
        yield st, ("ok", const(node.value))

    def e_Name(self, node, st):
        n = node.id
        if n in st.env:
            v = st.env[n]
            if v is None:
                yield st, (RAISE, self.make_exception(st, UnboundLocalError, []))
            else:
                yield st, ("ok", v)
            return
        g = st.env.get("$globals") or self.globals
        if n in g:
            yield st, ("ok", const(g[n]))
            return
        if hasattr(builtins, n):
            yield st, ("ok", const(getattr(builtins, n)))
            return
        # local assigned on another path only -> UnboundLocalError
        yield st, (RAISE, self.make_exception(st, UnboundLocalError, []))

    def e_Tuple(self, node, st):
        starred = [isinstance(e, ast.Starred) for e in node.elts]
        for s1, r in self.eval_list([e.value if isinstance(e, ast.Starred) else e for e in node.elts], st):
            if r[0] != "ok":
                yield s1, r
            elif not any(starred):
                yield s1, ("ok", self.tuple_value(r[1]))
            else:
                # (*xs, y): every starred operand must have statically known content
                from . import loops
                items = []
                for v, is_star in zip(r[1], starred):
                    if not is_star:
                        items.append(v)
                        continue
                    inner = loops.as_concrete_items(self, s1, v)
                    if inner is None:
                        raise Unsupported("starred operand of statically unknown length in tuple display")
                    items.extend(inner)
                yield s1, ("ok", self.tuple_value(items))

    def tuple_value(self, items):
        """the value of a tuple display: a constant when every element is one, shadowed per cell when every element is"""
        if all(x.kind == "const" and x.shadow is None for x in items):
            return const(tuple(x.d for x in items))
        tv = V("tuple", items)
        root = self.common_root(items) if all(self.is_concrete_like(x) for x in items) else False
        if root not in (False, None):
            cells = None
            for x in items:
                if x.shadow is not None:
                    cells = set(x.shadow) if cells is None else cells & set(x.shadow)
            tv.root = root
            tv.shadow = {c: (lambda c=c, items=items: tuple(self.concrete(x, c) for x in items)) for c in cells}
        return tv

    def e_List(self, node, st):
        for s1, r in self.eval_list(node.elts, st):
            if r[0] != "ok":
                yield s1, r
            else:
                yield s1, ("ok", self.new_list(s1, r[1]))

    def new_list(self, st, items):
        hid = new_id()
        st.heap[hid] = HList(items=list(items))
        return V("ref", hid)

    def new_dict(self, st, pairs):
        hid = new_id()
        st.heap[hid] = HDict(pairs=list(pairs))
        return V("ref", hid)

    def e_Dict(self, node, st):
        if any(k is None for k in node.keys):
            raise Unsupported("** in dict display")
        flat = []
        for k, v in zip(node.keys, node.values):
            flat += [k, v]
        for s1, r in self.eval_list(flat, st):
            if r[0] != "ok":
                yield s1, r
            else:
                vals = r[1]
                yield s1, ("ok", self.new_dict(s1, [(vals[i], vals[i + 1]) for i in range(0, len(vals), 2)]))

    def e_Set(self, node, st):
        for s1, r in self.eval_list(node.elts, st):
            if r[0] != "ok":
                yield s1, r
            elif all(x.kind == "const" for x in r[1]):
                yield s1, ("ok", const(frozenset(x.d for x in r[1])))   # set display of constants, never mutated here
            else:
                raise Unsupported("set display of non-constants")

    def e_JoinedStr(self, node, st):
        parts = [p.value if isinstance(p, ast.FormattedValue) else p for p in node.values]
        for s1, r in self.eval_list(parts, st):
            if r[0] != "ok":
                yield s1, r
                continue
            if all(x.kind == "const" and x.shadow is None for x in r[1]) and all(
                    not isinstance(p, ast.FormattedValue) or p.format_spec is None or
                    all(isinstance(fs, ast.Constant) for fs in p.format_spec.values) for p in node.values):
                try:
                    out = []
                    for p, x in zip(node.values, r[1]):
                        if not isinstance(p, ast.FormattedValue):
                            out.append(str(x.d))
                            continue
                        v = x.d
                        v = {114: repr, 115: str, 97: ascii}.get(p.conversion, lambda o: o)(v)      # !r / !s / !a
                        spec = "".join(fs.value for fs in p.format_spec.values) if p.format_spec is not None else ""
                        out.append(format(v, spec))
                    yield s1, ("ok", const("".join(out)))
                    continue
                except Exception:  # noqa: BLE001
                    pass
            t = self.ctx.fresh_val("fstr")
            s1.assume(T.F_cls(t) == self.reg.cls(str))
            yield s1, ("ok", V("sym", t=t, ty=str))

    def e_Lambda(self, node, st):
        yield st, ("ok", self.make_closure(node, st, "<lambda>"))

    def e_IfExp(self, node, st):
        for s1, r in self.eval(node.test, st):
            if r[0] != "ok":
                yield s1, r
                continue
            for s2, b in self.truth(s1, r[1]):
                yield from self.eval(node.body if b else node.orelse, s2)

    def e_BoolOp(self, node, st):
        is_and = isinstance(node.op, ast.And)

        def go(i, s):
            for s1, r in self.eval(node.values[i], s):
                if r[0] != "ok" or i == len(node.values) - 1:
                    yield s1, r
                    continue
                for s2, b in self.truth(s1, r[1]):
                    if b == is_and:
                        yield from go(i + 1, s2)
                    else:
                        yield s2, r
        yield from go(0, st)

    def e_UnaryOp(self, node, st):
        for s1, r in self.eval(node.operand, st):
            if r[0] != "ok":
                yield s1, r
                continue
            v = r[1]
            if isinstance(node.op, ast.Not):
                if v.kind == "bool":
                    yield s1, ("ok", V("bool", z3.Not(v.d)))
                    continue
                for s2, b in self.truth(s1, v):
                    yield s2, ("ok", const(not b))
            elif isinstance(node.op, ast.USub):
                if v.kind == "const":
                    yield s1, ("ok", const(-v.d))
                elif v.kind == "int":
                    yield s1, ("ok", V("int", -v.d))
                else:
                    yield from self.shadow_apply(s1, lambda a: -a, [v], name="neg")
            else:
                raise Unsupported("unary op")

    def e_Yield(self, node, st):
        yield from self.eval_yield(node, st)

    def eval_yield(self, node, st):
        if st.yielded is None:
            raise Unsupported("yield outside generator unit")
        for s1, r in (self.eval(node.value, st) if node.value is not None else [(st, ("ok", const(None)))]):
            if r[0] != "ok":
                yield s1, r
                continue
            self.list_append(s1, s1.yielded, r[1])
            yield s1, ("ok", const(None))

    def list_append(self, st, hid, v: V):
        h = st.heap[hid]
        if h.items is not None:
            h.items.append(v)
        else:
            h.arr = z3.Store(h.arr, h.ln, self.term(st, v))
            h.ln = h.ln + 1

    def e_Attribute(self, node, st):
        for s1, r in self.eval(node.value, st):
            if r[0] != "ok":
                yield s1, r
                continue
            yield from self.get_attr(s1, r[1], node.attr)

    def get_attr(self, st, obj: V, name):
        h = self.handlers.get("$getattr")
        yield from h(self, st, obj, name)

    def e_Subscript(self, node, st):
        for s1, r in self.eval(node.value, st):
            if r[0] != "ok":
                yield s1, r
                continue
            if isinstance(node.slice, ast.Slice):
                parts = [node.slice.lower, node.slice.upper, node.slice.step]
                nodes = [p for p in parts if p is not None]
                for s2, r2 in self.eval_list(nodes, s1):
                    if r2[0] != "ok":
                        yield s2, r2
                        continue
                    it = iter(r2[1])
                    sl = [next(it) if p is not None else None for p in parts]
                    yield from self.handlers["$getslice"](self, s2, r[1], sl)
                continue
            for s2, r2 in self.eval(node.slice, s1):
                if r2[0] != "ok":
                    yield s2, r2
                    continue
                yield from self.handlers["$getitem"](self, s2, r[1], r2[1])

    def e_Compare(self, node, st):
        def go(left, i, s):
            for s1, r in self.eval(node.comparators[i], s):
                if r[0] != "ok":
                    yield s1, r
                    continue
                right = r[1]
                for s2, r2 in self.compare(s1, node.ops[i], left, right):
                    if r2[0] != "ok" or i == len(node.ops) - 1:
                        yield s2, r2
                        continue
                    for s3, b in self.truth(s2, r2[1]):
                        if b:
                            yield from go(right, i + 1, s3)
                        else:
                            yield s3, ("ok", const(False))
        for s0, r0 in self.eval(node.left, st):
            if r0[0] != "ok":
                yield s0, r0
                continue
            yield from go(r0[1], 0, s0)

    def compare(self, st, op, a: V, b: V):
        yield from self.handlers["$compare"](self, st, op, a, b)

    def e_BinOp(self, node, st):
        for s1, r in self.eval_list([node.left, node.right], st):
            if r[0] != "ok":
                yield s1, r
                continue
            yield from self.handlers["$binop"](self, s1, node.op, r[1][0], r[1][1])

    def e_Call(self, node, st):
        if isinstance(node.func, ast.Name) and node.func.id == "super" and not node.args and not node.keywords \
                and "super" not in st.env:
            # zero-argument super() inside a method: the defining class comes from the qualified name of the method
            qual, first = st.env.get("$qual"), st.env.get("$first")
            g = st.env.get("$globals") or self.globals
            cls = g.get(qual.split(".")[0]) if qual else None
            if not isinstance(cls, type) or first is None or first.kind != "ref" or not isinstance(st.heap.get(first.d), HObj):
                raise Unsupported("super() outside a method of a heap instance")
            v = V("sym", t=self.ctx.fresh_val("super"))
            v.tag = ("super", first, cls)
            yield st, ("ok", v)
            return
        for s1, r in self.eval(node.func, st):
            if r[0] != "ok":
                yield s1, r
                continue
            f = r[1]
            argnodes = []
            star = []
            for a in node.args:
                if isinstance(a, ast.Starred):
                    argnodes.append(a.value)
                    star.append(True)
                else:
                    argnodes.append(a)
                    star.append(False)
            kwnames = [k.arg if k.arg is not None else "**" for k in node.keywords]
            for s2, r2 in self.eval_list(argnodes + [k.value for k in node.keywords], s1):
                if r2[0] != "ok":
                    yield s2, r2
                    continue
                vals = r2[1]
                pos = []
                for v, is_star in zip(vals[:len(argnodes)], star):
                    if not is_star:
                        pos.append(v)
                    elif v.kind == "tuple":
                        pos.extend(v.d)
                    elif v.kind == "const" and isinstance(v.d, (tuple, list)):
                        pos.extend(const(x) for x in v.d)
                    else:
                        raise Unsupported("*args of symbolic length")
                kw = {}
                for kn, kv in zip(kwnames, vals[len(argnodes):]):
                    if kn == "**" and kv.kind == "ref" and isinstance(s2.heap[kv.d], HDict) and s2.heap[kv.d].pairs is not None \
                            and s2.heap[kv.d].fresh and all(k_.kind == "const" and type(k_.d) is str for k_, _ in s2.heap[kv.d].pairs):
                        # `**{'name': value}` with a dict display: the same as the keyword argument name=value
                        for k_, v_ in s2.heap[kv.d].pairs:
                            if k_.d in kw:
                                raise Unsupported("keyword argument given twice")
                            kw[k_.d] = v_
                        continue
                    if kn in kw:
                        raise Unsupported("several **kwargs in call" if kn == "**" else "keyword argument given twice")
                    kw[kn] = kv
                yield from self.call(s2, f, pos, kw, node=node)

    def e_ListComp(self, node, st):
        from . import loops
        yield from loops.eval_comprehension(self, node, st, "list")

    def e_GeneratorExp(self, node, st):
        from . import loops
        yield from loops.eval_comprehension(self, node, st, "gen")

    def e_SetComp(self, node, st):
        from . import loops
        yield from loops.eval_comprehension(self, node, st, "set")

    def e_DictComp(self, node, st):
        from . import loops
        yield from loops.eval_comprehension(self, node, st, "dict")

    # ------------------------------------------------------------------ calls
    def call(self, st: St, f: V, args, kwargs, node=None):
        """yield (st, ('ok', V) | ('raise', V))"""
        if f.kind == "fn":
            if f.tag and f.tag[0] == "memoized":
                for s_, r_ in self.call_closure(st, f.d, args, kwargs):
                    if r_[0] == "ok" and r_[1].kind == "ref":
                        s_.heap[r_[1].d].fresh = False      # the object lives in the cache and is handed out again
                    elif r_[0] == "ok" and r_[1].tag and r_[1].tag[0] == "fresh_container":
                        r_[1].tag = ("cached",)
                    yield s_, r_
                return
            yield from self.call_closure(st, f.d, args, kwargs)
            return
        if f.kind == "bound":
            selfv, name = f.d
            if selfv.kind == "ref":
                from .values import HObj as _HObj
                ho = st.heap.get(selfv.d)
                if isinstance(ho, _HObj):
                    import inspect as _inspect
                    fnobj = f.tag[1] if f.tag and f.tag[0] == "super_fn" else _inspect.getattr_static(ho.cls, name)
                    if isinstance(fnobj, (staticmethod, classmethod)):
                        raise Unsupported("static/class method on heap instance")
                    try:
                        op = self.opaque.get(fnobj)
                    except TypeError:
                        op = None
                    if op is not None:
                        yield from self.call_opaque(st, fnobj, op, [selfv] + list(args), kwargs)
                        return
                    rc = self.resolve_repo_callable(fnobj)
                    if rc is None:
                        raise Unsupported(f"method {name} of {ho.cls.__name__} is not repo source")
                    yield from self.call_closure(st, rc[0], [selfv] + list(args), kwargs)
                    return
            h = self.handlers.get(("$method", name))
            if h is None:
                raise Unsupported(f"method .{name} on {selfv!r}")
            yield from h(self, st, selfv, args, kwargs)
            return
        if f.kind == "const":
            o = f.d
            if self.contract_lookup is not None:
                c = self.contract_lookup(o)
                if c is not None:
                    yield from c.apply_at_call(self, st, args, kwargs)
                    return
            try:
                h = self.handlers.get(o)
            except TypeError:
                h = None
            if h is not None:
                yield from h(self, st, args, kwargs)
                return
            try:
                op = self.opaque.get(o)
            except TypeError:
                op = None
            if op is not None:
                yield from self.call_opaque(st, o, op, args, kwargs)
                return
            import types as _types
            if isinstance(o, _types.MethodType):
                try:
                    op = self.opaque.get(o.__func__)        # a method declared opaque, called on a concrete receiver
                except TypeError:
                    op = None
                if op is not None:
                    yield from self.call_opaque(st, o.__func__, op, [const(o.__self__)] + list(args), kwargs)
                    return
            rc = self.resolve_repo_callable(o)
            if rc is not None:
                clo, selfarg = rc
                yield from self.call_closure(st, clo, ([selfarg] if selfarg is not None else []) + list(args), kwargs)
                return
            if isinstance(o, type) and issubclass(o, BaseException):
                if all(a.kind == "const" for a in args) and not kwargs and False:
                    pass
                yield st, ("ok", self.make_exception(st, o, args, kwargs))
                return
            if getattr(o, "__name__", None) == "join" and isinstance(getattr(o, "__self__", None), str) and len(args) == 1 \
                    and not kwargs and args[0].kind in ("gen", "iter", "ref"):
                # sep.join(<producer>): drain the producer (statically known length), then apply on the element tuple
                from .builtins_theory import iterate_concrete
                if args[0].kind == "gen":
                    for s1, r1 in args[0].d(st):
                        if r1[0] != "ok":
                            yield s1, r1
                        elif isinstance(r1[1], V) and r1[1].shadow is not None:
                            yield from self.call(s1, f, [r1[1]], {})        # produced per cell by CPython itself
                        elif isinstance(r1[1], tuple) and r1[1][0] == "items":
                            yield from self.call(s1, f, [self.tuple_value(list(r1[1][1]))], {})
                        elif isinstance(r1[1], V):
                            for s2, r2 in iterate_concrete(self, s1, r1[1]):
                                if r2[0] != "ok":
                                    yield s2, r2
                                else:
                                    yield from self.call(s2, f, [self.tuple_value(list(r2[1]))], {})
                        else:
                            raise Unsupported("join over a producer of statically unknown length")
                    return
                for s1, r1 in iterate_concrete(self, st, args[0]):
                    if r1[0] != "ok":
                        yield s1, r1
                    else:
                        yield from self.call(s1, f, [self.tuple_value(list(r1[1]))], {})
                return
            allv = list(args) + list(kwargs.values())
            if all(self.is_concrete_like(a) for a in allv) and self.common_root(allv) is not False:
                if not self.ctx_is_pure_callable(o):
                    raise Unsupported(f"call of unmodelled callable {o!r}")
                yield from self.shadow_apply(st, o, args, kwargs)
                return
            h = self.handlers.get("$call_const_symbolic")
            if h is not None:
                yield from h(self, st, o, args, kwargs)
                return
            raise Unsupported(f"call of {o!r} on symbolic arguments {[a.kind for a in args]} {[getattr(a, 'tag', None) for a in args]}")
        if f.kind == "type":
            raise Unsupported("call of symbolic class")
        # symbolic / shadowed callable
        if f.shadow is not None and f.root is not None and all(self.is_concrete_like(a) for a in args) and \
                self.common_root([f] + list(args) + list(kwargs.values())) is not False:
            for s_, r_ in self.shadow_apply(st, lambda fn, *a, **k: fn(*a, **k), [f] + list(args), kwargs,
                                            name="call_" + self.callee_name(node)):
                if r_[0] == "ok" and f.tag and f.tag[0] == "method" and f.tag[2] in ("items", "keys", "values") \
                        and not args and r_[1].kind != "const":
                    r_[1].tag = (f.tag[2] + "_view", f.tag[1])
                yield s_, r_
            return
        yield from self.handlers["$call_symbolic"](self, st, f, args, kwargs)

    @staticmethod
    def callee_name(node):
        if node is None:
            return "f"
        f = node.func
        if isinstance(f, ast.Attribute):
            return f.attr
        if isinstance(f, ast.Name):
            return f.id
        return "f"

    def ctx_is_pure_callable(self, o):
        """Only real callables that cannot mutate analysis state may be probed."""
        return callable(o)

    def call_opaque(self, st, o, spec, args, kwargs):
        """A callee abstracted to `deterministic function of its arguments that may raise the listed exceptions`."""
        name, raises = spec[0], spec[1]
        opts = spec[2] if len(spec) > 2 else {}
        if "returns_arg" in opts:
            self.ctx.assume_note(f"callee `{name}` abstracted: returns its argument #{opts['returns_arg']} (only adds notes)")
            yield st, ("ok", args[opts["returns_arg"]])
            return
        if "result_class" in opts:
            self.ctx.assume_note(f"callee `{name}` abstracted: returns a new {opts['result_class'].__name__} object")
            yield st, ("ok", self.make_exception(st, opts["result_class"], []))
            return
        self.ctx.assume_note(f"callee `{name}` abstracted: a deterministic function of its arguments that returns or raises "
                             f"one of {[r.__name__ for r in raises]}")
        ts = [self.term(st, a) for a in args] + [self.term(st, a) for _, a in sorted(kwargs.items())]
        okf = z3.Function(f"opq_ok_{name}", *([T.Val] * len(ts)), T.B)
        resf = z3.Function(f"opq_res_{name}", *([T.Val] * len(ts)), T.Val)
        if not raises:
            yield st, ("ok", V("sym", t=resf(*ts)))
            return
        for s, okb in self.fork_on(st, okf(*ts)):
            if okb:
                yield s, ("ok", V("sym", t=resf(*ts)))
            else:
                for n, r in enumerate(raises):
                    s2 = s if n == len(raises) - 1 else s.fork()
                    yield s2, (RAISE, self.make_exception(s2, r, []))

    def resolve_repo_callable(self, o):
        """A python function / bound method defined in /repo's source: returns (Closure over its real AST, self)."""
        import types
        from . import extract
        selfarg = None
        fn = o
        if isinstance(o, types.MethodType):
            fn = o.__func__
            selfarg = const(o.__self__)
        if not isinstance(fn, types.FunctionType):
            return None
        code = fn.__code__
        root = extract.SRC_ROOT
        if not code.co_filename.startswith(root):
            return None
        rel = code.co_filename[len(root) + 1:]
        tree, _, _ = extract.module_ast(rel)
        best = None
        if fn.__name__ == "<lambda>":
            # a lambda of the repository: identified by its line when it is the only one starting there
            cands = [n for n in ast.walk(tree) if isinstance(n, ast.Lambda) and n.lineno == code.co_firstlineno]
            if len(cands) != 1 or len(cands[0].args.args) + len(cands[0].args.posonlyargs) != code.co_argcount:
                return None
            best = cands[0]
        for n in ast.walk(tree):
            if best is not None:
                break
            if isinstance(n, ast.FunctionDef) and n.name == fn.__name__:
                first = min([n.lineno] + [d.lineno for d in n.decorator_list])
                if first == code.co_firstlineno or n.lineno == code.co_firstlineno:
                    best = n
                    break
        if best is None:
            return None
        if fn.__closure__:
            env = {}
            for nm, cell in zip(code.co_freevars, fn.__closure__):
                try:
                    env[nm] = const(cell.cell_contents)
                except ValueError:
                    pass
        else:
            env = {}
        env["$globals"] = fn.__globals__
        is_gen = not isinstance(best, ast.Lambda) and any(isinstance(x, (ast.Yield, ast.YieldFrom)) for x in self.walk_own(best))
        self.executed.add((rel, fn.__qualname__, best.lineno))
        return Closure(best, env, fn.__qualname__, None, is_gen), selfarg

    def bind_params(self, st, fn_node, args, kwargs, closure_env):
        """Bind arguments to parameters following python's rules (no *args/**kwargs collection of symbolic length)."""
        a = fn_node.args
        env = dict(closure_env)
        params = [p.arg for p in a.posonlyargs + a.args]
        defaults = a.defaults
        args = list(args)
        kwargs = dict(kwargs)
        if len(args) > len(params):
            if a.vararg is None:
                return None
            env[a.vararg.arg] = V("tuple", args[len(params):])
            args = args[:len(params)]
        elif a.vararg is not None:
            env[a.vararg.arg] = const(())
        for p, v in zip(params, args):
            env[p] = v
        n_def = len(defaults)
        for i, p in enumerate(params[len(args):], start=len(args)):
            if p in kwargs:
                env[p] = kwargs.pop(p)
            else:
                di = i - (len(params) - n_def)
                if di < 0:
                    return None
                env[p] = ("$default", defaults[di])
        for p, d in zip(a.kwonlyargs, a.kw_defaults):
            if p.arg in kwargs:
                env[p.arg] = kwargs.pop(p.arg)
            elif d is not None:
                env[p.arg] = ("$default", d)
            else:
                return None
        if kwargs:
            if a.kwarg is None:
                return None
            # **kwargs: a new dict of the remaining keyword arguments, in call order
            env[a.kwarg.arg] = self.new_dict(st, [(const(k), v) for k, v in kwargs.items()])
        elif a.kwarg is not None:
            env[a.kwarg.arg] = self.new_dict(st, [])
        return env

    def call_closure(self, st: St, clo: Closure, args, kwargs):
        depth = st.env.get("$depth", 0)
        if depth > getattr(self, "max_depth", 12):
            raise Unsupported(f"inlining depth exceeded (recursion?) in {getattr(clo.node, 'name', '<lambda>')} "
                              f"args={[repr(a)[:60] for a in args][:3]}")
        env = self.bind_params(st, clo.node, args, kwargs, clo.env)
        if env is None:
            yield st, (RAISE, self.make_exception(st, TypeError, []))
            return
        # evaluate defaults (constants only)
        for k, v in list(env.items()):
            if isinstance(v, tuple) and v and v[0] == "$default":
                res = list(self.eval(v[1], st))
                if len(res) != 1 or res[0][1][0] != "ok":
                    raise Unsupported("non-trivial default value")
                env[k] = res[0][1][1]
        if clo.is_gen:
            # a producer: executed when consumed
            def thunk(s, clo=clo, env=env):
                yield from self.run_generator(s, clo, env)
            yield st, ("ok", V("gen", thunk))
            return
        saved_env = st.env
        saved_yielded = st.yielded
        env["$depth"] = depth + 1
        env["$qual"] = clo.qual
        env["$first"] = args[0] if args else None
        st.env = env
        st.yielded = None
        self.inline_depth += 1
        try:
            if isinstance(clo.node, ast.Lambda):
                results = list(self.eval(clo.node.body, st))
                for s1, r in results:
                    s1.env = dict(saved_env)
                    s1.yielded = saved_yielded
                    yield s1, r
            else:
                for s1, sig in self.exec_block(clo.node.body, st):
                    callee_locals = s1.env
                    s1.env = dict(saved_env)
                    s1.env["$callee_locals"] = callee_locals
                    s1.yielded = saved_yielded
                    if sig is None:
                        yield s1, ("ok", const(None))
                    elif sig[0] == RET:
                        yield s1, ("ok", sig[1])
                    elif sig[0] == RAISE:
                        yield s1, sig
                    else:
                        raise Unsupported("break/continue escaped function")
        finally:
            self.inline_depth -= 1

    def run_generator(self, st: St, clo: Closure, env):
        """Run a generator body to completion.  yields (st, ('ok', V list-ref of yielded values) | ('raise', V))."""
        saved_env, saved_y = st.env, st.yielded
        hid = new_id()
        st.heap[hid] = HList(items=[])
        st.env = env
        st.yielded = hid
        self.inline_depth += 1
        try:
            for s1, sig in self.exec_block(clo.node.body, st):
                s1.env = dict(saved_env)
                s1.yielded = saved_y
                if sig is None or sig[0] == RET:
                    yield s1, ("ok", V("ref", hid))
                elif sig[0] == RAISE:
                    yield s1, sig
                else:
                    raise Unsupported("break/continue escaped generator")
        finally:
            self.inline_depth -= 1
