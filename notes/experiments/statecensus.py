import ast, pathlib
ROOT = pathlib.Path('/repo/src/adaptix/_internal')
out = []
for f in sorted(ROOT.rglob('*.py')):
    if any(p in f.parts for p in ('integrations','json_schema')): continue
    t = ast.parse(f.read_text())
    for cls in [n for n in ast.walk(t) if isinstance(n, ast.ClassDef)]:
        for fn in [n for n in cls.body if isinstance(n, ast.FunctionDef)]:
            if fn.name in ('__init__','__new__','__post_init__','_calculate_derived','__init_subclass__','__set_name__'): continue
            for n in ast.walk(fn):
                tgts = []
                if isinstance(n, ast.Assign): tgts = n.targets
                elif isinstance(n, (ast.AugAssign, ast.AnnAssign)): tgts = [n.target]
                for tg in tgts:
                    for sub in ast.walk(tg):
                        if isinstance(sub, ast.Attribute) and isinstance(sub.value, ast.Name) and sub.value.id in ('self','cls') and isinstance(sub.ctx, ast.Store):
                            out.append((str(f.relative_to(ROOT)), cls.name, fn.name, f"{sub.value.id}.{sub.attr}", n.lineno))
                        if isinstance(sub, ast.Subscript) and isinstance(sub.ctx, ast.Store) and isinstance(sub.value, ast.Attribute) and isinstance(sub.value.value, ast.Name) and sub.value.value.id in ('self','cls'):
                            out.append((str(f.relative_to(ROOT)), cls.name, fn.name, f"{sub.value.value.id}.{sub.value.attr}[...]", n.lineno))
for o in out: print(o)
print(len(out))
