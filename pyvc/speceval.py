"""Evaluator of the contract language (DESIGN.md §2.3).

Clauses are Python *expressions* (strings).  They are evaluated
  * symbolically (this module) into z3 formulas over the executor's state, and
  * natively (`concrete_env`) on a concrete outcome when a counter-example is replayed.
`==`/`is` in a clause are logical equality of the denoted values; Python's `==` is the ghost `py_eq`.
"""
from __future__ import annotations

import ast
import builtins

import z3

from . import theory as T
from .values import HDict, HList, HObj, St, Unsupported, V, cell_formula, const


class SpecError(Exception):
    pass


_parse_cache = {}


def parse(expr):
    if isinstance(expr, ast.AST):
        return expr
    node = _parse_cache.get(expr)
    if node is None:
        node = _parse_cache[expr] = ast.parse(expr.strip(), mode="eval").body
    return node


class ClsLike:
    """a class in a spec: python class or Cls-sorted term"""
    __slots__ = ("py", "t")

    def __init__(self, py=None, t=None):
        self.py = py
        self.t = t


class SpecEnv:
    def __init__(self, interp, st: St, extra=None, old=None):
        self.interp = interp
        self.st = st
        self.extra = dict(extra or {})
        self.old = old            # St at entry (for old_* ghosts)
        self.bound = {}

    # ------------------------------------------------------------------ public
    def eval_bool(self, expr):
        return self.to_bool(self.ev(parse(expr)))

    def eval_int(self, expr):
        return self.to_int(self.ev(parse(expr)))

    def eval_as_value(self, expr) -> V:
        x = self.ev(parse(expr))
        if isinstance(x, V):
            return x
        if isinstance(x, bool):
            return const(x)
        if isinstance(x, int):
            return const(x)
        if isinstance(x, z3.ExprRef):
            if z3.is_int(x):
                return V("int", x)
            if z3.is_bool(x):
                return V("bool", x)
            if x.sort() == T.Val:
                return V("sym", t=x)
        raise SpecError(f"cannot turn {x!r} into a value")

    def eval_value_eq(self, cur, expr):
        if cur is None:
            return z3.BoolVal(False)
        return self.equal(cur, self.ev(parse(expr)))

    # ------------------------------------------------------------------ coercions
    def to_bool(self, x):
        if isinstance(x, bool):
            return z3.BoolVal(x)
        if isinstance(x, z3.ExprRef) and z3.is_bool(x):
            return x
        if isinstance(x, V):
            if x.kind == "bool":
                return x.d
            if x.kind == "const" and isinstance(x.d, bool):
                return z3.BoolVal(x.d)
            if x.kind == "sym":
                return T.F_bval(self.interp.term(self.st, x))
        raise SpecError(f"not a boolean: {x!r}")

    def is_intlike(self, x):
        return (isinstance(x, int) and not isinstance(x, bool)) or (isinstance(x, z3.ExprRef) and z3.is_int(x)) or \
            (isinstance(x, V) and (x.kind == "int" or (x.kind == "const" and type(x.d) is int)))

    def is_boollike(self, x):
        return isinstance(x, bool) or (isinstance(x, z3.ExprRef) and z3.is_bool(x)) or \
            (isinstance(x, V) and (x.kind == "bool" or (x.kind == "const" and type(x.d) is bool)))

    def to_int(self, x):
        if isinstance(x, bool):
            raise SpecError("bool used as int")
        if isinstance(x, int):
            return z3.IntVal(x)
        if isinstance(x, z3.ExprRef) and z3.is_int(x):
            return x
        if isinstance(x, V):
            if x.kind == "int":
                return x.d
            if x.kind == "const" and type(x.d) is int:
                return z3.IntVal(x.d)
            if x.kind == "sym":
                return T.F_ival(self.interp.term(self.st, x))
        raise SpecError(f"not an integer: {x!r}")

    def as_cls(self, x):
        if isinstance(x, ClsLike):
            return x
        if isinstance(x, type):
            return ClsLike(py=x)
        if isinstance(x, V):
            if x.kind == "const" and isinstance(x.d, type):
                return ClsLike(py=x.d)
            if x.kind == "type":
                return ClsLike(t=x.d)
        if isinstance(x, z3.ExprRef) and x.sort() == T.ClsS:
            return ClsLike(t=x)
        return None

    def cls_term(self, c: ClsLike):
        return c.t if c.t is not None else self.interp.reg.cls(c.py)

    def to_key(self, x):
        """dict keys: tuples by value (see Interp.key_term)"""
        if isinstance(x, V) and x.kind == "tuple":
            return self.interp.key_term(self.st, x)
        if isinstance(x, (tuple, list)):
            return self.interp.key_term(self.st, V("tuple", [self.eval_to_V(i) for i in x]))
        return self.to_val(x)

    def to_val(self, x):
        if isinstance(x, V):
            return self.interp.term(self.st, x)
        if isinstance(x, z3.ExprRef):
            if x.sort() == T.Val:
                return x
            if z3.is_int(x):
                return T.F_IntV(x)
            if z3.is_bool(x):
                return T.F_BoolV(x)
            if x.sort() == T.ClsS:
                return T.F_ClsObj(x)
        if isinstance(x, ClsLike):
            return T.F_ClsObj(self.cls_term(x))
        if isinstance(x, (tuple, list)):
            return self.interp.term(self.st, V("tuple", [self.eval_to_V(i) for i in x]))
        return self.interp.const_term(self.st, x)

    def eval_to_V(self, x) -> V:
        if isinstance(x, V):
            return x
        if isinstance(x, z3.ExprRef):
            if z3.is_int(x):
                return V("int", x)
            if z3.is_bool(x):
                return V("bool", x)
            if x.sort() == T.Val:
                return V("sym", t=x)
        if isinstance(x, ClsLike):
            return const(x.py) if x.py is not None else V("type", x.t)
        return const(x)

    def equal(self, a, b):
        if self.is_intlike(a) and self.is_intlike(b):
            return self.to_int(a) == self.to_int(b)
        if self.is_boollike(a) and self.is_boollike(b):
            return self.to_bool(a) == self.to_bool(b)
        ca, cb = self.as_cls(a), self.as_cls(b)
        if ca is not None and cb is not None:
            if ca.py is not None and cb.py is not None:
                return z3.BoolVal(ca.py is cb.py)
            return self.cls_term(ca) == self.cls_term(cb)
        if isinstance(a, V) and isinstance(b, V) and a.kind == "ref" and b.kind == "ref":
            return z3.BoolVal(a.d == b.d)
        return self.to_val(a) == self.to_val(b)

    # ------------------------------------------------------------------ evaluation
    def ev(self, n):
        m = getattr(self, "v_" + type(n).__name__, None)
        if m is None:
            raise SpecError(f"unsupported spec syntax {type(n).__name__}")
        return m(n)

    def v_Constant(self, n):
        return n.value

    def v_Name(self, n):
        name = n.id
        if name in self.bound:
            return self.bound[name]
        if name in self.extra:
            return self.extra[name]
        if name == "yielded" and self.st.yielded is not None:
            return V("ref", self.st.yielded)
        if name in self.st.env:
            v = self.st.env[name]
            if v is None:
                raise SpecError(f"spec mentions unbound local {name}")
            return v
        cl = self.st.env.get("$callee_locals")
        if cl is not None and name in cl and isinstance(cl[name], V):
            return cl[name]
        if name in GHOSTS:
            return GhostRef(GHOSTS[name], self)
        if name in self.interp.globals:
            return self.interp.globals[name]
        if name in SPEC_CONSTS:
            return SPEC_CONSTS[name]
        if hasattr(builtins, name):
            return getattr(builtins, name)
        raise SpecError(f"unknown name in spec: {name}")

    def v_Tuple(self, n):
        return tuple(self.ev(e) for e in n.elts)

    v_List = v_Tuple

    def v_Set(self, n):
        return tuple(self.ev(e) for e in n.elts)

    def v_Lambda(self, n):
        return SpecLambda(n, self)

    def v_Attribute(self, n):
        base = self.ev(n.value)
        return self.attr(base, n.attr)

    def attr(self, base, name):
        if isinstance(base, V):
            if base.kind == "const":
                return getattr(base.d, name)
            if base.tag and base.tag[0] in ("exc_fields", "attrs") and name in base.tag[1]:
                return base.tag[1][name]
            if base.kind == "ref":
                h = self.st.heap[base.d]
                if isinstance(h, HObj) and name in h.attrs:
                    return h.attrs[name]
            return V("sym", t=T.attr_fn(name)(self.interp.term(self.st, base)))
        if isinstance(base, z3.ExprRef) and base.sort() == T.Val:
            return V("sym", t=T.attr_fn(name)(base))
        return getattr(base, name)

    def v_Subscript(self, n):
        base = self.ev(n.value)
        idx = self.ev(n.slice)
        return self.index(base, idx)

    def index(self, base, idx):
        if isinstance(base, V):
            if base.kind == "ref":
                h = self.st.heap[base.d]
                if isinstance(h, HDict) and h.pairs is not None:
                    from .builtins_theory import to_symbolic_dict
                    to_symbolic_dict(self.interp, self.st, h)
                if isinstance(h, HList):
                    if h.items is not None and isinstance(idx, int):
                        if not (-len(h.items) <= idx < len(h.items)):
                            return V("sym", t=self.interp.ctx.fresh_val("undef_index"))
                        return h.items[idx]
                    from .builtins_theory import to_symbolic_list
                    if h.items is not None:
                        arr = z3.K(T.I, T.NoneV)
                        for i, it in enumerate(h.items):
                            arr = z3.Store(arr, i, self.interp.term(self.st, it))
                        return V("sym", t=z3.Select(arr, self.to_int(idx)))
                    return V("sym", t=z3.Select(h.arr, self.to_int(idx)))
                if isinstance(h, HDict):
                    if h.pairs is not None:
                        raise SpecError("spec indexes a concrete dict; use the executor's view")
                    return V("sym", t=z3.Select(h.vals, self.to_key(idx)))
            if base.kind == "tuple" and isinstance(idx, int):
                if not (-len(base.d) <= idx < len(base.d)):
                    return V("sym", t=self.interp.ctx.fresh_val("undef_index"))
                return base.d[idx]
            if base.kind == "iter":
                return V("sym", t=T.F_at(base.d.seq, z3.simplify(base.d.pos + self.to_int(idx))))
            if base.kind == "const":
                return base.d[idx]
            return V("sym", t=T.F_at(self.interp.term(self.st, base), self.to_int(idx)))
        if isinstance(base, z3.ExprRef) and base.sort() == T.Val:
            return V("sym", t=T.F_at(base, self.to_int(idx)))
        return base[idx]

    def v_UnaryOp(self, n):
        x = self.ev(n.operand)
        if isinstance(n.op, ast.Not):
            return z3.Not(self.to_bool(x))
        if isinstance(n.op, ast.USub):
            return -self.to_int(x)
        raise SpecError("unary op")

    def v_BoolOp(self, n):
        is_and = isinstance(n.op, ast.And)
        vals = []
        for v in n.values:
            b = self.to_bool(self.ev(v))
            sb = z3.simplify(b)
            if is_and and z3.is_false(sb):
                return False
            if not is_and and z3.is_true(sb):
                return True
            vals.append(b)
        return z3.And(*vals) if is_and else z3.Or(*vals)

    def v_BinOp(self, n):
        a, b = self.ev(n.left), self.ev(n.right)
        if isinstance(a, int) and isinstance(b, int) and not isinstance(a, z3.ExprRef):
            import operator
            return {ast.Add: operator.add, ast.Sub: operator.sub, ast.Mult: operator.mul}[type(n.op)](a, b)
        ia, ib = self.to_int(a), self.to_int(b)
        if isinstance(n.op, ast.Add):
            return ia + ib
        if isinstance(n.op, ast.Sub):
            return ia - ib
        if isinstance(n.op, ast.Mult):
            return ia * ib
        raise SpecError("binary op")

    def v_IfExp(self, n):
        c = self.to_bool(self.ev(n.test))
        a, b = self.ev(n.body), self.ev(n.orelse)
        if self.is_intlike(a) and self.is_intlike(b):
            return z3.If(c, self.to_int(a), self.to_int(b))
        if self.is_boollike(a) and self.is_boollike(b):
            return z3.If(c, self.to_bool(a), self.to_bool(b))
        return V("sym", t=z3.If(c, self.to_val(a), self.to_val(b)))

    def v_Compare(self, n):
        left = self.ev(n.left)
        out = []
        for op, rn in zip(n.ops, n.comparators):
            right = self.ev(rn)
            out.append(self.cmp(op, left, right))
            left = right
        return z3.And(*out) if len(out) > 1 else out[0]

    def cmp(self, op, a, b):
        if isinstance(op, (ast.Eq, ast.Is)):
            return self.equal(a, b)
        if isinstance(op, (ast.NotEq, ast.IsNot)):
            return z3.Not(self.equal(a, b))
        if isinstance(op, (ast.In, ast.NotIn)):
            if isinstance(b, (tuple, list, set, frozenset)):
                e = z3.Or(*[self.equal(a, x) for x in b]) if b else z3.BoolVal(False)
            else:
                raise SpecError("`in` needs a literal collection in specs (use contains(...) otherwise)")
            return e if isinstance(op, ast.In) else z3.Not(e)
        ia, ib = self.to_int(a), self.to_int(b)
        return {ast.Lt: ia < ib, ast.LtE: ia <= ib, ast.Gt: ia > ib, ast.GtE: ia >= ib}[type(op)]

    def v_Call(self, n):
        f = self.ev(n.func)
        if isinstance(f, GhostRef):
            if f.fn.raw:
                return f.fn(self, n.args)
            args = [self.ev(a) for a in n.args]
            return f.fn(self, *args)
        args = [self.ev(a) for a in n.args]
        if f is builtins.type and len(args) == 1:
            return GHOSTS["type_of"](self, args[0])
        if f is builtins.isinstance:
            return GHOSTS["isinstance_"](self, *args)
        if f is builtins.len:
            return GHOSTS["len_"](self, *args)
        if isinstance(f, SpecLambda):
            return f(*args)
        if callable(f) and all(not isinstance(a, (V, z3.ExprRef)) for a in args):
            return f(*args)
        raise SpecError(f"cannot call {f!r} in a spec")


class SpecLambda:
    def __init__(self, node, env: SpecEnv):
        self.node = node
        self.env = env

    def __call__(self, *args):
        names = [a.arg for a in self.node.args.args]
        saved = dict(self.env.bound)
        self.env.bound.update(dict(zip(names, args)))
        try:
            return self.env.ev(self.node.body)
        finally:
            self.env.bound = saved


class GhostRef:
    def __init__(self, fn, env):
        self.fn = fn
        self.env = env


GHOSTS = {}
SPEC_CONSTS = {}


def ghost(name=None, raw=False):
    def deco(f):
        f.raw = raw
        GHOSTS[name or f.__name__] = f
        return f
    return deco


@ghost(raw=True)
def implies(env, argnodes):
    a = env.to_bool(env.ev(argnodes[0]))
    if z3.is_false(z3.simplify(a)):
        return True            # short-circuit: the consequent may mention values undefined on this path
    return z3.Implies(a, env.to_bool(env.ev(argnodes[1])))


@ghost()
def iff(env, a, b):
    return env.to_bool(a) == env.to_bool(b)


@ghost()
def ite(env, c, a, b):
    c = env.to_bool(c)
    if env.is_intlike(a) and env.is_intlike(b):
        return z3.If(c, env.to_int(a), env.to_int(b))
    if env.is_boollike(a) and env.is_boollike(b):
        return z3.If(c, env.to_bool(a), env.to_bool(b))
    return V("sym", t=z3.If(c, env.to_val(a), env.to_val(b)))


_qcount = [0]


def _quant(env, lam, q):
    if not isinstance(lam, SpecLambda):
        raise SpecError("forall/exists need a lambda")
    names = [a.arg for a in lam.node.args.args]
    _qcount[0] += 1
    vs = [z3.Int(f"{nm}?{_qcount[0]}") for nm in names]
    body = env.to_bool(lam(*vs))
    pats = infer_patterns(vs, body)
    if pats:
        return q(vs, body, patterns=pats)
    return q(vs, body)


def pattern_safe(e):
    """no if-then-else / boolean structure inside (z3 rejects such patterns)"""
    todo, seen = [e], set()
    while todo:
        x = todo.pop()
        if x.get_id() in seen:
            continue
        seen.add(x.get_id())
        if z3.is_quantifier(x):
            return False
        if z3.is_app(x):
            if x.decl().kind() in (z3.Z3_OP_ITE, z3.Z3_OP_AND, z3.Z3_OP_OR, z3.Z3_OP_NOT, z3.Z3_OP_EQ, z3.Z3_OP_IMPLIES,
                                   z3.Z3_OP_LE, z3.Z3_OP_LT, z3.Z3_OP_GE, z3.Z3_OP_GT, z3.Z3_OP_DISTINCT):
                return False
            todo.extend(x.children())
    return True


def infer_patterns(vs, body):
    """Index terms `seq_at(s, v)` / `a[v]` whose only bound variable is v (and is a direct argument) make good triggers."""
    ids = {v.get_id(): n for n, v in enumerate(vs)}
    cands = [[] for _ in vs]
    seen = set()

    def mentions(e, memo={}):
        out = set()
        todo = [e]
        vis = set()
        while todo:
            x = todo.pop()
            if x.get_id() in vis:
                continue
            vis.add(x.get_id())
            if x.get_id() in ids:
                out.add(ids[x.get_id()])
            if z3.is_quantifier(x):
                todo.append(x.body())
            else:
                todo.extend(x.children())
        return out
    todo = [body]
    while todo:
        x = todo.pop()
        if x.get_id() in seen:
            continue
        seen.add(x.get_id())
        if z3.is_quantifier(x):
            todo.append(x.body())
            continue
        if z3.is_app(x):
            k = x.decl().kind()
            nm = x.decl().name()
            if (k == z3.Z3_OP_SELECT or nm in ("seq_at", "key_at", "val_at")) and x.num_args() == 2 \
                    and x.arg(1).get_id() in ids and not mentions(x.arg(0)) and pattern_safe(x.arg(0)):
                n = ids[x.arg(1).get_id()]
                if all(not z3.eq(x, c) for c in cands[n]):
                    cands[n].insert(0, x)
            elif k == z3.Z3_OP_UNINTERPRETED and x.num_args() >= 1 and nm not in ("IntV", "BoolV"):
                direct = [a for a in x.children() if a.get_id() in ids]
                others = [a for a in x.children() if a.get_id() not in ids]
                if len(direct) == 1 and all(not mentions(a) and pattern_safe(a) for a in others):
                    n = ids[direct[0].get_id()]
                    if all(not z3.eq(x, c) for c in cands[n]):
                        cands[n].append(x)
            todo.extend(x.children())
    if any(not c for c in cands):
        return None
    if len(vs) == 1:
        return cands[0][:4]
    import itertools
    out = []
    for combo in itertools.islice(itertools.product(*[c[:2] for c in cands]), 4):
        out.append(z3.MultiPattern(*combo))
    return out


@ghost()
def forall(env, lam):
    return _quant(env, lam, z3.ForAll)


@ghost()
def exists(env, lam):
    return _quant(env, lam, z3.Exists)


@ghost()
def forall_val(env, lam):
    """quantification over python values (one variable)"""
    _qcount[0] += 1
    x = z3.Const(f"x?{_qcount[0]}", T.Val)
    body = env.to_bool(lam(V("sym", t=x)))
    pats = []
    todo, seen = [body], set()
    while todo:
        e = todo.pop()
        if e.get_id() in seen:
            continue
        seen.add(e.get_id())
        if z3.is_quantifier(e):
            todo.append(e.body())
            continue
        if z3.is_app(e):
            if e.decl().kind() == z3.Z3_OP_SELECT and e.num_args() == 2 and z3.eq(e.arg(1), x) and \
                    z3.is_const(e.arg(0)) and all(not z3.eq(e, p_) for p_ in pats):
                pats.append(e)
            todo.extend(e.children())
    if pats:
        return z3.ForAll([x], body, patterns=pats[:3])
    return z3.ForAll([x], body)


@ghost()
def has_key(env, d, k):
    st = env.st
    if isinstance(d, V) and d.kind == "ref":
        h = st.heap[d.d]
        if isinstance(h, HDict):
            if h.pairs is not None:
                from .builtins_theory import to_symbolic_dict
                to_symbolic_dict(env.interp, st, h)
            return z3.Select(h.has, env.to_key(k))
    raise SpecError("has_key needs a dict built by the unit")


@ghost()
def dict_same(env, a, b):
    """two dicts (usually: now and `old(...)`) have the same keys in the same order with the same values"""
    st = env.st
    hs = []
    for d in (a, b):
        if not (isinstance(d, V) and d.kind == "ref" and isinstance(st.heap[d.d], HDict)):
            raise SpecError("dict_same needs dicts")
        h = st.heap[d.d]
        if h.pairs is not None:
            from .builtins_theory import to_symbolic_dict
            to_symbolic_dict(env.interp, st, h)
        hs.append(h)
    x, y = hs
    return z3.And(x.kn == y.kn, x.has == y.has, x.vals == y.vals, x.karr == y.karr)


@ghost(raw=True)
def old(env, argnodes):
    """value of an expression in the entry state of the unit"""
    st0 = env.interp.entry_state
    e0 = SpecEnv(env.interp, st0, env.extra)
    e0.bound = dict(env.bound)
    r = e0.ev(argnodes[0])
    if isinstance(r, V) and r.kind == "ref":
        # a frozen copy of the entry-state content under a new handle (remembering which object it was)
        from .values import new_id
        cache = env.st.__class__.__dict__  # noqa: F841
        key = ("$old", r.d)
        hid = env.extra.get(key)
        if hid is None or hid not in env.st.heap:
            hid = new_id()
            env.st.heap[hid] = st0.heap[r.d].copy()
            env.extra[key] = hid
        v = V("ref", hid)
        v.tag = ("old_of", r.d)
        return v
    return r


@ghost()
def extras_prefix(env, target, source, i):
    """generated `for key in set(d) - known: extra[key] = d[key]`: after i iterations `extra` holds exactly the first i
    unprobed keys of d with their values"""
    from .builtins_theory import to_symbolic_dict
    h = env.st.heap[target.d]
    if h.pairs is not None:
        to_symbolic_dict(env.interp, env.st, h)
    node = source.d
    ii = env.to_int(i)
    j = z3.Int("ej!")
    j2 = z3.Int("ej2!")
    x = z3.Const("ex!", T.Val)
    return z3.And(
        h.kn == ii,
        z3.ForAll([x], z3.Implies(z3.Select(h.has, x),
                                  z3.Exists([j2], z3.And(j2 >= 0, j2 < ii, T.F_keyat(node.exkeys, j2) == x)))),
        z3.ForAll([j], z3.Implies(z3.And(j >= 0, j < ii),
                                  z3.And(z3.Select(h.karr, j) == T.F_keyat(node.exkeys, j),
                                         z3.Select(h.has, T.F_keyat(node.exkeys, j)),
                                         z3.Select(h.vals, T.F_keyat(node.exkeys, j)) == T.F_valat(node.exkeys, j))),
                  patterns=[T.F_keyat(node.exkeys, j)]))


@ghost()
def dict_key(env, d, i):
    h = env.st.heap[d.d]
    if h.pairs is not None:
        from .builtins_theory import to_symbolic_dict
        to_symbolic_dict(env.interp, env.st, h)
    return V("sym", t=z3.Select(h.karr, env.to_int(i)))


@ghost()
def dict_wf(env, d):
    from .verify import dict_wf_facts
    h = env.st.heap[d.d]
    if h.pairs is not None:
        from .builtins_theory import to_symbolic_dict
        to_symbolic_dict(env.interp, env.st, h)
    i, j = z3.Int("vi!"), z3.Int("vj!")
    x = z3.Const("vx!", T.Val)
    return z3.And(
        h.kn >= 0,
        z3.ForAll([i, j], z3.Implies(z3.And(0 <= i, i < j, j < h.kn), z3.Select(h.karr, i) != z3.Select(h.karr, j))),
        z3.ForAll([i], z3.Implies(z3.And(0 <= i, i < h.kn), z3.Select(h.has, z3.Select(h.karr, i)))),
        z3.ForAll([x], z3.Implies(z3.Select(h.has, x), z3.Exists([i], z3.And(0 <= i, i < h.kn, z3.Select(h.karr, i) == x)))))


@ghost()
def mcall(env, name, obj, *args):
    """result of calling method `name` on a symbolic object (the uninterpreted function the executor uses)"""
    ts = [env.to_val(obj)] + [env.to_val(a) for a in args]
    kind = env.interp.method_disciplines.get(name, "VAL")
    if kind == "PRED":
        return z3.Function(f"mcall_{name}", *([T.Val] * len(ts)), T.B)(*ts)
    return V("sym", t=z3.Function(f"mcall_{name}", *([T.Val] * len(ts)), T.Val)(*ts))


@ghost()
def route_found(env, router, request, off):
    return z3.Function("route_found", T.Val, T.Val, T.I, T.B)(env.to_val(router), env.to_val(request), env.to_int(off))


@ghost()
def route_h(env, router, request, off):
    return V("sym", t=z3.Function("route_h", T.Val, T.Val, T.I, T.Val)(env.to_val(router), env.to_val(request), env.to_int(off)))


@ghost()
def route_off(env, router, request, off):
    return z3.Function("route_off", T.Val, T.Val, T.I, T.I)(env.to_val(router), env.to_val(request), env.to_int(off))


@ghost()
def route_max(env, router):
    return z3.Function("route_max", T.Val, T.I)(env.to_val(router))


@ghost()
def pair(env, a, b):
    """the argument tuple (a, b) of a two-argument symbolic call"""
    return z3.Function("args_2", T.Val, T.Val, T.Val)(env.to_val(a), env.to_val(b))


@ghost()
def mcall_rows(env, obj):
    """the rows a shaped `get_request_handlers()` call returned for this receiver"""
    from .builtins_theory import shaped_rows
    kind = env.interp.method_disciplines["get_request_handlers"]
    return shaped_rows(env.interp, "get_request_handlers", env.to_val(obj), kind[1], kind[2])


@ghost()
def lookup(env, d, k):
    return V("sym", t=T.F_lookup(env.to_val(d), env.to_val(k)))


@ghost()
def mok(env, name, obj, *args):
    ts = [env.to_val(obj)] + [env.to_val(a) for a in args]
    return z3.Function(f"mok_{name}", *([T.Val] * len(ts)), T.B)(*ts)


@ghost()
def is_closure(env, x, name):
    """x is the closure of that name defined by the unit (not some pre-existing function object)"""
    return isinstance(x, V) and x.kind == "fn" and getattr(x.d.node, "name", None) == name


@ghost()
def raised_by_method(env, e):
    """the exception came out of a symbolic method call (e.g. the mediator declined)"""
    return isinstance(e, V) and e.ty is None


@ghost()
def reiterable(env, x):
    """a container that can be iterated any number of times (list / tuple / set / dict), not a one-shot producer"""
    if isinstance(x, V):
        if x.kind in ("ref", "tuple"):
            return True
        if x.kind == "const":
            return not hasattr(x.d, "__next__")
        if x.kind in ("gen", "iter"):
            return False
        return T.F_sub(T.F_cls(env.to_val(x)), env.interp.reg.cls(__import__("collections.abc").abc.Collection))
    return not hasattr(x, "__next__")


@ghost()
def opaque_res(env, name, *args):
    ts = [env.to_val(a) for a in args]
    return V("sym", t=z3.Function(f"opq_res_{name}", *([T.Val] * len(ts)), T.Val)(*ts))


@ghost()
def opaque_ok(env, name, *args):
    """the abstracted callee `name` returns (does not raise) on these arguments"""
    ts = [env.to_val(a) for a in args]
    return z3.Function(f"opq_ok_{name}", *([T.Val] * len(ts)), T.B)(*ts)


@ghost()
def mcalls(env, name):
    """how many times the path called method `name` on symbolic objects"""
    return sum(1 for c in env.st.calls if isinstance(c[0], str) and c[0] == name)


@ghost()
def calls_to(env, f):
    """how many times the path called the symbolic callable f (syntactic identity of the callee term)"""
    ft = env.to_val(f)
    return sum(1 for c in env.st.calls if isinstance(c[0], z3.ExprRef) and z3.eq(c[0], ft))


@ghost()
def same_object(env, a, b):
    if isinstance(a, V) and isinstance(b, V) and a.kind == "ref" and b.kind == "ref":
        ia = a.tag[1] if a.tag and a.tag[0] == "old_of" else a.d
        ib = b.tag[1] if b.tag and b.tag[0] == "old_of" else b.d
        return ia == ib
    return env.equal(a, b)


@ghost()
def origin_idx(env, e):
    return T.F_oidx(env.to_val(e))


@ghost()
def err_rank(env, e):
    """position of a dict-item error in the documented order: item index first, key error before value error"""
    from adaptix._internal.struct_trail import ItemKey as IK
    top = trail_top(env, e)
    return 2 * T.F_oidx(env.to_val(e)) + z3.If(T.F_cls(env.to_val(top)) == env.interp.reg.cls(IK), 0, 1)


@ghost()
def trail_top(env, e):
    st = env.st
    env.interp.ensure_trails(st)
    et = env.to_val(e)
    return V("sym", t=z3.Select(z3.Select(st.trail_arr, et), z3.Select(env.interp.trail0[0], et)))


@ghost()
def type_of(env, x):
    if isinstance(x, V):
        if x.kind == "const":
            return ClsLike(py=type(x.d))
        st = {"int": int, "bool": bool, "tuple": tuple}.get(x.kind)
        if x.kind == "ref":
            h = env.st.heap[x.d]
            st = list if isinstance(h, HList) else dict if isinstance(h, HDict) else h.cls
        if st is None and x.ty is not None and x.shadow is None:
            st = x.ty
        if st is not None:
            return ClsLike(py=st)
        return ClsLike(t=T.F_cls(env.interp.term(env.st, x)))
    if isinstance(x, z3.ExprRef):
        if z3.is_int(x):
            return ClsLike(py=int)
        if z3.is_bool(x):
            return ClsLike(py=bool)
        return ClsLike(t=T.F_cls(x))
    return ClsLike(py=type(x))


@ghost()
def isinstance_(env, x, c):
    classes = c if isinstance(c, tuple) else (c,)
    tc = type_of(env, x)
    if tc.py is not None:
        return z3.BoolVal(issubclass(tc.py, tuple(k if isinstance(k, type) else k.py for k in classes)))
    return z3.Or(*[T.F_sub(tc.t, env.cls_term(env.as_cls(k))) for k in classes])


@ghost()
def len_(env, x):
    if isinstance(x, V):
        if x.kind == "tuple":
            return len(x.d)
        if x.kind == "const":
            return len(x.d)
        if x.kind == "ref":
            h = env.st.heap[x.d]
            if isinstance(h, HList):
                return len(h.items) if h.items is not None else h.ln
            if isinstance(h, HDict):
                return len(h.pairs) if h.pairs is not None else h.kn
        if x.kind == "iter":
            return z3.simplify(T.F_len(x.d.seq) - x.d.pos)
        return T.F_len(env.interp.term(env.st, x))
    if isinstance(x, z3.ExprRef):
        return T.F_len(x)
    return len(x)


@ghost()
def ok(env, f, x):
    return T.F_ok(env.to_val(f), env.to_val(x))


@ghost()
def res(env, f, x):
    return V("sym", t=T.F_res(env.to_val(f), env.to_val(x)))


@ghost()
def raised_by(env, e):
    return V("sym", t=T.F_raised_by(env.to_val(e)))


@ghost()
def raised_on(env, e):
    return V("sym", t=T.F_raised_on(env.to_val(e)))


@ghost()
def errcls(env, f, x):
    return ClsLike(t=T.F_errcls(env.to_val(f), env.to_val(x)))


@ghost()
def errval(env, f, x):
    return V("sym", t=T.F_errval(env.to_val(f), env.to_val(x)))


@ghost()
def issub(env, c, base):
    cl = env.as_cls(c)
    bl = env.as_cls(base)
    if cl.py is not None and bl.py is not None:
        return z3.BoolVal(issubclass(cl.py, bl.py))
    return T.F_sub(env.cls_term(cl), env.cls_term(bl))


@ghost()
def is_err(env, e, f, x):
    """e is the exception f raised on x"""
    et, ft, xt = env.to_val(e), env.to_val(f), env.to_val(x)
    return z3.And(T.F_raised_by(et) == ft, T.F_raised_on(et) == xt, T.F_cls(et) == T.F_errcls(ft, xt),
                  T.attr_fn("input_value")(et) == T.F_errval(ft, xt))


@ghost()
def res_is_bytes(env, f):
    """requires-clause of wrappers around the bytes loader: whenever it returns, it returns exact bytes"""
    x = z3.Const("x!", T.Val)
    ft = env.to_val(f)
    return z3.ForAll([x], z3.Implies(T.F_ok(ft, x), T.F_cls(T.F_res(ft, x)) == env.interp.reg.cls(bytes)),
                     patterns=[T.F_res(ft, x)])


@ghost()
def py_eq(env, a, b):
    return T.F_pyeq(env.to_val(a), env.to_val(b))


@ghost()
def contains(env, coll, x):
    if isinstance(coll, V) and coll.kind == "const":
        coll = coll.d
    if isinstance(coll, (tuple, list, set, frozenset)):
        xt = env.to_val(x)
        return z3.Or(*[T.F_pyeq(xt, env.to_val(c)) for c in coll]) if coll else z3.BoolVal(False)
    return T.F_contains(env.to_val(coll), env.to_val(x))


@ghost()
def construct(env, factory, seq):
    return V("sym", t=T.F_mk(env.to_val(factory), env.to_val(seq)))


@ghost()
def elems(env, x):
    """the element sequence of an iterable datum (identity symbolically; natively the recorded element list)"""
    return x


@ghost()
def same_items(env, a, b):
    """a is a tuple holding exactly the elements iteration over b yields"""
    at, bt = env.to_val(a), env.to_val(b)
    j = z3.Int("sj!")
    return z3.And(T.F_cls(at) == env.interp.reg.cls(tuple), T.F_len(at) == T.F_len(bt),
                  z3.ForAll([j], z3.Implies(z3.And(j >= 0, j < T.F_len(bt)), T.F_at(at, j) == T.F_at(bt, j)),
                            patterns=[T.F_at(at, j), T.F_at(bt, j)]))


@ghost()
def built_from(env, x):
    return V("sym", t=T.F_mkseq(env.to_val(x)))


@ghost()
def trail_top_is(env, e, k):
    """the outermost trail element of e is k and exactly one element was added to e's trail by this activation"""
    st = env.st
    env.interp.ensure_trails(st)
    et = env.to_val(e)
    old_len = z3.Select(env.interp.trail0[0], et)
    # quantifier-free: the whole trail is the entry trail with k stored on top
    return z3.And(z3.Select(st.trail_len, et) == old_len + 1,
                  z3.Select(st.trail_arr, et) == z3.Store(z3.Select(env.interp.trail0[1], et), old_len, env.to_val(k)))


def trail_prefix_kept(env, et, old_len):
    st = env.st
    q = z3.Int("q!")
    return z3.ForAll([q], z3.Implies(z3.And(q >= 0, q < old_len),
                                     z3.Select(z3.Select(st.trail_arr, et), q) ==
                                     z3.Select(z3.Select(env.interp.trail0[1], et), q)))


@ghost()
def top_index(env, e):
    """the integer this activation put on top of e's trail"""
    st = env.st
    env.interp.ensure_trails(st)
    et = env.to_val(e)
    return T.F_ival(z3.Select(z3.Select(st.trail_arr, et), z3.Select(env.interp.trail0[0], et)))


@ghost()
def elem_error(env, e, f, seq, bound):
    """e is the error f raised on the element of seq that sits at e's own top trail index j (0 <= j < bound), and this
    activation put exactly j on e's trail.  (Skolemised form of `exists j`: the index is read off the trail.)"""
    j = top_index(env, e)
    el = env.index(seq, j)
    return z3.And(j >= 0, j < env.to_int(bound), z3.Not(ok(env, f, el)), is_err(env, e, f, el),
                  trail_top_is(env, e, j))


@ghost()
def trail_unchanged(env, e):
    st = env.st
    env.interp.ensure_trails(st)
    et = env.to_val(e)
    return z3.And(z3.Select(st.trail_len, et) == z3.Select(env.interp.trail0[0], et),
                  z3.Select(st.trail_arr, et) == z3.Select(env.interp.trail0[1], et))


@ghost()
def key_at(env, d, i):
    return V("sym", t=T.F_keyat(env.to_val(d), env.to_int(i)))


@ghost()
def val_at(env, d, i):
    return V("sym", t=T.F_valat(env.to_val(d), env.to_int(i)))


@ghost()
def map_len(env, d):
    return T.F_mlen(env.to_val(d))


@ghost()
def ItemKey(env, x):
    return V("sym", t=T.F_ItemKey(env.to_val(x)))


@ghost()
def ival(env, x):
    return T.F_ival(env.to_val(x))


@ghost()
def truthy(env, x):
    if isinstance(x, V):
        if x.kind == "bool":
            return x.d
        if x.kind == "const":
            return bool(x.d)
        if x.kind == "int":
            return x.d != 0
    if isinstance(x, bool):
        return x
    if isinstance(x, z3.ExprRef) and z3.is_bool(x):
        return x
    return T.F_truth(env.to_val(x))


@ghost()
def is_fresh(env, x):
    """the container was allocated by this activation (C20)"""
    if isinstance(x, V):
        if x.kind in ("tuple", "int", "bool"):
            return True
        if x.kind == "ref":
            return bool(env.st.heap[x.d].fresh)
        if x.kind == "const":
            return isinstance(x.d, (int, str, bytes, bool, type(None), float, tuple, frozenset))
        if x.tag and x.tag[0] == "fresh_container":
            return True
        return False
    return True


@ghost()
def trail_len(env, e):
    st = env.st
    env.interp.ensure_trails(st)
    return z3.Select(st.trail_len, env.to_val(e))


@ghost()
def trail_at(env, e, k):
    """k-th element of the *reversed* trail (index 0 = innermost / first appended)"""
    st = env.st
    env.interp.ensure_trails(st)
    return V("sym", t=z3.Select(z3.Select(st.trail_arr, env.to_val(e)), env.to_int(k)))


@ghost()
def old_trail_len(env, e):
    return z3.Select(env.interp.trail0[0], env.to_val(e))


@ghost()
def old_trail_at(env, e, k):
    return V("sym", t=z3.Select(z3.Select(env.interp.trail0[1], env.to_val(e)), env.to_int(k)))


@ghost()
def cell_in(env, x, *names):
    from .universe import CELL_INDEX
    if not (isinstance(x, V) and x.root is not None):
        raise SpecError("cell_in needs a datum of D")
    return cell_formula(env.interp.ctx.roots[x.root], [CELL_INDEX[n] for n in names])


@ghost(raw=True)
def py(env, argnodes):
    """py(lambda a, b: <native predicate>, x, y): evaluated natively per live cell on the shadows."""
    lam = argnodes[0]
    args = [env.ev(a) for a in argnodes[1:]]
    consts = {k: v.d for k, v in env.extra.items() if isinstance(v, V) and v.kind == "const" and v.shadow is None}
    fn = compile_native(lam, env.interp.globals, consts)
    vs = [a if isinstance(a, V) else const(a) for a in args]
    interp = env.interp
    from .builtins_theory import frozen_const
    for n_, v_ in enumerate(vs):
        if v_.kind in ("ref", "tuple") and v_.shadow is None:
            fz = frozen_const(interp, env.st, v_)
            if fz is not None:
                vs[n_] = const(fz)
    root = interp.common_root(vs)
    if root is False:
        raise SpecError("py(...) needs arguments shadowed on one datum")
    if root is None:
        return bool(fn(*[v.d for v in vs]))
    live = env.st.live[root]
    good = []
    for c in sorted(live):
        try:
            if all((v.shadow is None) or (c in v.shadow) for v in vs) and fn(*[interp.concrete(v, c) for v in vs]):
                good.append(c)
        except Exception as e:  # noqa: BLE001
            import os
            if os.environ.get("PYVC_DEBUG"):
                print("py() raised on cell", c, type(e).__name__, e)
    if len(good) == len(live):
        return True
    return cell_formula(interp.ctx.roots[root], good)


_native_cache = {}


def compile_native(lam_node, module_globals, consts=None):
    key = ast.dump(lam_node)
    code = _native_cache.get(key)
    if code is None:
        code = _native_cache[key] = compile(ast.Expression(body=lam_node), "<spec>", "eval")
    from .concrete import concrete_env
    g = dict(module_globals)
    g.update(consts or {})
    g.update(concrete_env())
    return eval(code, g)  # noqa: S307


def _init_spec_consts():
    from . import extract
    extract.ensure_repo_on_path()
    from adaptix._internal.morphing import load_error as le
    for n in dir(le):
        o = getattr(le, n)
        if isinstance(o, type) and issubclass(o, BaseException):
            SPEC_CONSTS[n] = o
    from adaptix._internal.compat import CompatExceptionGroup
    SPEC_CONSTS["CompatExceptionGroup"] = CompatExceptionGroup
    SPEC_CONSTS["NoneV"] = V("sym", t=T.NoneV)


_init_spec_consts()
