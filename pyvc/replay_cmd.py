"""./check replay <file>: re-run the check that wrote a replay file on /repo's CURRENT working tree and say whether the same violation
(same unit, clause and witness — replay files are named after them) is reported again.
exit 1 = reproduced, 0 = not reproduced on this tree, 3 = the replay file cannot be used."""
from __future__ import annotations

import json
import os
import subprocess
import sys


def main(path):
    if not path or not os.path.exists(path):
        print(f"replay: no such file {path}")
        return 3
    try:
        d = json.load(open(path))
        prop, unit, clause, witness = d["property"], d.get("unit", ""), d.get("clause", ""), d.get("witness", "")
    except Exception as e:  # noqa: BLE001
        print(f"replay: {path} is not a replay file ({type(e).__name__}: {e})")
        return 3
    here = os.path.dirname(os.path.dirname(os.path.abspath(__file__)))
    cmd = [os.path.join(here, "check"), prop, "--tier", os.environ.get("VERIF_TIER", "quick")]
    # contract units can be selected by name; program families and bounded probes are re-run as a whole
    if ":" in unit and not unit.startswith("genprog:") and "/" in unit.split(":")[0]:
        cmd += ["--only", unit.split("[")[0]]
    print(f"replay: property={prop} unit={unit} clause={clause} witness={str(witness)[:120]}")
    print("replay: running " + " ".join(cmd))
    out = subprocess.run(cmd, capture_output=True, text=True, cwd=here).stdout
    base = os.path.basename(path)
    again = [ln for ln in out.splitlines() if ln.startswith("VIOLATION") and base in ln]
    known = [ln for ln in out.splitlines() if ln.startswith("KNOWN-FINDING") and f"clause={clause}" in ln and str(witness) in ln]
    if again:
        print(again[0])
        native = d.get("native") or {}
        if native:
            print(f"  input: {str(native.get('input'))[:300]}\n  outcome on the real code: {str(native.get('native_outcome'))[:300]}")
        print("replay: REPRODUCED on the current tree")
        return 1
    if known:
        print(known[0][:300])
        print("replay: REPRODUCED on the current tree (recorded as a known finding)")
        return 1
    print("replay: NOT reproduced on the current tree")
    return 0
