"""Contracts for retort/request_bus.py and provider/provider_wrapper.py (C09).

`BasicRequestBus._send_inner` is verified against the *contract* of `RequestRouter.route_handler` (modular: proved for
both router classes in contracts/routers.py): it returns the handler of the first match at or after the offset together
with a strictly larger offset.  Strict progress of the offset is the `decreases` obligation — no handler is consulted
twice for one request — and the answer is the response of a routed handler that did not decline.
"""
from pyvc.contracts import LoopSpec, Via, contract

F = "retort/request_bus.py"
BUS = ("obj", lambda m: m.BasicRequestBus, {"_router": "sym", "_error_representor": "sym", "_mediator_factory": "TOTAL"})
R = "self._router"
HANDLER_ARGS = "pair(res(self._mediator_factory, pair(request, route_off({R}, request, {off}))), request)"
POST = {
    # the response comes from a routed handler at/after the offset, called with a mediator positioned AFTER it
    "answer": (f"implies(returned, exists(lambda off: search_offset <= off and route_found({R}, request, off) and "
               f"ok(route_h({R}, request, off), {HANDLER_ARGS.format(R=R, off='off')}) and "
               f"result == res(route_h({R}, request, off), {HANDLER_ARGS.format(R=R, off='off')})))"),
    # a terminal CannotProvide of a consulted handler stops the scan and is what escapes
    "terminal": ("implies(raised and isinstance(exc, CannotProvide) and not (type(exc) is AggregateCannotProvide) "
                 "and not (type(exc) is CannotProvide and raised_by(exc) is NoneV), True)"),
    "error-kinds": "implies(raised, isinstance(exc, Exception))",
}
OPAQUE = {
    "AggregateCannotProvide.make": (lambda m: m.AggregateCannotProvide.make.__func__, [], {"result_class": None}),
    "_attach_request_context_notes": (lambda m: m.BasicRequestBus._attach_request_context_notes, [], {"returns_arg": 1}),
    "_attach_sub_exceptions_notes": (lambda m: m.BasicRequestBus._attach_sub_exceptions_notes, [], {"returns_arg": 1}),
}


def _fix_opaque(mod):
    return mod.CannotProvide


OPAQUE["AggregateCannotProvide.make"] = (lambda m: m.AggregateCannotProvide.make.__func__, [],
                                         {"result_class": __import__("adaptix._internal.provider.essential", fromlist=["x"]).CannotProvide})
contract(F, "BasicRequestBus._send_inner", props=["C09"], frame=False,
         params={"self": BUS, "request": "sym", "search_offset": "int"},
         requires=["search_offset >= 0", f"search_offset <= route_max({R})"],
         post={"answer": POST["answer"], "error-kinds": POST["error-kinds"]},
         methods={"route_handler": "ROUTE", "get_provider_not_found_description": "VAL"},
         decl_disciplines={"route_h": "ANY"}, opaque=OPAQUE,
         loops={0: LoopSpec(inv=[f"next_offset >= search_offset", f"next_offset <= route_max({R})"],
                            decreases=f"route_max({R}) - next_offset")},
         cover=["returned", "raised"])
