# Feasibility: inductive-step VC for iter_loader_dt_all loop: errors collected == failing indices, outputs == mapped ok elems
import z3, time
V = z3.DeclareSort('V')      # python values
E = z3.DeclareSort('E')      # exceptions
ok = z3.Function('ok', V, z3.BoolSort())          # loader succeeds on v
res = z3.Function('res', V, V)                    # result when ok
err = z3.Function('err', V, E)                    # raised error otherwise
isLE = z3.Function('isLE', E, z3.BoolSort())      # is LoadError
withtrail = z3.Function('withtrail', E, z3.IntSort(), E)  # append_trail(e, idx)
xs = z3.Const('xs', z3.SeqSort(V))
i = z3.Int('i')
out = z3.Const('out', z3.SeqSort(V))
errors = z3.Const('errors', z3.SeqSort(E))
unexp = z3.Bool('unexp')
# ghost spec: count of failures among first i, via recursive fn over index
nfail = z3.RecFunction('nfail', z3.SeqSort(V), z3.IntSort(), z3.IntSort())
n = z3.Int('n'); s = z3.Const('s', z3.SeqSort(V))
z3.RecAddDefinition(nfail, [s, n], z3.If(n <= 0, 0, nfail(s, n-1) + z3.If(ok(s[n-1]), 0, 1)))
# invariant: len(errors) == nfail(xs,i) ; len(out) == i - nfail ; unexp <=> exists j<i not ok and not isLE(err)
j = z3.Int('j')
def Inv(i, out, errors, unexp):
    return z3.And(0 <= i, i <= z3.Length(xs),
                  z3.Length(errors) == nfail(xs, i),
                  z3.Length(out) == i - nfail(xs, i),
                  unexp == z3.Exists([j], z3.And(0 <= j, j < i, z3.Not(ok(xs[j])), z3.Not(isLE(err(xs[j]))))))
el = xs[i]
out2 = z3.If(ok(el), z3.Concat(out, z3.Unit(res(el))), out)
errors2 = z3.If(ok(el), errors, z3.Concat(errors, z3.Unit(withtrail(err(el), i))))
unexp2 = z3.If(ok(el), unexp, z3.If(isLE(err(el)), unexp, True))
sol = z3.Solver(); sol.set('timeout', 20000)
sol.add(Inv(i, out, errors, unexp), i < z3.Length(xs))
sol.add(z3.Not(Inv(i+1, out2, errors2, unexp2)))
t=time.time(); print('step', sol.check(), round(time.time()-t,2))
