"""C18 extras: round trips dump -> load over ALL members and ALL 2^n flag combinations of the enum family, for every
representation provider and option combination.  This is an exhaustive enumeration of a finite space per class
(complete for that class) but bounded over classes: it is reported under `bounded`, never as discharged obligations."""
import datetime
import enum
import itertools
import time

LEVEL_TEXT = ("loader contracts proved over the data universe for a printed family of enum/flag classes and all option "
              "combinations; dumper/loader round trips enumerated exhaustively over members and 2^n combinations (bounded over "
              "classes)")


def extra_checks(tier, seed):
    from adaptix import Retort, enum_by_exact_value, enum_by_name, enum_by_value, flag_by_exact_value, flag_by_member_names
    from adaptix import NameStyle
    from contracts import enum_provider as ep
    t0 = time.time()
    viol, n, skipped, not_representable = [], 0, [], 0
    enum_cfgs = {
        "exact": lambda: [enum_by_exact_value()],
        "name": lambda: [enum_by_name()],
        "name-upper": lambda: [enum_by_name(name_style=NameStyle.UPPER)],
        "name-map": lambda: [enum_by_name(map={"a": "first"})],
    }
    import typing
    from decimal import Decimal

    class EDec(enum.Enum):           # values whose outer form differs from the value: dumped through the Decimal dumper (str)
        lo = Decimal("0.5")
        hi = Decimal("2")

    class EDate(enum.Enum):
        d1 = datetime.date(2020, 1, 2)
        d2 = datetime.date(1999, 12, 31)
    # by value type: "the loader will call the loader of tp and pass it to the enum constructor" — tp must cover all member values
    value_cfgs = [("E1", ep.E1, typing.Union[int, str]), ("EStr", ep.EStr, str), ("EInt", ep.EInt, int), ("EAlias", ep.EAlias, int),
                  ("EDec", EDec, Decimal), ("EDate", EDate, datetime.date)]
    pairs = list(itertools.product(ep.ENUMS.items(), enum_cfgs.items()))
    pairs += [((cname, cls), (f"value[{getattr(tp, '__name__', tp)}]", (lambda cls=cls, tp=tp: [enum_by_value(cls, tp=tp)])))
              for cname, cls, tp in value_cfgs]
    for (cname, cls), (pname, mk) in pairs:
        r = Retort(recipe=mk())
        try:
            reps = [repr(r.dump(m, cls)) for m in cls]       # canonical members only (aliases share a member)
        except Exception:  # noqa: BLE001
            reps = None
        if reps is not None and len(set(reps)) != len(reps):
            skipped.append(f"{cname}/{pname}: outer names not injective (premise of the bijection)")
            continue
        for m in cls.__members__.values():
            n += 1
            try:
                d = r.dump(m, cls)
                back = r.load(d, cls)
                ok = back is m
                detail = f"dump={d!r} load={back!r}"
            except Exception as e:  # noqa: BLE001
                ok, detail = False, f"{type(e).__name__}: {e}"
            if not ok:
                viol.append({"unit": f"roundtrip:{pname}", "clause": "roundtrip", "witness": f"{cname}.{m.name}",
                             "w": {"native_outcome": detail, "input": f"{cname}.{m.name}"}})
    flag_cfgs = {"exact": lambda: [flag_by_exact_value()]}
    for single, dups, compound in itertools.product((False, True), repeat=3):
        flag_cfgs[f"names-s{int(single)}d{int(dups)}c{int(compound)}"] = (
            lambda single=single, dups=dups, compound=compound: [flag_by_member_names(
                allow_single_value=single, allow_duplicates=dups, allow_compound=compound)])
    for (cname, cls), (pname, mk) in itertools.product(ep.FLAGS.items(), flag_cfgs.items()):
        r = Retort(recipe=mk())
        singles = [m for m in cls.__members__.values()]
        mask = 0
        for m in singles:
            mask |= m.value
        compound_ok = "c0" not in pname
        cases = [m for m in singles if compound_ok or (m.value > 0 and m.value & (m.value - 1) == 0)]
        for v in range(0, mask + 1):
            try:
                val = cls(v)
            except ValueError:
                continue
            if pname != "exact":
                # "any combination of flags": a value that is not the union of the members this representation may name has no
                # list-of-names representation at all (premise of the bijection, counted below)
                part = cls(0)
                for m in cases:
                    if m in val:
                        part |= m
                if part != val:
                    not_representable += 1
                    continue
            n += 1
            try:
                d = r.dump(val, cls)
                back = r.load(d, cls)
                ok = back == val and type(back) is type(val)
                detail = f"dump={d!r} load={back!r}"
            except Exception as e:  # noqa: BLE001
                ok, detail = False, f"{type(e).__name__}: {e}"
            if not ok:
                viol.append({"unit": f"roundtrip:{pname}", "clause": "roundtrip", "witness": f"{cname}({v})",
                             "w": {"native_outcome": detail, "input": f"{cname}({v})"}})
    return [{
        "obligations": 0, "discharged": 0, "violations": viol,
        "bounded": [{"unit": "enum/flag round trips", "bound": f"{len(ep.ENUMS)} enum classes x {len(enum_cfgs)} providers, "
                     f"{len(ep.FLAGS)} flag classes x {len(flag_cfgs)} providers; all members and all combinations 0..mask: "
                     f"{n} round trips (exhaustive per class)"}],
        "samples": [{"roundtrips": n, "failed": len(viol), "skipped_premise_violations": skipped,
                     "flag_values_that_are_no_union_of_nameable_members": not_representable}],
        "solver_time": 0.0, "assumptions": [], "wall": time.time() - t0,
    }]
