"""Contracts for retort/routers.py (C09: first match in recipe order, no handler consulted twice).

Abstract view (DESIGN.md Appendix A.1): a routing item is either a (checker, handler) pair or a dict origin -> handler
standing for consecutive exact-origin pairs with pairwise distinct origins.  `ExactOriginCombiner` buffers the pending
run in `self._combo`; every flush must leave the buffer EMPTY, otherwise a flushed pair is flushed again later and its
handler is consulted twice.
"""
from pyvc.contracts import LoopSpec, contract

F = "retort/routers.py"
SELF = ("obj", lambda m: m.ExactOriginCombiner, {"_combo": "dict"})
OLD = "old(self._combo)"



def _combiner_scenarios(method, with_arg=True):
    def gen(mod):
        from adaptix._internal.provider.loc_stack_filtering import ExactOriginLSC
        from adaptix._internal.provider.located_request import LocatedRequestChecker

        class Other:
            def check_request(self, mediator, request):
                return True
        out = []
        origins = [int, str, bytes]
        for size in range(0, 4):
            args_list = [("none", None)] if with_arg else [("-", None)]
            if with_arg:
                args_list += [("new-exact", (LocatedRequestChecker(ExactOriginLSC(float)), "h_new")),
                              ("same-exact", (LocatedRequestChecker(ExactOriginLSC(int)), "h_same")),
                              ("other", (Other(), "h_other"))]
            for aname, arg in args_list:
                if method == "register_item" and arg is None:
                    continue

                def factory(size=size, arg=arg):
                    comb = mod.ExactOriginCombiner()
                    for o in origins[:size]:
                        comb._combo[o] = f"h_{o.__name__}"
                    fn = getattr(mod.ExactOriginCombiner, method)
                    a = {"self": comb}
                    if with_arg:
                        a["checker_and_handler"] = arg
                    return fn, a
                out.append((f"combo{size}|{aname}", factory))
        return out
    return gen


STOP_POST = {
    # the pending run is consumed by the flush
    "combo-emptied": "implies(returned, len(self._combo) == 0)",
    "combo-wf": "implies(returned, dict_wf(self._combo))",
    "raises-nothing": "returned",
    # what is emitted, in order: the pending run (as one item), then the new pair
    "emitted-count": (f"implies(returned, len(result) == ite(len({OLD}) > 0, 1, 0) + ite(checker_and_handler is None, 0, 1))"),
    "emitted-single": (f"implies(returned and len({OLD}) == 1, type(result[0]) is tuple and "
                       f"type(result[0][0]) is LocatedRequestChecker and type(result[0][0].loc_stack_checker) is ExactOriginLSC and "
                       f"result[0][0].loc_stack_checker.origin is dict_key({OLD}, 0) and result[0][1] is {OLD}[dict_key({OLD}, 0)])"),
    "emitted-combo": (f"implies(returned and len({OLD}) > 1, same_object(result[0], {OLD}))"),
    "emitted-last": ("implies(returned and not (checker_and_handler is None), result[len(result) - 1] is checker_and_handler)"),
}
contract(F, "ExactOriginCombiner._stop_combo", props=["C09"], frame=False,
         params={"self": SELF, "checker_and_handler": "sym"}, post=STOP_POST, scenarios=_combiner_scenarios("_stop_combo"),
         cover=["returned", f"returned and len({OLD}) == 1", f"returned and len({OLD}) > 1",
                "returned and checker_and_handler is None"])
contract(F, "ExactOriginCombiner.finalize", props=["C09"], frame=False, params={"self": SELF},
         scenarios=_combiner_scenarios("finalize", with_arg=False),
         post={"combo-emptied": "implies(returned, len(self._combo) == 0)", "raises-nothing": "returned",
               "emitted-count": f"implies(returned, len(result) == ite(len({OLD}) > 0, 1, 0))"},
         cover=["returned"])

IS_EXACT = ("(isinstance(checker_and_handler[0], LocatedRequestChecker) and "
            "isinstance(checker_and_handler[0].loc_stack_checker, ExactOriginLSC))")
ORIGIN = "checker_and_handler[0].loc_stack_checker.origin"
REG_POST = {
    "raises-nothing": "returned",
    "combo-wf": "implies(returned, dict_wf(self._combo))",
    # a new exact origin joins the pending run, nothing is emitted
    "buffered": (f"implies(returned and {IS_EXACT} and not has_key({OLD}, {ORIGIN}), len(result) == 0 and "
                 f"len(self._combo) == len({OLD}) + 1 and has_key(self._combo, {ORIGIN}) and "
                 f"self._combo[{ORIGIN}] is checker_and_handler[1] and dict_key(self._combo, len({OLD})) is {ORIGIN})"),
    "buffered-keeps": (f"implies(returned and {IS_EXACT} and not has_key({OLD}, {ORIGIN}), forall(lambda i: implies(0 <= i and i < len({OLD}), "
                       f"dict_key(self._combo, i) is dict_key({OLD}, i) and self._combo[dict_key({OLD}, i)] is {OLD}[dict_key({OLD}, i)])))"),
    # anything else flushes: the run is emitted, the buffer is empty, the pair comes last
    "flushed": (f"implies(returned and not ({IS_EXACT} and not has_key({OLD}, {ORIGIN})), len(self._combo) == 0 and "
                f"len(result) == ite(len({OLD}) > 0, 1, 0) + 1 and result[len(result) - 1] is checker_and_handler)"),
}
contract(F, "ExactOriginCombiner.register_item", props=["C09"], frame=False,
         params={"self": SELF, "checker_and_handler": "sym"}, post=REG_POST, scenarios=_combiner_scenarios("register_item"),
         cover=["returned", f"returned and {IS_EXACT}", f"returned and not {IS_EXACT}"])


def _router_scenarios(kind):
    def gen(mod):
        import itertools
        from adaptix._internal.morphing.request_cls import LoaderRequest
        from adaptix._internal.provider.loc_stack_filtering import LocStack
        from adaptix._internal.provider.location import TypeHintLoc
        from adaptix._internal.type_tools import normalize_type

        class Chk:
            def __init__(self, ans):
                self.ans = ans

            def check_request(self, mediator, request):
                return self.ans
        request = LoaderRequest(loc_stack=LocStack(TypeHintLoc(type=int)))
        origin = normalize_type(int).origin
        atoms = [("T", lambda: (Chk(True), "hT")), ("F", lambda: (Chk(False), "hF"))]
        if kind == "located":
            atoms += [("Dint", lambda: {int: "hDint", str: "hDstr"}), ("Dstr", lambda: {str: "hDstr2"})]
        out = []
        for n in range(0, 4):
            for combo in itertools.product(atoms, repeat=n):
                for off in range(0, n + 2):
                    def factory(combo=combo, off=off):
                        items = [f() for _, f in combo]
                        if kind == "located":
                            r = mod.LocatedRequestRouter(items)
                            fn = mod.LocatedRequestRouter.route_handler
                        else:
                            r = mod.SimpleRouter(items)
                            fn = mod.SimpleRouter.route_handler
                        return fn, {"self": r, "mediator": None, "request": request, "search_offset": off}, {"origin": origin}
                    out.append(("".join(a for a, _ in combo) + f"@{off}", factory))
        return out
    return gen


# ---- routers: the handler returned is the FIRST match at or after the offset ------------------------------------------
SR_SELF = ("obj", lambda m: m.SimpleRouter, {"_checkers_and_handlers": "sym"})
CAH = "self._checkers_and_handlers"
MATCH = f"mcall('check_request', {CAH}[{{j}}][0], mediator, request)"
SR_POST = {
    "first-match": (f"implies(returned, exists(lambda k: search_offset <= k and k < len({CAH}) and {MATCH.format(j='k')} and "
                    f"forall(lambda j: implies(search_offset <= j and j < k, not {MATCH.format(j='j')})) and "
                    f"result[0] is {CAH}[k][1] and result[1] == k + 1))"),
    "none-iff": (f"implies(raised, type(exc) is StopIteration and "
                 f"forall(lambda j: implies(search_offset <= j and j < len({CAH}), not {MATCH.format(j='j')})))"),
}
contract(F, "SimpleRouter.route_handler", props=["C09"],
         params={"self": SR_SELF, "mediator": "sym", "request": "sym", "search_offset": "int"},
         requires=["search_offset >= 0"], post=SR_POST, methods={"check_request": "PRED"}, scenarios=_router_scenarios("simple"),
         loops={0: LoopSpec(inv=[f"forall(lambda j: implies(search_offset <= j and j < search_offset + _i, not {MATCH.format(j='j')}))"])},
         cover=["returned", "raised"])

LR_SELF = ("obj", lambda m: m.LocatedRequestRouter, {"_items": "sym"})
IT = "self._items"
LMATCH = (f"ite(type({IT}[{{j}}]) is tuple, mcall('check_request', {IT}[{{j}}][0], mediator, request), "
          f"not (mcall('get', {IT}[{{j}}], origin) is None))")
LHANDLER = f"ite(type({IT}[{{j}}]) is tuple, {IT}[{{j}}][1], mcall('get', {IT}[{{j}}], origin))"
LR_POST = {
    "first-match": (f"implies(returned, exists(lambda k: search_offset <= k and k < len({IT}) and {LMATCH.format(j='k')} and "
                    f"forall(lambda j: implies(search_offset <= j and j < k, not {LMATCH.format(j='j')})) and "
                    f"result[0] is {LHANDLER.format(j='k')} and result[1] == k + 1))"),
    "none-iff": (f"implies(raised, type(exc) is StopIteration and "
                 f"forall(lambda j: implies(search_offset <= j and j < len({IT}), not {LMATCH.format(j='j')})))"),
}
contract(F, "LocatedRequestRouter.route_handler", props=["C09"],
         params={"self": LR_SELF, "mediator": "sym", "request": "sym", "search_offset": "int"},
         requires=["search_offset >= 0"], post=LR_POST, methods={"check_request": "PRED", "get": "VAL"},
         scenarios=_router_scenarios("located"),
         opaque={"normalize_type": (lambda m: m.normalize_type, [ValueError])},
         loops={0: LoopSpec(inv=[f"forall(lambda j: implies(search_offset <= j and j < search_offset + _i, not {LMATCH.format(j='j')}))"])},
         cover=["returned", "raised"])
