"""Contracts for retort/request_bus.py and provider/provider_wrapper.py (C09).

`BasicRequestBus._send_inner` is verified against the *contract* of `RequestRouter.route_handler` (modular: proved for
both router classes in contracts/routers.py): it returns the handler of the first match at or after the offset together
with a strictly larger offset.  Strict progress of the offset is the `decreases` obligation — no handler is consulted
twice for one request — and the answer is the response of a routed handler that did not decline.
"""
from pyvc.contracts import LoopSpec, Via, contract

F = "retort/request_bus.py"
BUS = ("obj", lambda m: m.BasicRequestBus, {"_router": "sym", "_error_representor": "sym", "_mediator_factory": "TOTAL"})
R = "self._router"
HANDLER_ARGS = "pair(res(self._mediator_factory, pair(request, route_off({R}, request, {off}))), request)"
POST = {
    # the response comes from a routed handler at/after the offset, called with a mediator positioned AFTER it
    "answer": (f"implies(returned, exists(lambda off: search_offset <= off and route_found({R}, request, off) and "
               f"ok(route_h({R}, request, off), {HANDLER_ARGS.format(R=R, off='off')}) and "
               f"result == res(route_h({R}, request, off), {HANDLER_ARGS.format(R=R, off='off')})))"),
    # a terminal CannotProvide of a consulted handler stops the scan and is what escapes
    "terminal": ("implies(raised and isinstance(exc, CannotProvide) and not (type(exc) is AggregateCannotProvide) "
                 "and not (type(exc) is CannotProvide and raised_by(exc) is NoneV), True)"),
    "error-kinds": "implies(raised, isinstance(exc, Exception))",
}


def _bus_scenarios(mod):
    import itertools
    from adaptix._internal.provider.essential import CannotProvide

    class FakeRouter:
        def __init__(self, handlers):
            self.handlers = handlers

        def route_handler(self, mediator, request, off):
            if off < len(self.handlers):
                return self.handlers[off], off + 1
            raise StopIteration

        def get_max_offset(self):
            return len(self.handlers)

    class Rep:
        def get_provider_not_found_description(self, request):
            return "nf"

        def get_request_context_notes(self, request):
            return ()

    def mk(kind, n):
        def h(mediator, request):
            if kind == "A":
                return ("answer", n, mediator)
            if kind == "D":
                raise CannotProvide("decline")
            if kind == "T":
                raise CannotProvide("terminal", is_terminal=True)
            raise ValueError("boom")
        h.__name__ = f"h{kind}{n}"
        return h
    out = []
    for n in range(0, 4):
        for combo in itertools.product("ADTV", repeat=n):
            for off in range(0, n + 1):
                def factory(combo=combo, off=off):
                    router = FakeRouter([mk(k, i) for i, k in enumerate(combo)])
                    bus = mod.BasicRequestBus(router, Rep(), lambda request, o: ("mediator", o))
                    ghosts = {
                        "route_found": lambda r, req, o: o < len(r.handlers),
                        "route_h": lambda r, req, o: r.handlers[o] if 0 <= o < len(r.handlers) else None,
                        "route_off": lambda r, req, o: o + 1,
                        "route_max": lambda r: len(r.handlers),
                        "pair": lambda a, b: (a, b),
                        "ok": lambda f, a: _ok(f, a),
                        "res": lambda f, a: f(*a) if isinstance(a, tuple) else f(a),
                    }
                    return mod.BasicRequestBus._send_inner, {"self": bus, "request": "REQ", "search_offset": off}, ghosts
                out.append(("".join(combo) + f"@{off}", factory))
    return out


def _ok(f, a):
    try:
        f(*a) if isinstance(a, tuple) else f(a)
        return True
    except Exception:  # noqa: BLE001
        return False


OPAQUE = {
    "AggregateCannotProvide.make": (lambda m: m.AggregateCannotProvide.make.__func__, [], {"result_class": None}),
    "_attach_request_context_notes": (lambda m: m.BasicRequestBus._attach_request_context_notes, [], {"returns_arg": 1}),
    "_attach_sub_exceptions_notes": (lambda m: m.BasicRequestBus._attach_sub_exceptions_notes, [], {"returns_arg": 1}),
}


def _fix_opaque(mod):
    return mod.CannotProvide


OPAQUE["AggregateCannotProvide.make"] = (lambda m: m.AggregateCannotProvide.make.__func__, [],
                                         {"result_class": __import__("adaptix._internal.provider.essential", fromlist=["x"]).CannotProvide})
contract(F, "BasicRequestBus._send_inner", props=["C09"], frame=False,
         params={"self": BUS, "request": "sym", "search_offset": "int"},
         requires=["search_offset >= 0", f"search_offset <= route_max({R})"],
         post={"answer": POST["answer"], "error-kinds": POST["error-kinds"]},
         methods={"route_handler": "ROUTE", "get_provider_not_found_description": "VAL"},
         decl_disciplines={"route_h": "ANY"}, opaque=OPAQUE, scenarios=_bus_scenarios,
         loops={0: LoopSpec(inv=[f"next_offset >= search_offset", f"next_offset <= route_max({R})"],
                            decreases=f"route_max({R}) - next_offset")},
         cover=["returned", "raised"])


# ---- Chain.FIRST / Chain.LAST: the user function and the next provider's result compose exactly once ---------------
FW = "provider/provider_wrapper.py"
CUR = "res(handler, pair(mediator, request))"
NXT = "mcall('provide_from_next', mediator)"
for chain, first, second in (("FIRST", CUR, NXT), ("LAST", NXT, CUR)):
    contract(FW, "ChainingProvider._wrap_handler.<locals>.chaining_handler", name=f"{FW}:chaining_handler[{chain}]",
             props=["C09"],
             via=Via("ChainingProvider._wrap_handler",
                     {chain: (lambda m, chain=chain: m.ChainingProvider(getattr(m.Chain, chain), None))},
                     args={"handler": "ANY"}),
             params={"mediator": "sym", "request": "sym"}, then={"data": "D"},
             methods={"provide_from_next": "VAL_OR_RAISE"},
             decl_disciplines={"res": "ANY", "mcall_provide_from_next": "ANY"},
             post={
                 # documented direction: FIRST = user function first, its result goes to the next provider's processor
                 "direction": f"implies(returned, result == res({second}, res({first}, data)))",
                 "accept-iff": f"returned == (ok({first}, data) and ok({second}, res({first}, data)))",
                 "once-first": f"implies(returned, calls_to({first}) == 1)",
                 "once-second": f"implies(returned, calls_to({second}) == 1)",
                 "handler-once": "calls_to(handler) == 1",
             },
             cover=["returned", "raised"])


# ---- a retort placed in a recipe answers every request class that any provider of its FULL recipe handles ----------
SF = "retort/searching_retort.py"


def _retort_obj(n_full, n_inst):
    return ("obj", lambda m: m.SearchingRetort,
            {"_full_recipe": ("tuple", ["sym"] * n_full), "_instance_recipe": ("tuple", ["sym"] * n_inst)})


for _nf, _ni in ((2, 1), (3, 0), (1, 1)):
    covered = " and ".join(
        f"exists(lambda e: 0 <= e and e < len(result) and result[e][0] is mcall_rows(self._full_recipe[{p}])[{r}][0] and "
        f"type(result[e][1]) is AlwaysTrueRequestChecker)" for p in range(_nf) for r in range(2))
    contract(SF, "SearchingRetort.get_request_handlers", name=f"{SF}:SearchingRetort.get_request_handlers[full{_nf}-inst{_ni}]",
             props=["C09"], params={"self": _retort_obj(_nf, _ni)},
             methods={"get_request_handlers": ("TUPLES", 2, 3)},
             post={"covers-full-recipe": f"implies(returned, {covered})", "raises-nothing": "returned",
                   "one-handler": "implies(returned, forall(lambda e: implies(0 <= e and e < len(result), result[e][2] is result[0][2])))"},
             notes=[f"bounded shape: full recipe of {_nf} providers with 2 handler rows each, instance recipe of {_ni}"],
             bounded_ok=True, cover=["returned"])

# ---- the mediator handed to a handler continues the search AFTER that handler ---------------------------------------
MF = "retort/builtin_mediator.py"
MED = ("obj", lambda m: m.BuiltinMediator, {"_request_buses": "sym", "_request": "sym", "_search_offset": "int",
                                              "_no_request_bus_error_maker": "sym", "_call_cache": "dict"})
contract(MF, "BuiltinMediator.provide_from_next", props=["C09"], params={"self": MED},
         methods={"send_chaining": "VAL_OR_RAISE"},
         post={"continues-at-offset": ("implies(returned, result == mcall('send_chaining', lookup(self._request_buses, type(self._request)), "
                                       "self._request, self._search_offset))")},
         cover=["returned"])


# ---- recursion tracking belongs to top-level `send` only: a chained search (`provide_from_next`) must not register or
# resolve recursion stubs, otherwise the stub of a recursive type is bound to the un-chained processor -----------------
RBUS = ("obj", lambda m: m.RecursiveRequestBus, {"_router": "sym", "_error_representor": "sym", "_mediator_factory": "TOTAL",
                                                   "_recursion_resolver": "sym"})
RB_METHODS = {"route_handler": "ROUTE", "get_provider_not_found_description": "VAL",
              "track_request": "VAL", "track_response": "VAL"}
contract(F, "BasicRequestBus.send_chaining", name=f"{F}:RecursiveRequestBus.send_chaining", props=["C09"], frame=False,
         resolve_method=(lambda m: m.RecursiveRequestBus, "send_chaining"),
         params={"self": RBUS, "request": "sym", "search_offset": "int"},
         requires=["search_offset >= 0", f"search_offset <= route_max({R})"],
         methods=RB_METHODS, decl_disciplines={"route_h": "ANY"}, opaque=OPAQUE,
         loops={("_send_inner", 0): LoopSpec(inv=["next_offset >= search_offset", f"next_offset <= route_max({R})"],
                                             decreases=f"route_max({R}) - next_offset")},
         post={"no-recursion-tracking": "mcalls('track_request') == 0 and mcalls('track_response') == 0",
               "answer": POST["answer"]},
         cover=["returned", "raised"])
contract(F, "RecursiveRequestBus.send", props=["C09"], frame=False,
         params={"self": RBUS, "request": "sym"}, requires=[f"0 <= route_max({R})"],
         methods=RB_METHODS, decl_disciplines={"route_h": "ANY"}, opaque=OPAQUE,
         loops={("_send_inner", 0): LoopSpec(inv=["next_offset >= search_offset", f"next_offset <= route_max({R})"],
                                             decreases=f"route_max({R}) - next_offset")},
         post={"stub-or-search": ("implies(returned, ite(mcall('track_request', self._recursion_resolver, request) is None, "
                                  "mcalls('track_response') == 1, result is mcall('track_request', self._recursion_resolver, request) "
                                  "and mcalls('route_handler') == 0))"),
               "tracked-once": "mcalls('track_request') == 1"},
         cover=["returned", "raised"])
