"""C14: the per-function contracts of the coercer providers, plus the creation / refusal obligations of GENPROG-converters (a converter is
produced exactly when every destination field has a source and a coercer under the documented rules)."""
LEVEL_TEXT = ("post-conditions of the as-is / optional coercer providers proved for arbitrary normalised types; refusal exactly when the "
              "linking rules leave a destination field without source or coercer, per program of the converter family")


def extra_checks(tier, seed):
    from genprog.check import extra_for_property
    return [extra_for_property("C14", tier, seed, group="conv")]
