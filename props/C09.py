"""C09: the per-function contracts of the resolution machinery, plus the converter programs with a call history (genprog/conv.py): a
per-call `recipe=` is placed FIRST in resolution order for that call and is not consulted (nor skipped) because of an earlier call."""
LEVEL_TEXT = ("per-function contracts on routers, request bus, chaining, mediator; per-call recipes of converters resolved first and only for "
              "their call (GENPROG converter histories)")


def extra_checks(tier, seed):
    from genprog.check import extra_for_property
    return [extra_for_property("C09", tier, seed, group="conv")]
