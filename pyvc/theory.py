"""Value theory: the uninterpreted sort ``Val`` with observers, class constants and ground `sub` facts.

Python sequences are encoded Boogie-style (length + element function) — see DESIGN.md §2.4.
All facts about *constructed* terms are added by the executor at construction time (local axiom
instantiation), so the only quantified background axioms are the few listed in ``background()``.
"""
from __future__ import annotations

import z3

Val = z3.DeclareSort("Val")
ClsS = z3.DeclareSort("Cls")
I = z3.IntSort()
B = z3.BoolSort()
S = z3.StringSort()

F_cls = z3.Function("cls", Val, ClsS)
F_sub = z3.Function("sub", ClsS, ClsS, B)
F_cell = z3.Function("cell", Val, I)
F_ival = z3.Function("ival", Val, I)
F_bval = z3.Function("bval", Val, B)
F_sval = z3.Function("sval", Val, S)
F_IntV = z3.Function("IntV", I, Val)
F_BoolV = z3.Function("BoolV", B, Val)
F_StrV = z3.Function("StrV", S, Val)
F_ClsObj = z3.Function("ClsObj", ClsS, Val)      # the class object as a value
F_ClsOf = z3.Function("ClsOf", Val, ClsS)        # inverse of ClsObj
F_len = z3.Function("seq_len", Val, I)
F_at = z3.Function("seq_at", Val, I, Val)
F_truth = z3.Function("truthy", Val, B)
F_pyeq = z3.Function("py_eq", Val, Val, B)
F_hashable = z3.Function("hashable", Val, B)
F_ok = z3.Function("ok", Val, Val, B)            # ok(callable, arg): the call returns normally
F_res = z3.Function("res", Val, Val, Val)        # its result
F_err = z3.Function("err", Val, Val, Val)        # the exception it raises otherwise
F_errcls = z3.Function("errcls", Val, Val, ClsS)   # class of the exception callable f raises on x (deterministic)
F_errval = z3.Function("errval", Val, Val, Val)    # its `input_value`
F_raised_by = z3.Function("raised_by", Val, Val)   # observers of an exception object raised by a symbolic callable
F_raised_on = z3.Function("raised_on", Val, Val)
F_oidx = z3.Function("origin_idx", Val, I)         # index of the loop iteration in which an exception object was raised
F_mk = z3.Function("construct", Val, Val, Val)   # construct(factory, element-sequence)
F_mkseq = z3.Function("built_from", Val, Val)     # the element sequence a constructed container was built from
F_lookup = z3.Function("lookup", Val, Val, Val)   # d[k] for a symbolic mapping
F_contains = z3.Function("contains", Val, Val, B)
F_ItemKey = z3.Function("ItemKey", Val, Val)
F_tuple_of = z3.Function("tuple_of", Val, Val)   # tuple(x) as a sequence value
F_keyat = z3.Function("key_at", Val, I, Val)     # mapping views: i-th key / value in iteration order
F_valat = z3.Function("val_at", Val, I, Val)
F_mlen = z3.Function("map_len", Val, I)
F_touch = z3.Function("touch", Val, B)            # always true; only introduces ground terms (E-matching hints)
NoneV = z3.Const("NoneV", Val)
TrueV = F_BoolV(z3.BoolVal(True))
FalseV = F_BoolV(z3.BoolVal(False))

_attr_funcs = {}


def attr_fn(name: str):
    f = _attr_funcs.get(name)
    if f is None:
        f = _attr_funcs[name] = z3.Function("attr_" + name, Val, Val)
    return f


_app_funcs = {}


def app_fn(name: str, arity: int):
    key = (name, arity)
    f = _app_funcs.get(key)
    if f is None:
        f = _app_funcs[key] = z3.Function(f"app_{name}_{arity}", *([Val] * arity), Val)
    return f


class Registry:
    """Python class object -> Cls constant; other opaque python objects -> Val constants."""

    def __init__(self):
        self.classes = {}      # python class -> z3 const
        self.class_list = []
        self.objs = {}         # id(obj) -> (z3 const, obj)
        self.obj_list = []

    def cls(self, pycls):
        c = self.classes.get(pycls)
        if c is None:
            nm = getattr(pycls, "__qualname__", repr(pycls)).replace(" ", "_")
            c = z3.Const(f"K_{nm}_{len(self.class_list)}", ClsS)
            self.classes[pycls] = c
            self.class_list.append(pycls)
        return c

    def obj(self, o):
        e = self.objs.get(id(o))
        if e is None:
            nm = getattr(o, "__qualname__", None) or getattr(o, "__name__", None) or type(o).__name__
            nm = "".join(ch if ch.isalnum() else "_" for ch in str(nm))[:40]
            c = z3.Const(f"O_{nm}_{len(self.obj_list)}", Val)
            e = self.objs[id(o)] = (c, o)
            self.obj_list.append(o)
        return e[0]

    def ground_facts(self, supers=None):
        """Distinctness + the real subclass relation sub(a, b) for every registered class a and every class b that
        occurs as a *second* argument of `sub` (all of them when `supers` is None)."""
        out = []
        cl = self.class_list
        consts = [self.classes[c] for c in cl]
        if len(consts) > 1:
            out.append(z3.Distinct(*consts))
        for a in cl:
            for b in cl:
                if supers is not None and self.classes[b].get_id() not in supers:
                    continue
                try:
                    r = issubclass(a, b)
                except TypeError:
                    r = a is b
                out.append(F_sub(self.classes[a], self.classes[b]) == z3.BoolVal(bool(r)))
        oc = [self.objs[id(o)][0] for o in self.obj_list]
        if len(oc) > 1:
            out.append(z3.Distinct(*oc))
        for o in self.obj_list:
            out.append(F_cls(self.objs[id(o)][0]) == self.cls(type(o)))
        # re-register may have added classes; caller loops until stable
        return out

    def stable_ground_facts(self, supers=None):
        n = -1
        facts = []
        while n != len(self.class_list):
            n = len(self.class_list)
            facts = self.ground_facts(supers)
        return facts


def sub_supers(formulas):
    """ids of the Cls terms used as second argument of `sub` anywhere in the formulas"""
    out, seen, todo = set(), set(), list(formulas)
    while todo:
        x = todo.pop()
        i = x.get_id()
        if i in seen:
            continue
        seen.add(i)
        if z3.is_quantifier(x):
            todo.append(x.body())
            continue
        if z3.is_app(x):
            if x.decl().name() == "sub" and x.num_args() == 2:
                out.add(x.arg(1).get_id())
            todo.extend(x.children())
    return out


def background(reg: Registry):
    """The small fixed set of quantified axioms."""
    x = z3.Const("x!", Val)
    y = z3.Const("y!", Val)
    c = z3.Const("c!", ClsS)
    i = z3.Int("i!")
    b = z3.Bool("b!")
    s = z3.String("s!")
    ax = [
        z3.ForAll([c], F_ClsOf(F_ClsObj(c)) == c, patterns=[F_ClsObj(c)]),
        z3.ForAll([c], F_sub(c, c), patterns=[F_sub(c, c)]),
        z3.ForAll([i], z3.And(F_ival(F_IntV(i)) == i, F_cls(F_IntV(i)) == reg.cls(int)), patterns=[F_IntV(i)]),
        z3.ForAll([b], z3.And(F_bval(F_BoolV(b)) == b, F_cls(F_BoolV(b)) == reg.cls(bool),
                              F_ival(F_BoolV(b)) == z3.If(b, 1, 0), F_truth(F_BoolV(b)) == b), patterns=[F_BoolV(b)]),
        z3.ForAll([s], z3.And(F_sval(F_StrV(s)) == s, F_cls(F_StrV(s)) == reg.cls(str)), patterns=[F_StrV(s)]),
        F_cls(NoneV) == reg.cls(type(None)),
        z3.Not(F_truth(NoneV)),
        z3.ForAll([x], z3.Implies(F_cls(x) == reg.cls(type(None)), x == NoneV), patterns=[F_cls(x)]),
        z3.ForAll([x], z3.Implies(F_cls(x) == reg.cls(bool), x == F_BoolV(F_bval(x))), patterns=[F_cls(x)]),
        z3.ForAll([x], z3.Implies(F_cls(x) == reg.cls(int), x == F_IntV(F_ival(x))), patterns=[F_cls(x)]),
        z3.ForAll([x], F_len(x) >= 0, patterns=[F_len(x)]),
        z3.ForAll([x], F_mlen(x) >= 0, patterns=[F_mlen(x)]),
        z3.ForAll([x], F_pyeq(x, x), patterns=[F_pyeq(x, x)]),   # NaN is handled at cell level, never through py_eq
        z3.ForAll([x, y], F_pyeq(x, y) == F_pyeq(y, x), patterns=[F_pyeq(x, y)]),
    ]
    return ax


def has_quantifier(f):
    todo, seen = [f], set()
    while todo:
        x = todo.pop()
        i = x.get_id()
        if i in seen:
            continue
        seen.add(i)
        if z3.is_quantifier(x):
            return True
        todo.extend(x.children())
    return False
