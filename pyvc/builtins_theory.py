"""Theory handlers for built-ins, operators and attribute access (DESIGN.md §3.2).

The *exception column* of every built-in applied to a datum of D is probed per cell (`Interp.shadow_apply`);
the handlers below add the *value column* for the container / iteration built-ins, i.e. how results relate to
the sequence observers `seq_len` / `seq_at`, and the disciplines of symbolic callables.
"""
from __future__ import annotations

import ast
import builtins
import collections.abc
import operator

import z3

from . import theory as T
from .interp import RAISE, Interp
from .values import HDict, HList, HObj, SeqIter, St, Unsupported, V, const, new_id

HANDLERS = {}


def handler(key):
    def deco(f):
        HANDLERS[key] = f
        return f
    return deco


# ---------------------------------------------------------------------------------------------- disciplines
class Discipline:
    """What is assumed about a symbolic callable (a free variable / parameter that the unit calls)."""

    def __init__(self, name, exc_base=Exception, exc_closed=None, result_in_D=False, pure=True, note=""):
        self.name = name
        self.exc_base = exc_base          # every exception it raises is an instance of this class
        self.exc_closed = exc_closed      # optional finite list of possible exact classes
        self.result_in_D = result_in_D
        self.pure = pure
        self.note = note


def _load_error_classes():
    from adaptix._internal.morphing import load_error as le
    out = []
    for n in dir(le):
        o = getattr(le, n)
        if isinstance(o, type) and issubclass(o, le.LoadError):
            out.append(o)
    return out


def get_discipline(name):
    if name == "LD":
        from adaptix._internal.morphing.load_error import LoadError
        return Discipline("LD", LoadError, None,
                          note="LD: sub-loaders are deterministic, do not mutate their argument and raise only LoadError "
                               "(the property's premise: builtin-only retort; proved for every builtin closure)")
    if name == "DUMP":
        return Discipline("DUMP", Exception, None, note="sub-dumpers are deterministic functions that may raise any Exception")
    if name == "ANY":
        return Discipline("ANY", Exception, None, note="user callable: deterministic, may raise any Exception")
    if name == "FACTORY":
        return Discipline("FACTORY", None, None,
                          note="container factories (the origin class or its ABC_TO_IMPL entry) consume their argument to "
                               "completion, propagate its exceptions and otherwise return a new container holding exactly "
                               "the produced elements (hashability of elements placed in sets is assumed)")
    if name == "TOTAL":
        return Discipline("TOTAL", None, None, note="callable assumed total (never raises) on the values it is given")
    raise KeyError(name)


def set_discipline(interp: Interp, v: V, disc):
    interp.ctx.disciplines[v.t.get_id()] = disc if isinstance(disc, Discipline) else get_discipline(disc)


def arg_term(interp: Interp, st: St, args, kwargs):
    if kwargs:
        names = sorted(kwargs)
        ts = [interp.term(st, a) for a in args] + [interp.term(st, kwargs[n]) for n in names]
        fname = f"args_{len(args)}_kw_" + "_".join("STAR" if n == "**" else n for n in names)
        return z3.Function(fname, *([T.Val] * len(ts)), T.Val)(*ts)
    if len(args) == 1:
        return interp.term(st, args[0])
    ts = [interp.term(st, a) for a in args]
    return z3.Function(f"args_{len(ts)}", *([T.Val] * len(ts)), T.Val)(*ts)


def shaped_rows(interp, name, recv_term, k, arity):
    cache = interp.ctx.__dict__.setdefault("shape_cache", {})
    key = (name, recv_term.get_id())
    if key not in cache:
        rows = []
        for i in range(k):
            rows.append(V("tuple", [V("sym", t=interp.ctx.fresh_val(f"{name}_{i}_{j}")) for j in range(arity)]))
        cache[key] = V("tuple", rows)
    return cache[key]


def call_symmethod(interp, st, f, args, kwargs):
    _, obj, name = f.tag
    kind = interp.method_disciplines[name]
    ts = [interp.term(st, obj)] + [interp.term(st, a) for a in args] + [interp.term(st, kwargs[k]) for k in sorted(kwargs)]
    if kwargs:
        name = name + "_kw_" + "_".join(sorted(kwargs))
    interp.ctx.assume_note(f"method `{name}` of symbolic objects: deterministic and total ({kind})")
    st.calls.append((name, tuple(ts)))
    if kind == "PRED":
        fn = z3.Function(f"mcall_{name}", *([T.Val] * len(ts)), T.B)
        yield st, ("ok", V("bool", fn(*ts)))
        return
    if isinstance(kind, tuple) and kind[0] == "TUPLES":
        # a method returning a sequence of k tuples of the given arity with symbolic components (bounded *shape*)
        yield st, ("ok", shaped_rows(interp, name, ts[0], kind[1], kind[2]))
        return
    if kind == "VAL_OR_RAISE":
        okf = z3.Function(f"mok_{name}", *([T.Val] * len(ts)), T.B)
        fn = z3.Function(f"mcall_{name}", *([T.Val] * len(ts)), T.Val)
        for s, okb in interp.fork_on(st, okf(*ts)):
            if okb:
                yield s, ("ok", V("sym", t=fn(*ts)))
            else:
                e = interp.ctx.fresh_val("merr")
                s.assume(T.F_sub(T.F_cls(e), interp.reg.cls(Exception)))
                yield s, (RAISE, V("sym", t=e))
        return
    if kind == "ROUTE":
        # contract of RequestRouter.route_handler (proved for both router classes in contracts/routers.py):
        # returns (handler, next offset) with offset < next offset <= max offset, or raises StopIteration
        router, _mediator, request, off = ts
        offi = args[2].d if args[2].kind == "int" else T.F_ival(off)
        found = z3.Function("route_found", T.Val, T.Val, T.I, T.B)(router, request, offi)
        rh = z3.Function("route_h", T.Val, T.Val, T.I, T.Val)(router, request, offi)
        ro = z3.Function("route_off", T.Val, T.Val, T.I, T.I)(router, request, offi)
        rmax = z3.Function("route_max", T.Val, T.I)(router)
        for s, fb in interp.fork_on(st, found):
            if fb:
                s.assume(z3.And(ro > offi, ro <= rmax))
                yield s, ("ok", V("tuple", [V("sym", t=rh), V("int", ro)]))
            else:
                yield s, (RAISE, interp.make_exception(s, StopIteration, []))
        return
    fn = z3.Function(f"mcall_{name}", *([T.Val] * len(ts)), T.Val)
    yield st, ("ok", V("sym", t=fn(*ts)))


@handler("$getitem_symbolic")
def getitem_symbolic(interp, st, obj, key):
    if obj.kind == "sym" and key.kind in ("const", "int"):
        kt = z3.IntVal(key.d) if key.kind == "const" and type(key.d) is int else key.d if key.kind == "int" else None
        if kt is not None and getattr(interp, "index_safety", False):
            # index safety is an obligation of this unit: the out-of-range path raises IndexError like CPython does
            ot = interp.term(st, obj)
            ln = T.F_len(ot)
            st.assume(ln >= 0)
            for s, inr in interp.fork_on(st, z3.And(kt >= -ln, kt < ln)):
                if inr:
                    yield s, ("ok", V("sym", t=T.F_at(ot, z3.If(kt < 0, kt + ln, kt))))
                else:
                    yield s, (RAISE, interp.make_exception(s, IndexError, []))
            return
        if kt is not None:
            interp.ctx.assume_note("integer subscripts of symbolic tuples are in range")
            yield st, ("ok", V("sym", t=T.F_at(interp.term(st, obj), kt)))
            return
    if obj.kind == "const" and isinstance(obj.d, dict) and key.kind == "sym" and key.shadow is None:
        # a constant table indexed by a symbolic key: one path per entry (by py_eq), KeyError otherwise
        kt = interp.term(st, key)
        rest = st
        for k, v in obj.d.items():
            s1 = rest.fork()
            s1.assume(T.F_pyeq(kt, interp.const_term(s1, k)))
            if interp.check_sat(s1):
                yield s1, ("ok", const(v))
            rest.assume(z3.Not(T.F_pyeq(kt, interp.const_term(rest, k))))
        if interp.check_sat(rest):
            yield rest, (RAISE, interp.make_exception(rest, KeyError, []))
        return
    if obj.kind == "sym" and obj.shadow is None:
        interp.ctx.assume_note("subscript of a symbolic mapping: total deterministic lookup (KeyError path not modelled)")
        yield st, ("ok", V("sym", t=T.F_lookup(interp.term(st, obj), interp.term(st, key))))
        return
    raise Unsupported(f"subscript {obj!r}[{key!r}]")


@handler("$call_symbolic")
def call_symbolic(interp: Interp, st: St, f: V, args, kwargs):
    if f.tag and f.tag[0] == "symmethod":
        yield from call_symmethod(interp, st, f, args, kwargs)
        return
    ft = interp.term(st, f)
    disc = interp.ctx.disciplines.get(ft.get_id())
    if disc is None and z3.is_app(ft):
        dn = getattr(interp, "decl_disciplines", {}).get(ft.decl().name())
        if dn is not None:
            disc = get_discipline(dn)
    if disc is None:
        raise Unsupported(f"call of symbolic callable {f!r} without a declared discipline")
    interp.ctx.assume_note(disc.note)
    if disc.name == "FACTORY":
        yield from call_factory(interp, st, ft, args, kwargs)
        return
    at = arg_term(interp, st, args, kwargs)
    st.calls.append((ft, at, list(args), dict(kwargs)))
    if disc.exc_base is None:
        st.assume(T.F_ok(ft, at))
        yield st, ("ok", V("sym", t=T.F_res(ft, at)))
        return
    for s, okb in interp.fork_on(st, T.F_ok(ft, at)):
        if okb:
            yield s, ("ok", V("sym", t=T.F_res(ft, at)))
        else:
            # a *new* exception object per call (exceptions are mutated by append_trail, so identity matters);
            # what is deterministic is its class and the input value it reports
            e = interp.ctx.fresh_val("err")
            for prev in s.assumed:          # a new object: different from every exception object raised before
                s.assume(e != prev)
            s.assumed.append(e)
            s.assume(T.F_cls(e) == T.F_errcls(ft, at))
            for anc in disc.exc_base.__mro__:       # upward closure of the subclass relation, instantiated locally
                s.assume(T.F_sub(T.F_cls(e), interp.reg.cls(anc)))
            if interp.loop_index:
                s.assume(T.F_oidx(e) == interp.loop_index[-1])     # ghost: which iteration raised it (e is fresh)
            s.assume(T.F_raised_by(e) == ft)
            s.assume(T.F_raised_on(e) == at)
            s.assume(T.attr_fn("input_value")(e) == T.F_errval(ft, at))
            # a newly allocated object is not an element of any list that already exists
            mq = z3.Int("mq!")
            for h_ in s.heap.values():
                if isinstance(h_, HList) and h_.items is None:
                    s.assume(z3.ForAll([mq], z3.Implies(z3.And(mq >= 0, mq < h_.ln), z3.Select(h_.arr, mq) != e),
                                       patterns=[z3.Select(h_.arr, mq)]))
            interp.ensure_trails(s)
            # brand new to this activation: nothing has been appended to its trail here
            s.assume(z3.Select(s.trail_len, e) == z3.Select(interp.trail0[0], e))
            s.assume(z3.Select(s.trail_arr, e) == z3.Select(interp.trail0[1], e))
            yield s, (RAISE, V("sym", t=e, tag=("err_of", ft, at)))


def call_factory(interp, st, ft, args, kwargs):
    if len(args) != 1 or kwargs:
        raise Unsupported("container factory with several arguments")
    for s, r in consume(interp, st, args[0]):
        if r[0] != "ok":
            yield s, r
            continue
        sv = r[1]
        seqt = interp.term(s, V("tuple", list(sv[1]))) if sv[0] == "items" else sv[1]
        t = T.F_mk(ft, seqt)
        s.assume(T.F_mkseq(t) == seqt)
        v = V("sym", t=t)
        v.tag = ("fresh_container",)
        yield s, ("ok", v)


# ---------------------------------------------------------------------------------------------- attributes
_LIST_METHODS = {"add", "append", "extend", "pop", "insert", "clear", "sort", "remove", "reverse", "copy", "index", "count"}
_DICT_METHODS = {"get", "items", "keys", "values", "pop", "update", "setdefault", "clear", "copy"}


@handler("$getattr")
def getattr_(interp: Interp, st: St, obj: V, name: str):
    k = obj.kind
    if k == "const":
        try:
            yield st, ("ok", const(getattr(obj.d, name)))
        except AttributeError as e:
            yield st, (RAISE, interp.exc_from_instance(st, e))
        return
    if obj.tag and obj.tag[0] == "super":
        _, selfv, cls = obj.tag
        import types as _types
        mro = type.mro(st.heap[selfv.d].cls)
        after = mro[mro.index(cls) + 1:] if cls in mro else []
        for k_ in after:
            if name in k_.__dict__:
                static = k_.__dict__[name]
                if isinstance(static, _types.FunctionType):
                    b = V("bound", (selfv, name))
                    b.tag = ("super_fn", static)
                    yield st, ("ok", b)
                    return
                raise Unsupported(f"super().{name} is not a plain method")
        yield st, (RAISE, interp.make_exception(st, AttributeError, []))
        return
    if k == "ref":
        h = st.heap[obj.d]
        if isinstance(h, HObj):
            if name in h.attrs:
                yield st, ("ok", h.attrs[name])
                return
            if hasattr(h.cls, name):
                import inspect as _inspect
                import types as _types
                static = _inspect.getattr_static(h.cls, name)
                if isinstance(static, _types.FunctionType):
                    yield st, ("ok", V("bound", (obj, name)))
                    return
                if not isinstance(static, (property, staticmethod, classmethod)) and not hasattr(static, "__get__"):
                    yield st, ("ok", const(static))
                    return
                raise Unsupported(f"class attribute {name} on heap instance")
            yield st, (RAISE, interp.make_exception(st, AttributeError, []))
            return
        if isinstance(h, HList) and name in _LIST_METHODS or isinstance(h, HDict) and name in _DICT_METHODS:
            yield st, ("ok", V("bound", (obj, name)))
            return
        yield st, (RAISE, interp.make_exception(st, AttributeError, []))
        return
    if k == "tuple":
        if name in ("index", "count"):
            yield st, ("ok", V("bound", (obj, name)))
        else:
            yield st, (RAISE, interp.make_exception(st, AttributeError, []))
        return
    if obj.shadow is not None and obj.root is not None:
        for s, r in interp.shadow_apply(st, getattr, [obj, const(name)], name=f"getattr_{name}"):
            if r[0] == "ok" and r[1].kind != "const":
                r[1].tag = ("method", obj, name)
            yield s, r
        return
    if obj.tag and obj.tag[0] == "setof" and name in ("issubset",):
        yield st, ("ok", V("bound", (obj, name)))
        return
    if obj.tag and obj.tag[0] == "exc_fields" and name in obj.tag[1]:
        yield st, ("ok", obj.tag[1][name])
        return
    if obj.tag and obj.tag[0] == "attrs" and name in obj.tag[1]:
        yield st, ("ok", obj.tag[1][name])
        return
    if k in ("sym",) and name in interp.method_disciplines:
        v = V("sym", t=interp.ctx.fresh_val("meth_" + name))
        v.tag = ("symmethod", obj, name)
        yield st, ("ok", v)
        return
    if k in ("sym",):
        t = interp.term(st, obj)
        h = HANDLERS.get(("$symattr", name))
        if h is not None:
            yield from h(interp, st, obj)
            return
        yield st, ("ok", V("sym", t=T.attr_fn(name)(t)))
        return
    raise Unsupported(f"getattr {name} on {obj!r}")


@handler("$setattr")
def setattr_(interp: Interp, st: St, obj: V, name, val: V):
    if obj.kind == "ref":
        h = st.heap[obj.d]
        if isinstance(h, HObj):
            if not h.fresh:
                st.mods.append(("setattr", name))
            h.attrs[name] = val
            yield st, None
            return
    raise Unsupported(f"attribute store .{name} on {obj!r}")


# ---------------------------------------------------------------------------------------------- items
@handler("$setitem")
def setitem(interp: Interp, st: St, obj: V, key: V, val: V):
    if obj.kind == "ref":
        h = st.heap[obj.d]
        if isinstance(h, HDict):
            if not h.fresh:
                st.mods.append(("setitem", "dict"))
            yield from dict_store(interp, st, h, key, val)
            return
        if isinstance(h, HList) and h.items is not None and key.kind == "const":
            try:
                h.items[key.d] = val
                yield st, None
            except IndexError as e:
                yield st, (RAISE, interp.exc_from_instance(st, e))
            return
    st.mods.append(("setitem", repr(obj)))
    raise Unsupported(f"item store on {obj!r}")


def dict_store(interp, st, h: HDict, key: V, val: V):
    """result[k] = v  (hashability of keys produced by sub-loaders is an assumption, see C02 notes)"""
    if h.pairs is not None:
        if key.kind == "const":
            for i, (kk, _) in enumerate(h.pairs):
                if kk.kind == "const" and kk.d == key.d and type(kk.d) is type(key.d):
                    h.pairs[i] = (kk, val)
                    yield st, None
                    return
            if all(kk.kind == "const" for kk, _ in h.pairs):
                h.pairs.append((key, val))
                yield st, None
                return
        if not h.pairs:
            h.pairs.append((key, val))
            yield st, None
            return
        to_symbolic_dict(interp, st, h)
    kt = interp.key_term(st, key)
    vt = interp.term(st, val)
    interp.ctx.assume_note("keys stored into a dict built by adaptix are hashable")
    present = z3.Select(h.has, kt)
    h.karr = z3.If(present, h.karr, z3.Store(h.karr, h.kn, kt))
    h.kn = z3.If(present, h.kn, h.kn + 1)
    h.vals = z3.Store(h.vals, kt, vt)
    h.has = z3.Store(h.has, kt, z3.BoolVal(True))
    yield st, None


def to_symbolic_dict(interp, st, h: HDict):
    karr = z3.K(T.I, T.NoneV)
    vals = z3.K(T.Val, T.NoneV)
    has = z3.K(T.Val, z3.BoolVal(False))
    n = 0
    for kk, vv in h.pairs:
        kt = interp.term(st, kk)
        karr = z3.Store(karr, n, kt)
        vals = z3.Store(vals, kt, interp.term(st, vv))
        has = z3.Store(has, kt, z3.BoolVal(True))
        n += 1
    h.pairs = None
    h.kn, h.karr, h.vals, h.has = z3.IntVal(n), karr, vals, has


@handler("$getitem")
def getitem(interp: Interp, st: St, obj: V, key: V):
    if obj.kind == "const" and key.kind == "const":
        try:
            yield st, ("ok", const(obj.d[key.d]))
        except Exception as e:  # noqa: BLE001
            yield st, (RAISE, interp.exc_from_instance(st, e))
        return
    if obj.kind == "tuple" and key.kind == "const" and isinstance(key.d, int):
        try:
            yield st, ("ok", obj.d[key.d])
        except IndexError as e:
            yield st, (RAISE, interp.exc_from_instance(st, e))
        return
    if obj.kind == "ref":
        h = st.heap[obj.d]
        if isinstance(h, HList):
            if h.items is not None and key.kind == "const":
                try:
                    yield st, ("ok", h.items[key.d])
                except IndexError as e:
                    yield st, (RAISE, interp.exc_from_instance(st, e))
                return
            if key.kind in ("int", "const"):
                to_symbolic_list(interp, st, h)
                kt = key.d if key.kind == "int" else z3.IntVal(key.d)
                for s, inb in interp.fork_on(st, z3.And(kt >= 0, kt < h.ln)):
                    if inb:
                        yield s, ("ok", V("sym", t=z3.Select(s.heap[obj.d].arr, kt)))
                    else:
                        raise Unsupported("possibly out-of-range / negative index on heap list")
                return
        shadowed_key = key.shadow is not None and key.root is not None and frozen_const(interp, st, obj) is not None
        if isinstance(h, HDict) and not shadowed_key and (
                h.pairs is None or key.kind != "const" or not all(kk.kind == "const" for kk, _ in h.pairs)):
            if h.pairs is not None:
                to_symbolic_dict(interp, st, h)
            kt = interp.key_term(st, key)
            interp.ctx.assume_note("keys looked up in a dict are hashable")
            for s, hb in interp.fork_on(st, z3.Select(h.has, kt)):
                if hb:
                    yield s, ("ok", V("sym", t=z3.Select(s.heap[obj.d].vals, kt)))
                else:
                    yield s, (RAISE, interp.make_exception(s, KeyError, []))
            return
        if isinstance(h, HDict) and h.pairs is not None and key.kind == "const":
            for kk, vv in h.pairs:
                if kk.kind == "const" and kk.d == key.d:
                    yield st, ("ok", vv)
                    return
            if all(kk.kind == "const" for kk, _ in h.pairs):
                yield st, (RAISE, interp.make_exception(st, KeyError, [key]))
                return
    allv = [obj, key]
    if all(interp.is_concrete_like(a) for a in allv) and interp.common_root(allv) not in (False,):
        yield from interp.shadow_apply(st, operator.getitem, allv, name="getitem")
        return
    if key.shadow is not None and key.root is not None:
        fo = frozen_const(interp, st, obj)
        if fo is not None:
            yield from interp.shadow_apply(st, operator.getitem, [const(fo), key], name="getitem")
            return
    h = HANDLERS.get("$getitem_symbolic")
    if h is not None:
        yield from h(interp, st, obj, key)
        return
    raise Unsupported(f"subscript {obj!r}[{key!r}]")


@handler("$getslice")
def getslice(interp, st, obj, sl):
    if obj.kind == "const" and all(x is None or x.kind == "const" for x in sl):
        yield st, ("ok", const(obj.d[slice(*[None if x is None else x.d for x in sl])]))
        return
    if obj.kind == "tuple" and all(x is None or x.kind == "const" for x in sl):
        yield st, ("ok", V("tuple", obj.d[slice(*[None if x is None else x.d for x in sl])]))
        return
    if obj.shadow is not None and obj.root is not None and all(x is None or (x.kind == "const" and x.shadow is None) for x in sl):
        # a datum of D sliced with constant bounds: probed per live cell like every other built-in operation
        slc = slice(*[None if x is None else x.d for x in sl])
        yield from interp.shadow_apply(st, lambda o, slc=slc: o[slc], [obj], name=f"getslice_{slc.start}_{slc.stop}_{slc.step}")
        return
    raise Unsupported("slice of symbolic value")


def to_symbolic_list(interp, st, h: HList):
    if h.items is None:
        return
    arr = z3.K(T.I, T.NoneV)
    for i, it in enumerate(h.items):
        arr = z3.Store(arr, i, interp.term(st, it))
    h.ln = z3.IntVal(len(h.items))
    h.arr = arr
    h.items = None


# ---------------------------------------------------------------------------------------------- methods
@handler(("$method", "append"))
def m_append(interp, st, selfv, args, kwargs):
    h = st.heap[selfv.d]
    if not h.fresh:
        st.mods.append(("append", repr(selfv)))
    interp.list_append(st, selfv.d, args[0])
    yield st, ("ok", const(None))


@handler(("$method", "add"))
def m_add(interp, st, selfv, args, kwargs):
    """set.add on a heap set (kept as the list of added elements; membership is by py_eq)"""
    interp.ctx.assume_note("elements added to a set are hashable and hash-consistent with ==")
    interp.list_append(st, selfv.d, args[0])
    yield st, ("ok", const(None))


@handler(("$method", "issubset"))
def m_issubset(interp, st, selfv, args, kwargs):
    other = args[0]
    if not (selfv.tag and selfv.tag[0] == "setof" and other.tag and other.tag[0] == "setof"):
        raise Unsupported("issubset on unmodelled sets")
    a, b = selfv.tag[1], other.tag[1]
    i, j = z3.Int("si!"), z3.Int("sj2!")
    interp.ctx.assume_note("set membership / subset is by py_eq (hash consistent with ==)")
    e = z3.ForAll([i], z3.Implies(z3.And(i >= 0, i < T.F_len(a)),
                                  z3.Exists([j], z3.And(j >= 0, j < T.F_len(b), T.F_pyeq(T.F_at(a, i), T.F_at(b, j))))),
                  patterns=[T.F_at(a, i)])
    yield st, ("ok", V("bool", e))


@handler(("$method", "extend"))
def m_extend(interp, st, selfv, args, kwargs):
    h = st.heap[selfv.d]
    if not h.fresh:
        st.mods.append(("extend", repr(selfv)))
    x = args[0]
    if x.kind == "sym" and x.shadow is None and isinstance(h, HList) and h.items is None:
        # extend of a symbolic list by a symbolic sequence of unknown length: the new content is the old one followed by the
        # elements of the argument (the argument is assumed to be a sized sequence: tuple / list)
        xt = interp.term(st, x)
        n = T.F_len(xt)
        st.assume(n >= 0)
        old_arr, old_ln = h.arr, h.ln
        interp.ctx.fresh += 1
        new_arr = z3.Array(f"ext!{interp.ctx.fresh}", z3.IntSort(), T.Val)
        j = z3.Int("j_ext")
        st.assume(z3.ForAll([j], z3.Select(new_arr, j) == z3.If(j < old_ln, z3.Select(old_arr, j), T.F_at(xt, j - old_ln)),
                            patterns=[z3.Select(new_arr, j)]))
        h.arr = new_arr
        h.ln = old_ln + n
        interp.ctx.assume_note("list.extend(xs) with a symbolic xs: xs is a sized sequence (tuple / list) whose iteration yields xs[0..len)")
        yield st, ("ok", const(None))
        return
    for s, r in iterate_concrete(interp, st, args[0]):
        if r[0] != "ok":
            yield s, r
            continue
        for it in r[1]:
            interp.list_append(s, selfv.d, it)
        yield s, ("ok", const(None))


@handler(("$method", "items"))
def m_items(interp, st, selfv, args, kwargs):
    h = st.heap[selfv.d]
    if isinstance(h, HDict) and h.pairs is not None:
        yield st, ("ok", V("tuple", [V("tuple", [k, vv]) for k, vv in h.pairs]))
        return
    v = V("sym", t=interp.ctx.fresh_val("items"))
    v.tag = ("hdict_items", selfv.d)
    yield st, ("ok", v)


@handler(("$method", "keys"))
def m_keys(interp, st, selfv, args, kwargs):
    h = st.heap[selfv.d]
    if isinstance(h, HDict) and h.pairs is not None:
        yield st, ("ok", V("tuple", [k for k, _ in h.pairs]))
        return
    raise Unsupported("keys() of a symbolic dict")


@handler(("$method", "values"))
def m_values(interp, st, selfv, args, kwargs):
    h = st.heap[selfv.d]
    if isinstance(h, HDict) and h.pairs is not None:
        yield st, ("ok", V("tuple", [vv for _, vv in h.pairs]))
        return
    raise Unsupported("values() of a symbolic dict")


def frozen_const(interp, st, v: V):
    """python object for a heap list/dict whose content is entirely constant (used with per-cell shadows)"""
    if v.kind == "const" and v.shadow is None:
        return v.d
    if v.kind == "tuple" and all(x.kind == "const" and x.shadow is None for x in v.d):
        return tuple(x.d for x in v.d)
    if v.kind == "ref":
        h = st.heap[v.d]
        if isinstance(h, HDict) and h.pairs is not None and all(
                k.kind == "const" and k.shadow is None and vv.kind == "const" and vv.shadow is None for k, vv in h.pairs):
            try:
                return {k.d: vv.d for k, vv in h.pairs}
            except TypeError:
                return None
        if isinstance(h, HList) and h.items is not None and all(x.kind == "const" and x.shadow is None for x in h.items):
            return [x.d for x in h.items]
    return None


@handler(("$method", "get"))
def m_get(interp, st, selfv, args, kwargs):
    h = st.heap[selfv.d]
    default = args[1] if len(args) > 1 else const(None)
    if isinstance(h, HDict) and h.pairs is None:
        kt = interp.key_term(st, args[0])
        yield st, ("ok", V("sym", t=z3.If(z3.Select(h.has, kt), z3.Select(h.vals, kt), interp.term(st, default))))
        return
    if isinstance(h, HDict) and h.pairs is not None and args[0].kind == "const" and \
            all(kk.kind == "const" for kk, _ in h.pairs):
        for kk, vv in h.pairs:
            if kk.d == args[0].d:
                yield st, ("ok", vv)
                return
        yield st, ("ok", default)
        return
    raise Unsupported("dict.get on symbolic dict")


def _finite_const(o):
    from .loops import is_finite_const_iterable
    return is_finite_const_iterable(o)


def iterate_concrete(interp, st, v: V):
    """yield (st, ('ok', [V...])) for iterables of statically known length."""
    if v.kind == "tuple":
        yield st, ("ok", list(v.d))
    elif v.kind == "const" and _finite_const(v.d):
        yield st, ("ok", [const(x) for x in v.d])
    elif v.kind == "ref" and isinstance(st.heap[v.d], HList) and st.heap[v.d].items is not None:
        yield st, ("ok", list(st.heap[v.d].items))
    elif v.kind == "gen":
        for s, r in v.d(st):
            if r[0] != "ok":
                yield s, r
            elif isinstance(r[1], tuple):
                if r[1][0] != "items":
                    raise Unsupported("iteration of statically unknown length over a producer")
                yield s, ("ok", list(r[1][1]))
            else:
                yield from iterate_concrete(interp, s, r[1])
    else:
        raise Unsupported(f"iteration of statically unknown length over {v!r}")


@handler("$unpack")
def unpack_symbolic(interp, st, v: V, n):
    if v.tag and v.tag[0] == "hdict_items":
        h = st.heap[v.tag[1]]
        if h.pairs is not None:
            if len(h.pairs) != n:
                yield st, (RAISE, interp.make_exception(st, ValueError, []))
            else:
                yield st, ("ok", [V("tuple", [k, vv]) for k, vv in h.pairs])
            return
        for s, eq in interp.fork_on(st, h.kn == n):
            if not eq:
                yield s, (RAISE, interp.make_exception(s, ValueError, []))
                continue
            hh = s.heap[v.tag[1]]
            out = []
            for i in range(n):
                kt = z3.Select(hh.karr, i)
                out.append(V("tuple", [V("sym", t=kt), V("sym", t=z3.Select(hh.vals, kt))]))
            yield s, ("ok", out)
        return
    if v.kind == "sym" and v.shadow is None:
        # a symbolic pair / tuple value: component observers
        t = interp.term(st, v)
        interp.ctx.assume_note("a symbolic value that the code destructures is a tuple of the expected length")
        st.assume(T.F_cls(t) == interp.reg.cls(tuple))
        st.assume(T.F_len(t) == n)
        yield st, ("ok", [V("sym", t=T.F_at(t, i)) for i in range(n)])
        return
    raise Unsupported(f"unpack of {v!r}")


# ---------------------------------------------------------------------------------------------- comparison
_CMP = {ast.Eq: operator.eq, ast.NotEq: operator.ne, ast.Lt: operator.lt, ast.LtE: operator.le,
        ast.Gt: operator.gt, ast.GtE: operator.ge, ast.Is: operator.is_, ast.IsNot: operator.is_not,
        ast.In: lambda a, b: a in b, ast.NotIn: lambda a, b: a not in b}


def _as_int(v: V):
    if v.kind == "int":
        return v.d
    if v.kind == "const" and type(v.d) is int:
        return z3.IntVal(v.d)
    return None


def _cls_of(interp, v: V):
    """Cls-sort term if v denotes a class object."""
    if v.kind == "type":
        return v.d
    if v.kind == "const" and isinstance(v.d, type):
        return interp.reg.cls(v.d)
    return None


@handler("$compare")
def compare(interp: Interp, st: St, op, a: V, b: V):
    ot = type(op)
    fn = _CMP[ot]
    if a.kind == "const" and b.kind == "const" and a.shadow is None and b.shadow is None:
        try:
            yield st, ("ok", const(fn(a.d, b.d)))
        except Exception as e:  # noqa: BLE001
            yield st, (RAISE, interp.exc_from_instance(st, e))
        return
    # class-object comparisons
    ca, cb = _cls_of(interp, a), _cls_of(interp, b)
    if ca is not None and cb is not None and ot in (ast.Is, ast.IsNot, ast.Eq, ast.NotEq):
        e = ca == cb
        yield st, ("ok", V("bool", e if ot in (ast.Is, ast.Eq) else z3.Not(e)))
        return
    if ca is not None and ot in (ast.In, ast.NotIn):
        elems = None
        if b.kind == "const" and isinstance(b.d, (tuple, list, frozenset, set)) and all(isinstance(x, type) for x in b.d):
            elems = [interp.reg.cls(x) for x in b.d]
        elif b.kind == "tuple" and all(_cls_of(interp, x) is not None for x in b.d):
            elems = [_cls_of(interp, x) for x in b.d]
        if elems is not None:
            e = z3.Or(*[ca == x for x in elems]) if elems else z3.BoolVal(False)
            yield st, ("ok", V("bool", e if ot is ast.In else z3.Not(e)))
            return
    # shadows
    if interp.is_concrete_like(a) and interp.is_concrete_like(b) and interp.common_root([a, b]) is not False:
        yield from interp.shadow_apply(st, fn, [a, b], name="cmp_" + ot.__name__)
        return
    ia, ib = _as_int(a), _as_int(b)
    if ia is not None and ib is not None and ot not in (ast.In, ast.NotIn):
        z = {ast.Eq: ia == ib, ast.NotEq: ia != ib, ast.Lt: ia < ib, ast.LtE: ia <= ib, ast.Gt: ia > ib,
             ast.GtE: ia >= ib, ast.Is: ia == ib, ast.IsNot: ia != ib}[ot]
        yield st, ("ok", V("bool", z))
        return
    if ot in (ast.Is, ast.IsNot):
        if a.kind in ("ref", "fn") or b.kind in ("ref", "fn"):
            same = a.kind == b.kind and a.d == b.d
            yield st, ("ok", const(same if ot is ast.Is else not same))
            return
        e = interp.term(st, a) == interp.term(st, b)
        yield st, ("ok", V("bool", e if ot is ast.Is else z3.Not(e)))
        return
    if ot in (ast.Eq, ast.NotEq):
        if a.kind == "bool" and b.kind == "bool":
            e = a.d == b.d
        else:
            e = T.F_pyeq(interp.term(st, a), interp.term(st, b))
            interp.ctx.assume_note("`==` between symbolic values is the uninterpreted reflexive-symmetric relation py_eq")
        yield st, ("ok", V("bool", e if ot is ast.Eq else z3.Not(e)))
        return
    if ot in (ast.In, ast.NotIn):
        yield from contains(interp, st, a, b, negate=(ot is ast.NotIn))
        return
    raise Unsupported(f"comparison {ot.__name__} between {a!r} and {b!r}")


def contains(interp: Interp, st: St, x: V, coll: V, negate=False):
    """x in coll"""
    def out(s, e):
        return s, ("ok", V("bool", z3.Not(e) if negate else e))
    if x.kind == "const" and x.shadow is None and coll.kind != "const":
        fo = frozen_const(interp, st, coll)
        if fo is not None:
            try:
                r = x.d in fo
            except Exception as e:  # noqa: BLE001
                yield st, (RAISE, interp.exc_from_instance(st, e))
                return
            yield st, ("ok", const((not r) if negate else r))
            return
    if x.shadow is not None and x.root is not None and coll.kind != "const":
        fo = frozen_const(interp, st, coll)
        if fo is not None:
            fn = (lambda a, b: a not in b) if negate else (lambda a, b: a in b)
            yield from interp.shadow_apply(st, fn, [x, const(fo)], name="contains")
            return
    if coll.kind == "tuple" or (coll.kind == "const" and isinstance(coll.d, (tuple, list, set, frozenset, dict))):
        items = coll.d if coll.kind == "tuple" else [const(i) for i in coll.d]
        if coll.kind == "const" and isinstance(coll.d, (set, frozenset)):
            interp.ctx.assume_note("membership of a sub-loader's result in a constant set assumes the result is hashable")
        xt = interp.term(st, x)
        e = z3.Or(*[T.F_pyeq(xt, interp.term(st, it)) for it in items]) if items else z3.BoolVal(False)
        yield out(st, e)
        return
    if coll.kind == "ref":
        h = st.heap[coll.d]
        if isinstance(h, HDict):
            if h.pairs is not None:
                if x.kind == "const" and all(kk.kind == "const" for kk, _ in h.pairs):
                    r = any(kk.d == x.d for kk, _ in h.pairs)
                    yield st, ("ok", const((not r) if negate else r))
                    return
                if not h.pairs:
                    yield st, ("ok", const(bool(negate)))
                    return
                to_symbolic_dict(interp, st, h)
            yield out(st, z3.Select(h.has, interp.key_term(st, x)))
            return
        if isinstance(h, HList) and h.items is not None:
            xt = interp.term(st, x)
            e = z3.Or(*[T.F_pyeq(xt, interp.term(st, it)) for it in h.items]) if h.items else z3.BoolVal(False)
            yield out(st, e)
            return
        if isinstance(h, HList):
            xt = interp.term(st, x)
            mk = z3.Int("mk!")
            e = z3.Exists([mk], z3.And(mk >= 0, mk < h.ln, T.F_pyeq(xt, z3.Select(h.arr, mk))))
            yield out(st, e)
            return
    # symbolic collection: membership is the uninterpreted `contains`; an unhashable x in a hashed collection raises
    ct = interp.term(st, coll)
    xt = interp.term(st, x)
    hashed = z3.Or(T.F_sub(T.F_cls(ct), interp.reg.cls(set)), T.F_sub(T.F_cls(ct), interp.reg.cls(frozenset)),
                   T.F_sub(T.F_cls(ct), interp.reg.cls(dict)))
    if x.shadow is not None and x.root is not None:
        def hashable(o):
            try:
                hash(o)
                return True
            except TypeError:
                return False
        for s, hb in interp.partition(st, x, hashable):
            if hb:
                yield out(s, T.F_contains(ct, xt))
            else:
                for s2, is_hashed in interp.fork_on(s, hashed):
                    if is_hashed:
                        yield s2, (RAISE, interp.make_exception(s2, TypeError, []))
                    else:
                        yield out(s2, T.F_contains(ct, xt))
        return
    interp.ctx.assume_note("membership test on a value not known to be in D assumes it is hashable")
    yield out(st, T.F_contains(ct, xt))


_BIN = {ast.Add: operator.add, ast.Sub: operator.sub, ast.Mult: operator.mul, ast.Mod: operator.mod,
        ast.Pow: operator.pow, ast.FloorDiv: operator.floordiv, ast.Div: operator.truediv,
        ast.BitOr: operator.or_, ast.BitAnd: operator.and_, ast.BitXor: operator.xor,
        ast.LShift: operator.lshift, ast.RShift: operator.rshift}


def _as_bool(v: V):
    if v.kind == "bool":
        return v.d
    if v.kind == "const" and type(v.d) is bool and v.shadow is None:
        return z3.BoolVal(v.d)
    return None


_OP_FUNCS = {operator.or_: ast.BitOr, operator.and_: ast.BitAnd, operator.xor: ast.BitXor, operator.add: ast.Add,
             operator.sub: ast.Sub, operator.mul: ast.Mult}


def _op_func_handler(node_cls):
    def h(interp, st, args, kwargs):
        if len(args) != 2 or kwargs:
            raise Unsupported("operator function arity")
        yield from binop(interp, st, node_cls(), args[0], args[1])
    return h


for _f, _n in _OP_FUNCS.items():
    HANDLERS[_f] = _op_func_handler(_n)


import functools as _functools


@handler(_functools.reduce)
def b_reduce(interp, st, args, kwargs):
    """reduce(f, xs[, init]) over an iterable of statically known length"""
    f, xs = args[0], args[1]
    for s, r in iterate_concrete(interp, st, xs):
        if r[0] != "ok":
            yield s, r
            continue
        items = list(r[1])
        if len(args) > 2:
            items = [args[2]] + items
        if not items:
            yield s, (RAISE, interp.make_exception(s, TypeError, []))
            continue

        def go(i, s2, acc):
            if i == len(items):
                yield s2, ("ok", acc)
                return
            for s3, r3 in interp.call(s2, f, [acc, items[i]], {}):
                if r3[0] != "ok":
                    yield s3, r3
                else:
                    yield from go(i + 1, s3, r3[1])
        yield from go(1, s, items[0])


@handler("$binop")
def binop(interp: Interp, st: St, op, a: V, b: V):
    ot = type(op)
    fn = _BIN.get(ot)
    if fn is None:
        raise Unsupported(f"binary operator {ot.__name__}")
    if interp.is_concrete_like(a) and interp.is_concrete_like(b) and interp.common_root([a, b]) is not False:
        yield from interp.shadow_apply(st, fn, [a, b], name="op_" + ot.__name__)
        return
    if a.kind == "ref" and isinstance(st.heap[a.d], HObj):
        # operator overloading of a repo class: a.__op__(b), inlined from the real source
        dunder = {ast.BitOr: "__or__", ast.BitAnd: "__and__", ast.BitXor: "__xor__", ast.Add: "__add__", ast.Sub: "__sub__"}.get(ot)
        meth = getattr(st.heap[a.d].cls, dunder, None) if dunder else None
        rc = interp.resolve_repo_callable(meth) if meth is not None else None
        if rc is None:
            raise Unsupported(f"binary operator {ot.__name__} on an instance of {st.heap[a.d].cls.__name__}")
        for s, r in interp.call_closure(st, rc[0], [a, b], {}):
            if r[0] == "ok" and r[1].kind == "const" and r[1].d is NotImplemented:
                raise Unsupported("reflected operator dispatch")
            yield s, r
        return
    ba, bb = _as_bool(a), _as_bool(b)
    if ba is not None and bb is not None and ot in (ast.BitOr, ast.BitAnd, ast.BitXor):
        # bool & bool, bool | bool, bool ^ bool are the boolean operations (and return bool)
        yield st, ("ok", V("bool", z3.simplify({ast.BitOr: z3.Or(ba, bb), ast.BitAnd: z3.And(ba, bb), ast.BitXor: z3.Xor(ba, bb)}[ot])))
        return
    ia, ib = _as_int(a), _as_int(b)
    if ia is not None and ib is not None and ot in (ast.Add, ast.Sub, ast.Mult):
        yield st, ("ok", V("int", {ast.Add: ia + ib, ast.Sub: ia - ib, ast.Mult: ia * ib}[ot]))
        return
    h = HANDLERS.get("$binop_symbolic")
    if h is not None:
        yield from h(interp, st, op, a, b)
        return
    raise Unsupported(f"binary operator {ot.__name__} on {a!r}, {b!r}")


# ---------------------------------------------------------------------------------------------- builtins
@handler(builtins.type)
def b_type(interp, st, args, kwargs):
    (x,) = args
    if x.kind == "const":
        yield st, ("ok", const(type(x.d)))
    elif x.kind == "int":
        yield st, ("ok", const(int))
    elif x.kind == "bool":
        yield st, ("ok", const(bool))
    elif x.kind == "tuple":
        yield st, ("ok", const(tuple))
    elif x.kind == "ref":
        h = st.heap[x.d]
        yield st, ("ok", const(list if isinstance(h, HList) else dict if isinstance(h, HDict) else h.cls))
    elif x.ty is not None and x.shadow is None:
        yield st, ("ok", const(x.ty))
    elif x.shadow is not None and x.root is not None:
        for s, r in interp.shadow_apply(st, type, [x], name="type"):
            if r[0] == "ok":
                # whatever the probe returned per cell, it IS the class object of x
                s.assume(interp.term(s, r[1]) == T.F_ClsObj(T.F_cls(interp.term(s, x))))
            yield s, r
    else:
        yield st, ("ok", V("type", T.F_cls(interp.term(st, x))))


@handler(builtins.isinstance)
def b_isinstance(interp, st, args, kwargs):
    x, c = args
    if c.kind == "const":
        classes = c.d if isinstance(c.d, tuple) else (c.d,)
    elif c.kind == "tuple" and all(i.kind == "const" for i in c.d):
        classes = tuple(i.d for i in c.d)
    else:
        raise Unsupported("isinstance with symbolic class")
    if x.kind == "const":
        yield st, ("ok", const(isinstance(x.d, classes)))
        return
    static = {"int": int, "bool": bool, "tuple": tuple}.get(x.kind)
    if x.kind == "ref":
        h = st.heap[x.d]
        static = list if isinstance(h, HList) else dict if isinstance(h, HDict) else h.cls
    if static is None and x.ty is not None and x.shadow is None:
        static = x.ty
    if static is not None:
        yield st, ("ok", const(issubclass(static, classes)))
        return
    if x.kind in ("fn", "bound"):
        yield st, ("ok", const(any(issubclass(type(lambda: 0), k) for k in classes)))
        return
    if x.shadow is not None and x.root is not None:
        yield from interp.shadow_apply(st, isinstance, [x, const(classes)], name="isinstance")
        return
    t = interp.term(st, x)
    e = z3.Or(*[T.F_sub(T.F_cls(t), interp.reg.cls(k)) for k in classes])
    yield st, ("ok", V("bool", e))


@handler(builtins.callable)
def b_callable(interp, st, args, kwargs):
    (x,) = args
    if x.kind == "const":
        yield st, ("ok", const(callable(x.d)))
    elif x.kind in ("fn", "bound"):
        yield st, ("ok", const(True))
    elif x.shadow is not None and x.root is not None:
        yield from interp.shadow_apply(st, callable, [x], name="callable")
    else:
        raise Unsupported("callable() of symbolic value")


@handler(builtins.len)
def b_len(interp, st, args, kwargs):
    (x,) = args
    if x.kind == "const":
        try:
            yield st, ("ok", const(len(x.d)))
        except TypeError as e:
            yield st, (RAISE, interp.exc_from_instance(st, e))
        return
    if x.kind == "tuple":
        yield st, ("ok", const(len(x.d)))
        return
    if x.kind == "ref":
        h = st.heap[x.d]
        if isinstance(h, HList):
            yield st, ("ok", const(len(h.items)) if h.items is not None else V("int", h.ln))
            return
        if isinstance(h, HDict):
            yield st, ("ok", const(len(h.pairs)) if h.pairs is not None else V("int", h.kn))
            return
    if x.shadow is not None and x.root is not None:
        # exception column probed; value column: len(x) == seq_len(x) for every sized builtin container
        for s, r in interp.shadow_apply(st, len, [x], name="len"):
            if r[0] == "ok" and interp.prefer_shadow:
                yield s, r
            elif r[0] == "ok":
                interp.ctx.assume_note("len(x) equals the number of elements iteration over x yields (builtin sized containers)")
                yield s, ("ok", V("int", T.F_len(interp.term(s, x))))
            else:
                yield s, r
        return
    if x.kind == "sym":
        # a symbolic sequence that is not a datum of D (captured collection): sized by assumption
        interp.ctx.assume_note("captured collections (free variables of closures) are sized sequences")
        yield st, ("ok", V("int", T.F_len(interp.term(st, x))))
        return
    raise Unsupported(f"len of {x!r}")


def symbolic_iter(interp, st, x: V):
    """yield (st, ('ok', V iter) | ('raise', V)): iter(x) for a datum of D or a symbolic captured sequence."""
    if x.kind == "iter":
        yield st, ("ok", x)
        return
    if x.tag and x.tag[0] == "items_view":
        base = x.tag[1]
        bt = interp.term(st, base)

        def elem(s, i, bt=bt):
            kv = interp.element_datum(s, T.F_keyat(bt, i), "k")
            vv = interp.element_datum(s, T.F_valat(bt, i), "v")
            p = V("sym", t=interp.ctx.fresh_val("pair"))
            p.tag = ("pair", [kv, vv])
            return p
        it = SeqIter(bt, elem_fn=elem)
        it.len_term = T.F_mlen(bt)
        yield st, ("ok", V("iter", it))
        return
    if x.shadow is not None and x.root is not None:
        for s, r in interp.shadow_apply(st, iter, [x], name="iter"):
            if r[0] == "ok":
                yield s, ("ok", V("iter", SeqIter(interp.term(s, x), elem_in_D=True)))
            else:
                yield s, r
        return
    if x.kind == "sym":
        interp.ctx.assume_note("captured collections (free variables of closures) are iterable sequences")
        yield st, ("ok", V("iter", SeqIter(interp.term(st, x), elem_in_D=False)))
        return
    if x.kind == "ref" and isinstance(st.heap[x.d], HDict) and st.heap[x.d].pairs is None:
        # a symbolic dict built by the unit: iteration yields its keys in insertion order
        h = st.heap[x.d]
        it = SeqIter(interp.ctx.fresh_val("dictkeys"), elem_fn=lambda s, i, karr=h.karr: V("sym", t=z3.Select(karr, i)))
        it.len_term = h.kn
        yield st, ("ok", V("iter", it))
        return
    raise Unsupported(f"iter of {x!r}")


@handler(builtins.iter)
def b_iter(interp, st, args, kwargs):
    (x,) = args
    if x.kind in ("tuple", "const", "ref", "gen"):
        yield st, ("ok", x)      # concrete iterables are iterated directly by the loop code
        return
    yield from symbolic_iter(interp, st, x)


def _element_datum(interp: Interp, st: St, t, name):
    """A datum of D standing for the element term t (nested data: the universe is closed under containment)."""
    cache = interp.ctx.__dict__.setdefault("elem_roots", {})
    key = t.get_id()
    if key in cache:
        rid = cache[key]
    else:
        rid = new_id()
        cache[key] = rid
        interp.ctx.roots[rid] = t
        interp.ctx.root_names[rid] = name
    from .values import ALL_CELLS, root_thunks
    v = V("sym", t=t, root=rid, shadow=root_thunks())
    if rid not in st.live:
        st.live[rid] = ALL_CELLS
        st.assume(interp.in_D_fact(t))
    return v


Interp.element_datum = _element_datum


@handler(builtins.str)
def b_str(interp, st, args, kwargs):
    if len(args) == 1 and args[0].kind == "sym" and args[0].shadow is None:
        t = interp.ctx.fresh_val("str")
        st.assume(T.F_cls(t) == interp.reg.cls(str))
        yield st, ("ok", V("sym", t=t, ty=str))
        return
    yield from interp.shadow_apply(st, str, args, kwargs, name="str")


@handler(builtins.repr)
def b_repr(interp, st, args, kwargs):
    if len(args) == 1 and args[0].kind == "sym" and args[0].shadow is None:
        t = interp.ctx.fresh_val("repr")
        st.assume(T.F_cls(t) == interp.reg.cls(str))
        yield st, ("ok", V("sym", t=t, ty=str))
        return
    yield from interp.shadow_apply(st, repr, args, kwargs, name="repr")


# ------------------------------------------------------------------------------- consumers of iterables
def consume(interp: Interp, st: St, x: V):
    """Run an iterable to completion.  yields (st, ('ok', SeqVal)) | (st, ('raise', V)) where SeqVal is either
    ('items', [V]) or ('term', z3 Val term with seq_len/seq_at)."""
    if x.kind == "gen":
        for s, r in x.d(st):
            if r[0] != "ok":
                yield s, r
                continue
            y = r[1]
            if isinstance(y, tuple):
                yield s, ("ok", y)
                continue
            h = s.heap[y.d]
            if h.items is not None:
                yield s, ("ok", ("items", list(h.items)))
            else:
                yield s, ("ok", ("term", interp.snapshot(s, y)))
        return
    if x.kind == "tuple":
        yield st, ("ok", ("items", list(x.d)))
        return
    if x.kind == "const" and _finite_const(x.d):
        yield st, ("ok", ("items", [const(i) for i in x.d]))
        return
    if x.kind == "ref":
        h = st.heap[x.d]
        if isinstance(h, HList):
            if h.items is not None:
                yield st, ("ok", ("items", list(h.items)))
            else:
                yield st, ("ok", ("term", interp.snapshot(st, x)))
            return
    for s, r in symbolic_iter(interp, st, x):
        if r[0] != "ok":
            yield s, r
            continue
        it = r[1].d
        if it.elem_fn is not None:
            raise Unsupported("consuming a structured symbolic iterator")
        if z3.is_int_value(it.pos) and it.pos.as_long() == 0:
            yield s, ("ok", ("term", it.seq))
        else:
            raise Unsupported("consuming a partially consumed iterator")


def make_sequence(interp: Interp, st: St, pycls, seqval):
    """A fresh tuple/list/... holding the given elements."""
    if seqval[0] == "items" and pycls in (set, frozenset) and not all(x.kind == "const" and x.shadow is None
                                                                       for x in seqval[1]):
        interp.ctx.assume_note("a set of symbolic elements is modelled as its element list (duplicates are not removed; only "
                               "membership-style clauses are stated over it)")
        v = V("tuple", list(seqval[1]))
        v.tag = ("setlike",)
        return v
    if seqval[0] == "items":
        if pycls in (tuple, set, frozenset) and all(x.kind == "const" and x.shadow is None for x in seqval[1]):
            try:
                return const(pycls(x.d for x in seqval[1]))
            except TypeError:
                pass
        if pycls is tuple:
            return V("tuple", list(seqval[1]))
        if pycls is list:
            return interp.new_list(st, seqval[1])
    t = interp.ctx.fresh_val(pycls.__name__)
    st.assume(T.F_cls(t) == interp.reg.cls(pycls))
    if seqval[0] == "items":
        if pycls in (tuple, list):
            st.assume(T.F_len(t) == len(seqval[1]))
            for i, it in enumerate(seqval[1]):
                st.assume(T.F_at(t, i) == interp.term(st, it))
        st.assume(T.F_mk(T.F_ClsObj(interp.reg.cls(pycls)), interp.term(st, V("tuple", list(seqval[1])))) == t)
    else:
        src = seqval[1]
        if pycls in (tuple, list):
            j = z3.Int("j!")
            st.assume(T.F_len(t) == T.F_len(src))
            st.assume(z3.ForAll([j], T.F_at(t, j) == T.F_at(src, j), patterns=[T.F_at(t, j)]))
        st.assume(T.F_mk(T.F_ClsObj(interp.reg.cls(pycls)), src) == t)
    v = V("sym", t=t, ty=pycls)
    v.tag = ("fresh_container",)
    if pycls in (set, frozenset) and seqval[0] == "term":
        v.tag = ("setof", seqval[1])
    return v


def _ctor_handler(pycls):
    def h(interp, st, args, kwargs):
        if not args:
            if pycls is set:
                v = interp.new_list(st, [])
                st.heap[v.d].kind_set = True
                yield st, ("ok", v)
                return
            if pycls is list:
                yield st, ("ok", interp.new_list(st, []))
            elif pycls is dict:
                yield st, ("ok", interp.new_dict(st, []))
            elif pycls is tuple:
                yield st, ("ok", const(()))
            else:
                yield st, ("ok", make_sequence(interp, st, pycls, ("items", [])))
            return
        (x,) = args
        if x.kind == "const" and x.shadow is None:
            try:
                yield st, ("ok", const(pycls(x.d)))
            except Exception as e:  # noqa: BLE001
                yield st, (RAISE, interp.exc_from_instance(st, e))
            return
        if interp.prefer_shadow and x.shadow is not None and x.root is not None:
            yield from interp.shadow_apply(st, pycls, [x], name=pycls.__name__)
            return
        for s, r in consume(interp, st, x):
            if r[0] != "ok":
                yield s, r
            else:
                if pycls in (set, frozenset):
                    interp.ctx.assume_note("elements placed into a set built by adaptix are hashable")
                yield s, ("ok", make_sequence(interp, s, pycls, r[1]))
    return h


for _c in (tuple, list, set, frozenset):
    HANDLERS[_c] = _ctor_handler(_c)


@handler(builtins.map)
def b_map(interp, st, args, kwargs):
    if len(args) != 2:
        raise Unsupported("map with several iterables")
    f, x = args
    for s, r in b_iter(interp, st, [x], {}):
        if r[0] != "ok":
            yield s, r
            continue
        itv = r[1]

        def thunk(s2, f=f, itv=itv):
            from . import loops
            yield from loops.drain_map(interp, s2, f, itv)
        yield s, ("ok", V("gen", thunk))


@handler(builtins.enumerate)
def b_enumerate(interp, st, args, kwargs):
    x = args[0]
    start = kwargs.get("start", args[1] if len(args) > 1 else const(0))
    v = V("sym", t=interp.ctx.fresh_val("enum"))
    v.tag = ("enumerate", x, start)
    yield st, ("ok", v)


@handler(builtins.zip)
def b_zip(interp, st, args, kwargs):
    v = V("sym", t=interp.ctx.fresh_val("zip"))
    v.tag = ("zip", list(args))
    yield st, ("ok", v)


@handler(_itertools_pairwise := __import__("itertools").pairwise)
def b_pairwise(interp, st, args, kwargs):
    v = V("sym", t=interp.ctx.fresh_val("pairwise"))
    v.tag = ("pairwise", args[0])
    yield st, ("ok", v)


_prev_next = HANDLERS.get(builtins.next)


@handler(builtins.next)
def b_next(interp, st, args, kwargs):
    if args and args[0].kind == "gen" and args[0].tag and args[0].tag[0] == "genexp":
        from . import loops
        x = args[0].tag[3]
        if loops.as_concrete_items(interp, st, x) is None and x.kind != "gen":
            yield from loops.next_of_genexp(interp, st, args[0], args[1] if len(args) > 1 else None)
            return
    if _prev_next is not None:
        yield from _prev_next(interp, st, args, kwargs)
        return
    if args and args[0].kind == "const" and not isinstance(args[0].d, (str, bytes)) and not hasattr(args[0].d, "__next__"):
        # (a collection, not an iterator with a position: each `iter()` of it starts at the first element)
        # next(iter(<constant collection>)) (iter() hands constants through): the first element, StopIteration / default when empty
        try:
            items = list(args[0].d)
        except TypeError:
            raise Unsupported("next() on this value")
        if items:
            yield st, ("ok", const(items[0]))
        elif len(args) > 1:
            yield st, ("ok", args[1])
        else:
            yield st, (RAISE, interp.make_exception(st, StopIteration, []))
        return
    raise Unsupported("next() on this value")


@handler(builtins.reversed)
def b_reversed(interp, st, args, kwargs):
    from . import loops
    if args[0].kind == "sym" and loops.as_concrete_items(interp, st, args[0]) is None and args[0].shadow is None:
        # reversed() over a symbolic sequence: element j is element len-1-j (the argument is assumed to be a sequence)
        v = V("sym", t=interp.ctx.fresh_val("reversed"))
        v.tag = ("reversed", args[0])
        interp.ctx.assume_note("reversed(xs) of a symbolic sequence xs yields xs[len-1], ..., xs[0]")
        yield st, ("ok", v)
        return
    for s, r in iterate_concrete(interp, st, args[0]):
        if r[0] != "ok":
            yield s, r
        else:
            yield s, ("ok", V("tuple", list(reversed(r[1]))))


@handler(builtins.any)
def b_any(interp, st, args, kwargs):
    yield from _any_all(interp, st, args[0], True)


@handler(builtins.all)
def b_all(interp, st, args, kwargs):
    yield from _any_all(interp, st, args[0], False)


def _any_all(interp, st, x, is_any):
    if x.kind == "gen":
        # a generator expression: over a symbolic sequence its values are a sequence term, and any/all is the quantified
        # statement over it (elements are evaluated by total, effect-free calls — otherwise quantified_map raises/forks)
        for s, r in x.d(st):
            if r[0] != "ok":
                yield s, r
            elif isinstance(r[1], tuple) and r[1][0] == "term":
                ys = r[1][1]
                j = z3.Int("aj!")
                rng = z3.And(j >= 0, j < T.F_len(ys))
                tr = T.F_truth(T.F_at(ys, j))
                k = interp.ctx.fresh_int("anyk" if is_any else "allk")
                # witness side (skolemised) and universal side
                s_w = s.fork()
                wit = T.F_truth(T.F_at(ys, k))
                s_w.assume(z3.And(k >= 0, k < T.F_len(ys), wit if is_any else z3.Not(wit)))
                s_w.assume(T.F_touch(T.F_at(ys, k)))
                if interp.check_sat(s_w):
                    yield s_w, ("ok", const(is_any))
                s.assume(z3.ForAll([j], z3.Implies(rng, z3.Not(tr) if is_any else tr), patterns=[T.F_at(ys, j)]))
                if interp.check_sat(s):
                    yield s, ("ok", const(not is_any))
            elif isinstance(r[1], tuple) and r[1][0] == "items":
                yield from _any_all(interp, s, V("tuple", list(r[1][1])), is_any)
            elif isinstance(r[1], tuple):
                raise Unsupported("any/all over an aliased symbolic sequence")
            else:
                yield from _any_all(interp, s, r[1], is_any)
        return
    for s, r in iterate_concrete(interp, st, x):
        if r[0] != "ok":
            yield s, r
            continue

        def go(items, s2):
            if not items:
                yield s2, ("ok", const(not is_any))
                return
            for s3, b in interp.truth(s2, items[0]):
                if b == is_any:
                    yield s3, ("ok", const(is_any))
                else:
                    yield from go(items[1:], s3)
        yield from go(r[1], s)


# ---------------------------------------------------------------------------------------------- total constructors
import io as _io

TOTAL_CTORS = {bytearray: (bytes,), _io.BytesIO: (bytes,)}


@handler("$call_const_symbolic")
def call_const_symbolic(interp: Interp, st: St, o, args, kwargs):
    """Constructors that are total on a given argument class: the class of the argument becomes an obligation."""
    try:
        allowed = TOTAL_CTORS.get(o)
    except TypeError:
        allowed = None
    if allowed is not None and len(args) == 1 and not kwargs:
        at = interp.term(st, args[0])
        goal = z3.Or(*[T.F_cls(at) == interp.reg.cls(k) for k in allowed])
        interp.add_obligation(st, f"callee-pre/{o.__name__}", goal, kind="callee-pre")
        interp.ctx.assume_note(f"`{o.__name__}(x)` is total and allocates a new object for x of class "
                               f"{'/'.join(k.__name__ for k in allowed)}")
        t = T.app_fn(o.__name__, 1)(at)
        st.assume(T.F_cls(t) == interp.reg.cls(o))
        v = V("sym", t=t, ty=o)
        v.tag = ("fresh_container",)
        yield st, ("ok", v)
        return
    if isinstance(o, type):
        init = o.__dict__.get("__init__") or getattr(o, "__init__", None)
        rc = interp.resolve_repo_callable(init) if init is not None else None
        import dataclasses as _dc
        hid = new_id()
        if rc is not None:
            st.heap[hid] = HObj(o, {}, fresh=True)
            selfv = V("ref", hid)
            for s, r in interp.call_closure(st, rc[0], [selfv] + list(args), kwargs):
                if r[0] != "ok":
                    yield s, r
                else:
                    yield s, ("ok", selfv)
            return
        if _dc.is_dataclass(o):
            import inspect as _inspect
            try:
                ba = _inspect.signature(o).bind(*args, **kwargs)
            except TypeError as e:
                yield st, (RAISE, interp.exc_from_instance(st, e))
                return
            interp.ctx.assume_note("dataclass-generated __init__ stores its arguments in the fields of the same name")
            st.heap[hid] = HObj(o, dict(ba.arguments), fresh=True)
            yield st, ("ok", V("ref", hid))
            return
    raise Unsupported(f"call of {o!r} on symbolic arguments {args!r}")


import itertools as _itertools


@handler(_itertools.islice)
def b_islice(interp, st, args, kwargs):
    """islice(seq, start, None) over a symbolic sequence"""
    if len(args) != 3 or not (args[2].kind == "const" and args[2].d is None):
        raise Unsupported("islice form")
    seq, start = args[0], args[1]
    pos = start.d if start.kind == "int" else z3.IntVal(start.d) if start.kind == "const" else None
    if pos is None:
        raise Unsupported("islice start")
    for s, r in symbolic_iter(interp, st, seq):
        if r[0] != "ok":
            yield s, r
            continue
        it = r[1].d
        ni = SeqIter(it.seq, pos=pos, elem_in_D=it.elem_in_D, elem_fn=it.elem_fn)
        ni.len_term = it.len_term
        ni.clamp = True
        yield s, ("ok", V("iter", ni))


import functools as _functools


class _MemoDecorator:
    def __repr__(self):
        return "<memoizing decorator>"


_MEMO = _MemoDecorator()


def _h_lru_cache(interp, st, args, kwargs):
    if len(args) == 1 and args[0].kind == "fn" and not kwargs:
        yield from _h_memo_apply(interp, st, args, kwargs)
        return
    yield st, ("ok", const(_MEMO))


def _h_memo_apply(interp, st, args, kwargs):
    """functools.lru_cache / cache around a closure: the same result OBJECT is handed out for equal arguments"""
    (fn,) = args
    if fn.kind != "fn":
        raise Unsupported("memoization of a non-closure")
    v = V("fn", fn.d)
    v.tag = ("memoized",)
    interp.ctx.assume_note("functools.lru_cache/cache: results are shared between calls with equal arguments")
    yield st, ("ok", v)


HANDLERS[_functools.lru_cache] = _h_lru_cache
HANDLERS[_functools.cache] = _h_memo_apply
HANDLERS[_MEMO] = _h_memo_apply
