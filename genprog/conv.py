"""GENPROG for converters (C13, C19, C20): every generated converter of a printed family is executed symbolically — the real
source text of the converter and of every generated coercer it calls (taken from `linecache`, where adaptix' own compiler
registers it) — for a symbolic source object and symbolic extra arguments, against the expression tree the independent linking
specification (genprog/link_spec.py) fixes.  User functions (coercers, link functions) are uninterpreted; destination models are
dataclasses whose generated __init__ binds arguments to fields by python's own rules (`inspect.signature(...).bind`).
Bounded over programs, unbounded over inputs.  A native twin evaluates the same tree on concrete objects (replay)."""
from __future__ import annotations

import ast
import dataclasses
import hashlib
import inspect
import itertools
import linecache
import time
import traceback

import z3

from pyvc import theory as T
from pyvc import verify as _verify  # noqa: F401
from pyvc.builtins_theory import HANDLERS
from pyvc.interp import Ctx, Interp
from pyvc.values import Closure, HDict, HList, HObj, St, Unsupported, V, const
from pyvc.verify import Obl, discharge

from .link_spec import ABSENT, CF, ModelSpec, Refuse, expected

_types = {}


def opaque(tkey):
    if tkey == "any":
        from typing import Any
        return Any
    t = _types.get(tkey)
    if t is None:
        t = _types[tkey] = type(f"T_{tkey}", (), {"__repr__": lambda self: f"<{type(self).__name__}>"})
    return t


class Stub:
    """a user function (coercer / link function): uninterpreted in the proof, a tagging function natively"""

    def __init__(self, name):
        self.name = name
        self.__name__ = name
        self.__qualname__ = name

    def __call__(self, *a, **k):
        return ("stub", self.name, a, tuple(sorted(k.items())))

    def __repr__(self):
        return f"<stub {self.name}>"


_NO_DEFAULT = object()


@dataclasses.dataclass
class Param:
    name: str
    tkey: str = "t0"
    default: object = _NO_DEFAULT      # default value of the parameter in the stub's signature


class CodeRepr:
    """an object whose repr is code: if a generator pastes repr(default) into source text, the canary appears in builtins"""

    def __repr__(self):
        return "setattr(__import__('builtins'), 'C19_CANARY_DEFAULT', True)"


class PlainObject:
    pass


class ConvCase:
    def __init__(self, label, src, dst, recipe_spec=(), params=(), via="get_converter", fn_name=None, src_param="src", hostile=False,
                 prior=()):
        self.label = label
        self.src, self.dst = src, dst
        self.recipe_spec = list(recipe_spec)
        self.params = [p if isinstance(p, Param) else Param(p) for p in params]
        self.via = via
        self.fn_name = fn_name
        self.src_param = src_param
        self.hostile = hostile
        self.prior = list(prior)       # recipes requested EARLIER on the same retort for the same pair of models (call history)
        self.classes = {}
        self.funcs = {}

    # -------------------------------------------------------------------------------------------- real objects
    def cls(self, spec: ModelSpec):
        c = self.classes.get(id(spec))
        if c is None:
            fs = []
            for f in spec.fields:
                kw = {}
                if f.default is not None:
                    kw["default" if f.default[0] == "value" else "default_factory"] = f.default[1]
                if f.kind == "kw_only":
                    kw["kw_only"] = True
                tp = self.cls(f.tkey) if isinstance(f.tkey, ModelSpec) else opaque(f.tkey)
                fs.append((f.name, tp, dataclasses.field(**kw)))
            c = self.classes[id(spec)] = dataclasses.make_dataclass(spec.name, fs)
        return c

    def tp(self, tkey):
        return self.cls(tkey) if isinstance(tkey, ModelSpec) else opaque(tkey)

    def link_function(self, stub, pos_params, kw_fields):
        key = (stub.name, tuple(pos_params), tuple(kw_fields))
        f = self.funcs.get(key)
        if f is None:
            pars = ["model"] + list(pos_params) + (["*"] + list(kw_fields) if kw_fields else [])
            call = ", ".join(["model"] + list(pos_params) + [f"{k}={k}" for k in kw_fields])
            glob = {"_stub_": stub}
            import keyword
            name = stub.name if stub.name.isidentifier() and not keyword.iskeyword(stub.name) else "fn"
            exec(compile(f"def {name}({', '.join(pars)}):\n    return _stub_({call})\n", "<link function>", "exec",  # noqa: S102
                         dont_inherit=True), glob)
            f = self.funcs[key] = glob[name]
            f.__name__ = f.__qualname__ = stub.name
            f._stub = stub
        return f

    def recipe(self, recipe_spec=None):
        from adaptix.conversion import allow_unlinked_optional, coercer, from_param, link, link_constant, link_function
        recipe_spec = self.recipe_spec if recipe_spec is None else recipe_spec

        def pred(p):
            return from_param(p[1]) if isinstance(p, tuple) else p
        out = []
        for it in recipe_spec:
            k = it[0]
            if k == "link":
                kw = {"coercer": it[3]} if len(it) > 3 and it[3] is not None else {}
                out.append(link(pred(it[1]), it[2], **kw))
            elif k == "const":
                out.append(link_constant(it[1], **{it[2][0]: it[2][1]}))
            elif k == "func":
                out.append(link_function(self.link_function(it[1], it[2], it[3]), it[4]))
            elif k == "coercer":
                out.append(coercer(self.tp(it[1]), self.tp(it[2]), it[3]))
            elif k == "allow_unlinked":
                out.append(allow_unlinked_optional(*([it[1]] if it[1] is not None else [])))
        return out

    def build(self):
        """the real converter (raises what adaptix raises)"""
        from adaptix.conversion import ConversionRetort
        retort = ConversionRetort()
        src_cls, dst_cls = self.cls(self.src), self.cls(self.dst)
        for pr in self.prior:
            try:
                kw = {"name": self.fn_name} if self.fn_name is not None else {}
                retort.get_converter(src_cls, dst_cls, recipe=self.recipe(pr), **kw)
            except Exception:  # noqa: BLE001,S110
                pass           # an earlier request may fail: it must not matter either
        if self.via == "get_converter":
            if self.params:
                raise ValueError("get_converter takes no extra parameters")
            kw = {"name": self.fn_name} if self.fn_name is not None else {}
            return retort.get_converter(src_cls, dst_cls, recipe=self.recipe(), **kw)
        pars = [f"{self.src_param}: _src_"] + [f"{p.name}: _t_[{p.name!r}]" + ("" if p.default is _NO_DEFAULT else f" = _d_[{p.name!r}]")
                                               for p in self.params]
        glob = {"_src_": src_cls, "_dst_": dst_cls, "_t_": {p.name: opaque(p.tkey) for p in self.params},
                "_d_": {p.name: p.default for p in self.params if p.default is not _NO_DEFAULT}}
        name = self.fn_name or "stub_converter"
        exec(compile(f"def {name}({', '.join(pars)}) -> _dst_:\n    ...\n", "<converter stub>", "exec", dont_inherit=True), glob)  # noqa: S102
        self.stub_fn = glob[name]
        return retort.impl_converter(recipe=self.recipe())(self.stub_fn)


# ------------------------------------------------------------------------------------------------ generated source
def generated_source(fn):
    code = getattr(fn, "__code__", None)
    if code is None or not code.co_filename.startswith("<adaptix generated"):
        return None
    return "".join(linecache.getlines(code.co_filename))


def all_sources(fn, seen=None):
    """the generated functions reachable from a converter: {filename: source}"""
    seen = {} if seen is None else seen
    src = generated_source(fn)
    if src is None or fn.__code__.co_filename in seen:
        return seen
    seen[fn.__code__.co_filename] = src
    for cell in fn.__closure__ or ():
        try:
            v = cell.cell_contents
        except ValueError:
            continue
        if callable(v) and hasattr(v, "__code__"):
            all_sources(v, seen)
    return seen


def closure_of_generated(interp, fn):
    """Closure over the real source text adaptix compiled for `fn`"""
    src = generated_source(fn)
    tree = ast.parse(src)
    best = None
    for n in ast.walk(tree):
        if isinstance(n, ast.FunctionDef) and n.name == fn.__code__.co_name and n.lineno == fn.__code__.co_firstlineno:
            best = n
    if best is None:
        raise Unsupported(f"generated function {fn.__code__.co_name} not found in its registered source")
    env = {}
    for nm, cell in zip(fn.__code__.co_freevars, fn.__closure__ or ()):
        try:
            env[nm] = const(cell.cell_contents)
        except ValueError:
            pass
    env["$globals"] = fn.__globals__
    return Closure(best, env, fn.__code__.co_name, None, False)


def install(interp, case):
    """callee resolution for generated code: generated functions are inlined from their registered source, user functions
    (stubs) are uninterpreted total functions of their arguments"""
    orig = interp.resolve_repo_callable

    def resolve(o):
        if generated_source(o) is not None:
            return closure_of_generated(interp, o), None
        return orig(o)
    interp.resolve_repo_callable = resolve

    def stub_handler(stub):
        def h(interp_, st, args, kwargs):
            ts = [interp_.term(st, a) for a in args] + [interp_.term(st, v) for _, v in sorted(kwargs.items())]
            name = "stub_" + "".join(ch if ch.isalnum() else "_" for ch in stub.name) + "".join("_" + k for k in sorted(kwargs))
            fnc = z3.Function(f"{name}_{len(ts)}", *([T.Val] * len(ts)), T.Val)
            interp_.ctx.assume_note("user functions (coercers, link functions) are total deterministic functions of their arguments")
            st.calls.append((stub.name, tuple(ts)))
            yield st, ("ok", V("sym", t=fnc(*ts)))
        return h
    for it in case.recipe_spec:
        for x in it:
            if isinstance(x, Stub):
                interp.handlers[x] = stub_handler(x)
    for f in case.funcs.values():
        interp.handlers[f] = stub_handler(f._stub)


# ------------------------------------------------------------------------------------------------ symbolic side
def expr_value(interp, st, case, expr, roots):
    """the V the specification prescribes for an expression of the tree (evaluated by the same interpreter)"""
    kind = expr[0]
    if kind == "src":
        v = roots["src"]
        for a in expr[1:]:
            res = list(interp.get_attr(st, v, a))
            if len(res) != 1 or res[0][1][0] != "ok":
                raise Unsupported("attribute of the symbolic source is not a plain value")
            st, v = res[0][0], res[0][1][1]
        return v
    if kind == "param":
        return roots[expr[1]]
    if kind == "coerce":
        inner = expr_value(interp, st, case, expr[2], roots)
        res = list(interp.call(st, const(expr[1]), [inner], {}))
        return res[0][1][1]
    if kind == "func":
        _, stub, model_expr, args, kws = expr
        a = [expr_value(interp, st, case, model_expr, roots)] + [expr_value(interp, st, case, x, roots) for x in args]
        k = {n: expr_value(interp, st, case, x, roots) for n, x in kws.items()}
        res = list(interp.call(st, const(stub), a, k))
        return res[0][1][1]
    raise ValueError(kind)


def compare(interp, st, case, got: V, exp, roots, path):
    """[(clause, props, goal, note)]"""
    name = ".".join(path) or "<result>"
    kind = exp[0]
    if kind == "same-or-rebuilt":
        rebuilt = got.kind == "ref" and isinstance(st.heap[got.d], HObj) and st.heap[got.d].fresh
        return compare(interp, st, case, got, exp[2] if rebuilt else exp[1], roots, path)
    if kind == "model":
        _, spec, fields = exp
        cls = case.cls(spec)
        if got.kind != "ref" or not isinstance(st.heap[got.d], HObj) or st.heap[got.d].cls is not cls:
            return [(f"constructed:{name}", ["C13"], z3.BoolVal(False), f"{name} is not a newly constructed {spec.name}")]
        h = st.heap[got.d]
        out = [(f"constructed:{name}", ["C13"], z3.BoolVal(bool(h.fresh)), f"{name} is not a new object")]
        for fname, fexp in fields.items():
            if fexp == ABSENT:
                ok = fname not in h.attrs
                out.append((f"field:{name}.{fname}", ["C13"], z3.BoolVal(ok), "unlinked optional field received a value"))
                continue
            if fname not in h.attrs:
                out.append((f"field:{name}.{fname}", ["C13"], z3.BoolVal(False), "field was not passed to the constructor"))
                continue
            out += compare(interp, st, case, h.attrs[fname], fexp, roots, path + (fname,))
        extra = set(h.attrs) - set(fields)
        if extra:
            out.append((f"constructed:{name}", ["C13"], z3.BoolVal(False), f"unexpected constructor arguments {sorted(extra)}"))
        return out
    if kind == "const":
        if exp[1] == "value":
            ok = got.kind == "const" and (got.d is exp[2] or (type(got.d) is type(exp[2]) and got.d == exp[2]))
            return [(f"field:{name}", ["C13"], z3.BoolVal(bool(ok)), f"expected the constant {exp[2]!r}")]
        want = exp[2]()
        ok = False
        if got.kind == "ref":
            h = st.heap[got.d]
            ok = bool(h.fresh) and ((isinstance(h, HList) and h.items == [] and type(want) is list) or
                                    (isinstance(h, HDict) and h.pairs == [] and type(want) is dict))
        elif got.tag and got.tag[0] == "factory_call" and got.tag[1] is exp[2]:
            ok = True
        return [(f"field:{name}", ["C13", "C20"], z3.BoolVal(ok), "expected a fresh result of the factory")]
    want = expr_value(interp, st, case, exp, roots)
    return [(f"field:{name}", ["C13"], interp.term(st, got) == interp.term(st, want),
             f"{name} is not {show_expr(exp)}")]


def show_expr(e):
    k = e[0]
    if k == "src":
        return ".".join(("src",) + tuple(e[1:]))
    if k == "param":
        return f"param {e[1]}"
    if k == "coerce":
        return f"{e[1].name}({show_expr(e[2])})"
    if k == "func":
        return f"{e[1].name}({', '.join([show_expr(e[2])] + [show_expr(x) for x in e[3]] + [f'{n}={show_expr(x)}' for n, x in e[4].items()])})"
    if k == "const":
        return f"constant {e[2]!r}"
    if k == "model":
        return f"{e[1].name}(...)"
    return repr(e)


def verify_conv_case(job):
    idx, tier, seed = job[:3]
    group = job[3] if len(job) > 3 else "base"
    try:
        from pyvc import extract
        extract.ensure_repo_on_path()
        case = conv_family(tier, group)[idx]
        return _verify(case, tier, seed)
    except Exception:  # noqa: BLE001
        return {"label": f"conv-case#{idx}", "error": ("crash", traceback.format_exc()[-1500:]), "obls": [], "failures": [],
                "paths": 0, "time": 0, "solver_time": 0, "assumptions": [], "src_sha": None, "xcheck": None}


def _props(case, props):
    return props + (["C19"] if case.hostile else []) + (["C11", "C09"] if case.prior else [])


def _verify(case, tier, seed):
    t0 = time.time()
    out = {"label": case.label, "error": None, "obls": [], "failures": [], "paths": 0, "assumptions": [], "xcheck": None,
           "solver_time": 0, "src_sha": None, "time": 0}
    try:
        exp = expected(case)
        refuse = None
    except Refuse as r:
        exp, refuse = None, str(r)
    try:
        conv = case.build()
        created, err = True, None
    except Exception as e:  # noqa: BLE001
        conv, created, err = None, False, f"{type(e).__name__}: {str(e)[:200]}"
    obls = []
    st0 = St()
    ctx = Ctx()
    interp = Interp(ctx, {}, unit_name="generated converter")

    def simple(name, props, ok, note):
        o = Obl(f"{case.label}/{name}", name, [], z3.BoolVal(bool(ok)), "post", 0, st0)
        o.props, o.note = _props(case, props), note
        obls.append(o)
    if exp is None:
        # the documented rules leave a destination field without a source: no converter may be produced
        simple("refused", ["C13", "C14"], not created, f"a converter was produced although {refuse}")
    else:
        simple("created", ["C13", "C14"], created, f"creation failed: {err}")
    mism = []
    if exp is not None and created:
        srcs = all_sources(conv)
        out["src_sha"] = hashlib.sha256("\n".join(srcs.values()).encode()).hexdigest()[:16]
        try:
            install(interp, case)
            roots = {"src": V("sym", t=z3.Const("src", T.Val))}
            for p in case.params:
                roots[p.name] = V("sym", t=z3.Const(f"param_{p.name}", T.Val))
            interp.entry_state = st0.fork()
            clo = closure_of_generated(interp, conv)
            args = [roots["src"]] + [roots[p.name] for p in case.params]
            paths = list(interp.call_closure(st0, clo, args, {}))
        except Unsupported as e:
            # the generated code left the accepted subset (e.g. it calls one of its own arguments): nothing is proved, but the
            # linking tree is still evaluated natively — a native mismatch is a violation however it was found
            mism = native_conv_check(case, conv, exp)
            if mism:
                out["failures"].append({"obligation": f"{case.label}/native", "clause": mism[0]["clause"], "props": _props(case, ["C13"]),
                                        "backend": "native-twin", "solver_status": "failed", "model": None, "witnesses": mism[:3],
                                        "note": f"outside the accepted subset ({e}); the real converter disagrees with the linking rules"})
            else:
                out["error"] = ("unsupported", str(e))
            out["time"] = time.time() - t0
            return out
        out["paths"] = len(paths)
        for o in interp.obligations:
            o.name = f"{case.label}/{o.clause}"
            o.props = _props(case, ["C13", "C20"])
            obls.append(o)
        for k, (s, r) in enumerate(paths):
            if r[0] != "ok":
                o = Obl(f"{case.label}/returns/p{k}", "returns", list(s.pc), z3.BoolVal(False), "post", k, s)
                o.props, o.note = _props(case, ["C13"]), "the converter raises by itself"
                obls.append(o)
                continue
            for cname, props, goal, note in compare(interp, s, case, r[1], exp, roots, ()):
                o = Obl(f"{case.label}/{cname}/p{k}", cname, list(s.pc), goal, "post", k, s)
                o.props, o.note = _props(case, props), note
                obls.append(o)
        # the stub's signature and name are preserved
        if case.via == "impl_converter":
            try:
                same_sig = inspect.signature(conv) == inspect.signature(case.stub_fn) and conv.__name__ == case.stub_fn.__name__
                why = "impl_converter changed the stub's signature or name"
            except Exception as e:  # noqa: BLE001
                same_sig, why = False, f"the signature of the produced converter cannot be read: {type(e).__name__}: {e}"
            simple("signature-preserved", ["C13"], same_sig, why)
        elif case.fn_name is not None:
            simple("name-as-requested", ["C13"], conv.__name__ == case.fn_name, f"converter is named {conv.__name__!r}")
        mism = native_conv_check(case, conv, exp)
        if any(p.default is not _NO_DEFAULT for p in case.params):
            dm = [m for m in mism if m["clause"] == "default-of-parameter"]
            simple("default-of-parameter", ["C13"], not dm, dm[0]["native_outcome"] if dm else "")
    import builtins as _b
    if case.hostile:
        canaries = [n for n in dir(_b) if n.startswith("C19_CANARY")]
        simple("no-text-executed", [], not canaries, f"text supplied as data was executed: builtins now has {canaries}")
        for n in canaries:
            delattr(_b, n)
    t1 = time.time()
    discharge(interp, obls, 6000 if tier == "quick" else 60000, ext_budget=(6000 if tier == "quick" else None))
    out["solver_time"] = time.time() - t1
    out["assumptions"] = sorted(ctx.assumptions)
    bad = [o for o in obls if o.status != "discharged"]
    for o in obls:
        out["obls"].append({"name": o.name, "clause": o.clause, "props": o.props, "status": o.status, "backend": o.backend,
                            "time": round(o.time, 4)})
    for o in bad:
        if o.clause in ("created", "refused", "signature-preserved", "name-as-requested", "default-of-parameter", "no-text-executed"):
            ws = [{"clause": o.clause, "signature": case.label, "input": case.describe(), "native_outcome": o.note}]
        else:
            ws = mism[:3]
        out["failures"].append({"obligation": o.name, "clause": o.clause, "props": o.props, "backend": o.backend,
                                "solver_status": o.status, "note": o.note, "model": str(o.model)[:600] if o.model else None,
                                "witnesses": ws})
    if not bad:
        out["xcheck"] = {"scenarios": 2, "mismatches": mism[:3]}
    out["time"] = time.time() - t0
    return out


# ------------------------------------------------------------------------------------------------ native twin
def native_value(case, exp, env):
    k = exp[0]
    if k == "src":
        v = env["src"]
        for a in exp[1:]:
            v = getattr(v, a)
        return v
    if k == "param":
        return env[exp[1]]
    if k == "coerce":
        return exp[1](native_value(case, exp[2], env))
    if k == "func":
        _, stub, model_expr, args, kws = exp
        return stub(native_value(case, model_expr, env), *[native_value(case, x, env) for x in args],
                    **{n: native_value(case, x, env) for n, x in kws.items()})
    if k == "const":
        return exp[2] if exp[1] == "value" else exp[2]()
    if k == "same-or-rebuilt":
        return native_value(case, exp[1], env)
    if k == "model":
        _, spec, fields = exp
        return case.cls(spec)(**{n: native_value(case, e, env) for n, e in fields.items() if e != ABSENT})
    raise ValueError(k)


def sample_object(case, spec, tag):
    kw = {}
    for f in spec.fields:
        kw[f.name] = sample_object(case, f.tkey, f"{tag}.{f.name}") if isinstance(f.tkey, ModelSpec) else f"{tag}.{f.name}"
    return case.cls(spec)(**kw)


def native_conv_check(case, conv, exp):
    out = []
    for round_ in range(2):
        src = sample_object(case, case.src, f"s{round_}")
        snap = repr(src)
        env = {"src": src}
        for p in case.params:
            env[p.name] = f"arg{round_}:{p.name}"
        try:
            got = conv(src, *[env[p.name] for p in case.params])
            want = native_value(case, exp, env)
            if got != want or type(got) is not type(want):
                out.append({"clause": "field", "signature": f"{case.label}#{round_}", "input": f"{snap}, {[env[p.name] for p in case.params]}"[:300],
                            "native_outcome": f"converter returned {got!r}, the linking rules give {want!r}"[:400]})
        except Exception as e:  # noqa: BLE001
            out.append({"clause": "returns", "signature": f"{case.label}#{round_}", "input": snap[:300],
                        "native_outcome": f"raised {type(e).__name__}: {e}"[:300]})
        if repr(src) != snap:
            out.append({"clause": "modifies-nothing", "signature": f"{case.label}#{round_}", "input": snap[:300],
                        "native_outcome": f"source changed to {src!r}"[:300]})
    # parameters with a default may be omitted: the stub's own default is what the converter uses
    n_keep = len(case.params)
    while n_keep > 0 and case.params[n_keep - 1].default is not _NO_DEFAULT:
        n_keep -= 1
    if n_keep < len(case.params):
        src = sample_object(case, case.src, "sd")
        env = {"src": src}
        for i, p in enumerate(case.params):
            env[p.name] = f"argd:{p.name}" if i < n_keep else p.default
        try:
            got = conv(src, *[env[p.name] for p in case.params[:n_keep]])
            want = native_value(case, exp, env)
            if got != want or type(got) is not type(want):
                out.append({"clause": "default-of-parameter", "signature": f"{case.label}#defaults", "input": repr(src)[:300],
                            "native_outcome": f"with defaulted parameters omitted the converter returned {got!r}, expected {want!r}"[:400]})
        except Exception as e:  # noqa: BLE001
            out.append({"clause": "default-of-parameter", "signature": f"{case.label}#defaults", "input": repr(src)[:300],
                        "native_outcome": f"raised {type(e).__name__}: {e}"[:300]})
    return out


ConvCase.describe = lambda self: (f"src={self.src.name}{[f.name for f in self.src.fields]} dst={self.dst.name}"
                                  f"{[f.name for f in self.dst.fields]} params={[p.name for p in self.params]} via={self.via} "
                                  f"name={self.fn_name!r} recipe={[(it[0],) + tuple(x.name if isinstance(x, (Stub, ModelSpec)) else x for x in it[1:]) for it in self.recipe_spec]}")[:600]


# ------------------------------------------------------------------------------------------------ family
def conv_family(tier="quick", group="base"):
    if group == "hostile":
        return hostile_conv_family(tier)
    M = ModelSpec
    c1, c2, c3 = Stub("to_t2"), Stub("to_t2_special"), Stub("to_t3")
    f1, f2 = Stub("compute"), Stub("merge")
    In = M("In", [CF("p", "t1"), CF("q", "t0")])
    InD = M("InD", [CF("p", "t2"), CF("r", "t0")])
    InSame = M("InSame", [CF("p", "t1")])
    cases = []

    def add(label, src, dst, recipe=(), params=(), via=None, **kw):
        via = via or ("impl_converter" if params else "get_converter")
        cases.append(ConvCase(label, src, dst, recipe, params, via=via, **kw))
        if not params and via == "get_converter" and tier == "thorough":
            cases.append(ConvCase(label + "/impl", src, dst, recipe, params, via="impl_converter", **kw))
    A3 = M("A", [CF("a"), CF("b"), CF("c")])
    add("upcast", A3, M("B", [CF("a"), CF("b")]))
    add("same-reordered", A3, M("B", [CF("c"), CF("a"), CF("b")]))
    add("rename", A3, M("B", [CF("a"), CF("w")]), [("link", "b", "w")])
    add("two-links-first-wins", A3, M("B", [CF("a"), CF("w")]), [("link", "c", "w"), ("link", "b", "w")])
    add("link-overrides-same-name", A3, M("B", [CF("a"), CF("b")]), [("link", "c", "a")])
    add("link-without-source-falls-through", A3, M("B", [CF("a"), CF("w")]), [("link", "nope", "w"), ("link", "b", "w")])
    add("regex-source-first-field", A3, M("B", [CF("w")]), [("link", "b|c", "w")])
    add("constant-value", A3, M("B", [CF("a"), CF("k")]), [("const", "k", ("value", 5))])
    add("constant-factory", A3, M("B", [CF("a"), CF("k")]), [("const", "k", ("factory", list))])
    add("constant-before-link", A3, M("B", [CF("a"), CF("k")]), [("const", "k", ("value", "K")), ("link", "b", "k")])
    add("link-before-constant", A3, M("B", [CF("a"), CF("k")]), [("link", "b", "k"), ("const", "k", ("value", "K"))])
    add("function-model", A3, M("B", [CF("a"), CF("f", "any")]), [("func", f1, [], [], "f")])
    add("function-fields", A3, M("B", [CF("a"), CF("f", "any")]), [("func", f2, [], ["b", "c"], "f")])
    add("function-params", A3, M("B", [CF("a"), CF("f", "any")]), [("func", f2, ["x2"], ["c"], "f")], params=["x1", "x2"])
    add("unlinked-optional-allowed", A3, M("B", [CF("a"), CF("o", "t0", ("value", 7))]), [("allow_unlinked", "o")])
    add("unlinked-optional-allowed-all", A3, M("B", [CF("a"), CF("o", "t0", ("value", 7))]), [("allow_unlinked", None)])
    add("unlinked-optional-forbidden", A3, M("B", [CF("a"), CF("o", "t0", ("value", 7))]))
    add("unlinked-required", A3, M("B", [CF("a"), CF("zz")]))
    add("optional-but-linkable", A3, M("B", [CF("a"), CF("b", "t0", ("value", 7))]), [("allow_unlinked", None)])
    # the policy is per field: permitting one unlinked optional field says nothing about the next one
    two_opt = M("B", [CF("a"), CF("o1", "t0", ("value", 7)), CF("o2", "t0", ("value", 8))])
    add("unlinked-first-allowed-second-not", A3, two_opt, [("allow_unlinked", "o1")])
    add("unlinked-second-allowed-first-not", A3, two_opt, [("allow_unlinked", "o2")])
    add("unlinked-both-allowed", A3, two_opt, [("allow_unlinked", "o1"), ("allow_unlinked", "o2")])
    add("unlinked-regex-allowed", A3, two_opt, [("allow_unlinked", "o.")])
    # coercion
    At = M("A", [CF("a", "t1"), CF("b", "t1"), CF("c", "t0")])
    add("coercer", At, M("B", [CF("a", "t2"), CF("c")]), [("coercer", "t1", "t2", c1)])
    add("coercer-first-wins", At, M("B", [CF("a", "t2")]), [("coercer", "t1", "t2", c2), ("coercer", "t1", "t2", c1)])
    add("link-coercer-beats-coercer", At, M("B", [CF("a", "t2"), CF("b", "t2")]),
        [("coercer", "t1", "t2", c1), ("link", "a", "a", c2)])
    add("no-coercer", At, M("B", [CF("a", "t2")]))
    add("to-any", At, M("B", [CF("a", "any")]))
    add("coercer-on-param", At, M("B", [CF("a", "t2"), CF("x", "t2")]), [("coercer", "t1", "t2", c1)], params=[Param("x", "t1")])
    # extra parameters
    add("param-beats-field", A3, M("B", [CF("a"), CF("b")]), params=["b"])
    add("param-new-field", A3, M("B", [CF("a"), CF("x2"), CF("x1")]), params=["x1", "x2"])
    add("param-rightmost-first", A3, M("B", [CF("a"), CF("w")]), [("link", "x1|x2", "w")], params=["x1", "x2"])
    # a link predicate accepting BOTH a parameter and a field is left out: the property fixes the precedence of parameters only
    # for same-named default linking (the tutorial's "parameters are checked before the fields" is not what
    # MatchingLinkingProvider does: it prefers fields) — see DESIGN.md
    add("from-param-rename", A3, M("B", [CF("a"), CF("w")]), [("link", ("param", "x1"), "w")], params=["x1"])
    add("unused-param", A3, M("B", [CF("a")]), params=["x1"])
    # nested models
    AN = M("A", [CF("a"), CF("n", In)])
    add("nested", AN, M("B", [CF("a"), CF("n", InD)]), [("coercer", "t1", "t2", c1), ("link", "q", "r")])
    add("nested-same-model-as-is", M("A", [CF("n", InSame)]), M("B", [CF("n", InSame)]))
    add("nested-param-not-visible", AN, M("B", [CF("a"), CF("n", InD)]), [("coercer", "t1", "t2", c1)], params=["r"])
    add("nested-from-param", AN, M("B", [CF("a"), CF("n", InD)]), [("coercer", "t1", "t2", c1), ("link", ("param", "r"), "r")],
        params=["r"])
    add("nested-model-coercer", AN, M("B", [CF("a"), CF("n", InD)]), [("coercer", In, InD, c3)])
    Deep = M("Deep", [CF("m", In)])
    DeepD = M("DeepD", [CF("m", InD)])
    add("nested-twice", M("A", [CF("d", Deep)]), M("B", [CF("d", DeepD)]), [("coercer", "t1", "t2", c1), ("const", "r", ("value", 1))])
    # parameter kinds of the destination constructor
    add("kwonly-before-positional", A3, M("B", [CF("a"), CF("b", "t0", None, "kw_only"), CF("c")]))
    add("kwonly-mixed", M("A", [CF("a"), CF("b"), CF("c"), CF("d")]),
        M("B", [CF("d", "t0", None, "kw_only"), CF("a"), CF("c", "t0", None, "kw_only"), CF("b")]))
    add("skipped-optional-then-positional", A3, M("B", [CF("a"), CF("o", "t0", ("value", 1)), CF("c", "t0", ("value", 2))]),
        [("allow_unlinked", "o")])
    # from_param means the PARAMETER, also when the source model has a field of that name
    add("from-param-vs-same-named-field", M("A", [CF("a"), CF("r")]), M("B", [CF("a"), CF("w")]), [("link", ("param", "r"), "w")],
        params=["r"])
    add("from-param-vs-same-named-field-nested", M("A", [CF("a"), CF("n", M("In2", [CF("p", "t0"), CF("r", "t0")]))]),
        M("B", [CF("a"), CF("n", M("InD2", [CF("p", "t0"), CF("w", "t0")]))]), [("link", ("param", "r"), "w")], params=["r"])
    # call history on one retort (C11): an earlier request with another recipe, or a failed one, changes nothing
    add("history-plain-then-recipe", A3, M("B", [CF("a"), CF("w")]), [("link", "b", "w")], prior=[[("link", "c", "w")]])
    # a SUCCESSFUL plain request first (it fills the cache of the retort itself), then the same pair with a recipe that overrides the
    # default same-name linking: the per-call recipe must still win
    add("history-plain-ok-then-override", A3, M("B", [CF("a"), CF("b")]), [("link", "c", "b")], prior=[[]])
    add("history-recipe-then-plain", A3, M("B", [CF("a"), CF("b")]), [], prior=[[("link", "c", "b")]])
    add("history-failed-then-recipe", A3, M("B", [CF("a"), CF("w")]), [("link", "b", "w")], prior=[[]])
    add("history-recipe-then-refused", A3, M("B", [CF("a"), CF("w")]), [], prior=[[("link", "b", "w")]])
    add("history-constant-changes", A3, M("B", [CF("a"), CF("k")]), [("const", "k", ("value", 2))], prior=[[("const", "k", ("value", 1))]])
    add("param-default", A3, M("B", [CF("a"), CF("x", "any")]), params=[Param("x", "any", 5)])
    add("param-default-none", A3, M("B", [CF("a"), CF("x", "any"), CF("y", "any")]), params=[Param("x", "any"), Param("y", "any", None)])
    add("named", A3, M("B", [CF("a")]), fn_name="my_converter")
    add("impl-no-params", A3, M("B", [CF("a"), CF("b")]), via="impl_converter", fn_name="book_to_dto")
    return cases


def hostile_conv_family(tier="quick"):
    M = ModelSpec
    cases = []
    c1 = Stub("to_t2")

    def add(label, src, dst, recipe=(), params=(), via=None, **kw):
        via = via or ("impl_converter" if params else "get_converter")
        cases.append(ConvCase("hostile:" + label, src, dst, recipe, params, via=via, hostile=True, **kw))
    A3 = M("A", [CF("a"), CF("b"), CF("c")])
    B2 = M("B", [CF("a"), CF("b")])
    # names used inside the generated functions
    for pn in ("coercer", "data", "ctx", "src", "_closure_signature", "_stub_function", "_update_wrapper", "len", "tuple", "None_"):
        if pn != "src":
            add(f"param-{pn}", A3, M("B", [CF("a"), CF(pn)]), params=[pn])
        add(f"src-param-{pn}", A3, B2, via="impl_converter", src_param=pn)
    for fname in ("coercer", "data", "convert", "_closure_maker", "class", "my conv-1", "1st", "x'y", 'x"y', "a\nb", "g_coercer", "print"):
        add(f"name-{fname!r}", A3, B2, fn_name=fname)
    for fname in ("coercer", "data", "ctx", "B", "A", "_closure_signature", "_stub_function", "_update_wrapper"):
        add(f"impl-name-{fname}", A3, B2, via="impl_converter", fn_name=fname)
    for ids in (["data", "ctx", "coercer"], ["B", "A", "self"], ["len", "dict", "print"], ["class_", "from_", "ñ"],
                ["_closure_signature", "constructor", "_lambda"]):
        src = M("A", [CF(n, "t1") for n in ids])
        dst = M("B", [CF(n, "t2") for n in ids])
        add(f"fields-{ids[0]}", src, dst, [("coercer", "t1", "t2", c1)])
    # constants whose names collide through the prefix of captured globals
    foo, g_foo, g_g_foo = Stub("foo"), Stub("g_foo"), Stub("g_g_foo")
    add("functions-foo-g_foo", A3, M("B", [CF("a"), CF("y", "any"), CF("z", "any")]),
        [("func", foo, [], [], "y"), ("func", g_foo, [], [], "z")])
    add("functions-g_foo-foo-g_g_foo", A3, M("B", [CF("x", "any"), CF("y", "any"), CF("z", "any")]),
        [("func", g_foo, [], [], "x"), ("func", foo, [], [], "y"), ("func", g_g_foo, [], [], "z")])
    for fn in ("coercer", "data", "B", "fn", "print", "x y", "lambda", "class", "coerce_A_to_B", "_closure_signature"):
        add(f"function-named-{fn!r}", A3, M("B", [CF("a"), CF("y", "any")]), [("func", Stub(fn), [], ["b"], "y")])
    # model names
    for i, mn in enumerate(["x y", "a²b", 'M"; import os #', "1st", "a.b[c]", "M\nN", "class", "data", "coercer"]):
        add(f"model-name{i}", M(mn, [CF("a"), CF("n", M(mn + "In", [CF("p")]))]), M(mn, [CF("a"), CF("n", M(mn + "Out", [CF("p")]))]))
    # defaults of the stub's parameters are data as well
    for i, dv in enumerate([CodeRepr(), PlainObject(), "it's \"q\"", "line\nbreak", float("inf"), (CodeRepr(),), b"\x00'", Ellipsis]):
        add(f"param-default{i}", A3, M("B", [CF("a"), CF("x", "any")]), params=[Param("x", "any", dv)])
    # hostile constants
    for i, v in enumerate(["it's", 'say "hi"', "back\\slash", "{brace}", "${expr}", "line\nbreak", "'''", "\x00"]):
        add(f"constant{i}", A3, M("B", [CF("a"), CF("k")]), [("const", "k", ("value", v))])
    return cases
