"""Contracts for the Union / Optional loaders of morphing/generic_provider.py.

Documented rule: "Loader calls loader of each union case and returns a value of the first loader that does not raise
LoadError"; the property text: "returns the result of a case that accepts the datum and fails only if every case fails".
"""
from pyvc.contracts import LoopSpec, Via, contract

F = "morphing/generic_provider.py"
LS = "loaders"
NL = f"len({LS})"
SOME_OK = f"exists(lambda c: 0 <= c and c < {NL} and ok({LS}[c], data))"
FIRST_OK = (f"(0 <= {{c}} and {{c}} < {NL} and ok({LS}[{{c}}], data) and "
            f"forall(lambda j: implies(0 <= j and j < {{c}}, not ok({LS}[j], data))))")
POST = {
    "accept-iff": f"returned == {SOME_OK}",
    "value": f"implies(returned, exists(lambda c: {FIRST_OK.format(c='c')} and result == res({LS}[c], data)))",
    "raises-closed": "implies(raised, isinstance(exc, LoadError))",
}
# same error class in every mode (C06): the union node of the error tree is a UnionLoadError
ERR_CLASS = {"error-class": "implies(raised, type(exc) is UnionLoadError)"}
SUB = "exc.exceptions"
CASES = {
    "cases-len": f"implies(raised, len({SUB}) == {NL})",
    "cases": f"implies(raised, forall(lambda c: implies(0 <= c and c < {NL}, is_err({SUB}[c], {LS}[c], data) and trail_unchanged({SUB}[c]))))",
}
CP = {"accept-iff": ["C02", "C06", "C07"], "value": ["C02", "C06", "C01"], "raises-closed": ["C04"],
      "error-class": ["C06"], "cases-len": ["C05"], "cases": ["C05", "C06"], "modifies-nothing": ["C20"]}

NONE_OK = f"forall(lambda j: implies(0 <= j and j < _i, not ok(loader_iter[j], data)))"
LOOPS_DISABLE = {0: LoopSpec(inv=[NONE_OK])}
LOOPS_ERRS = {0: LoopSpec(inv=[NONE_OK, "len(errors) == _i",
                               "forall(lambda j: implies(0 <= j and j < _i, is_err(errors[j], loader_iter[j], data) and trail_unchanged(errors[j])))"])}
LOOPS_ALL = {0: LoopSpec(inv=LOOPS_ERRS[0].inv + ["has_unexpected_error == False"])}

contract(F, "UnionProvider._get_loader_dt_disable.<locals>.union_loader", props=["C01", "C02", "C04", "C06", "C07", "C20"],
         via=Via("UnionProvider._get_loader_dt_disable", {"": lambda m: m.UnionProvider()}, args={"loaders": "seq:LD"}),
         params={"data": "D"}, post={**POST, **ERR_CLASS}, loops=LOOPS_DISABLE, clause_props=CP,
         cover=["returned", "raised"])
contract(F, "UnionProvider._get_loader_dt_first.<locals>.union_loader_dt_first",
         props=["C01", "C02", "C04", "C05", "C06", "C07", "C20"],
         via=Via("UnionProvider._get_loader_dt_first", {"": lambda m: m.UnionProvider()}, args={"tp": "sym", "loaders": "seq:LD"}),
         params={"data": "D"}, post={**POST, **ERR_CLASS, **CASES}, loops=LOOPS_ERRS, clause_props=CP,
         cover=["returned", "raised"])
contract(F, "UnionProvider._get_loader_dt_all.<locals>.union_loader_dt_all",
         props=["C01", "C02", "C04", "C05", "C06", "C07", "C20"],
         via=Via("UnionProvider._get_loader_dt_all", {"": lambda m: m.UnionProvider()}, args={"tp": "sym", "loaders": "seq:LD"}),
         params={"data": "D"}, post={**POST, **ERR_CLASS, **CASES}, loops=LOOPS_ALL, clause_props=CP,
         cover=["returned", "raised"])

# ---- Optional[T] with a single non-None case
OPT = {
    "accept-iff": "returned == (data is None or ok(loader, data))",
    "value": "implies(returned, ite(data is None, result is None, result == res(loader, data)))",
    "raises-closed": "implies(raised, isinstance(exc, LoadError))",
}
contract(F, "UnionProvider._single_optional_dt_disable_loader.<locals>.optional_dt_disable_loader",
         props=["C01", "C02", "C04", "C05", "C06", "C07", "C20"],
         via=Via("UnionProvider._single_optional_dt_disable_loader", {"": lambda m: m.UnionProvider()}, args={"loader": "LD"}),
         params={"data": "D"}, clause_props=CP,
         post={**OPT, "error": "implies(raised, is_err(exc, loader, data) and trail_unchanged(exc))"},
         cover=["returned", "raised"])
contract(F, "UnionProvider._single_optional_dt_loader.<locals>.optional_dt_loader",
         props=["C01", "C02", "C04", "C05", "C06", "C07", "C20"],
         via=Via("UnionProvider._single_optional_dt_loader", {"": lambda m: m.UnionProvider()}, args={"tp": "sym", "loader": "LD"}),
         params={"data": "D"}, clause_props={**CP, "error": ["C05", "C06"]},
         post={**OPT, "error-class": "implies(raised, type(exc) is UnionLoadError)",
               "error": (f"implies(raised, len({SUB}) == 2 and type({SUB}[0]) is TypeLoadError and {SUB}[0].input_value is data "
                         f"and is_err({SUB}[1], loader, data) and trail_unchanged({SUB}[1]))")},
         cover=["returned", "raised"])


# ---- C06 with user-supplied case loaders that may raise *any* exception ("for any type, recipe and input") -------
# mode-independent rule: case c answers iff it accepts and every earlier case declined with a LoadError; a non-LoadError
# of an earlier case is not swallowed in any mode.
PRIOR_LE = "forall(lambda j: implies(0 <= j and j < {c}, not ok(loaders[j], data) and issub(errcls(loaders[j], data), LoadError)))"
ANY_POST = {
    "accept-iff": (f"returned == exists(lambda c: 0 <= c and c < {NL} and ok({LS}[c], data) and {PRIOR_LE.format(c='c')})"),
    "value": (f"implies(returned, exists(lambda c: 0 <= c and c < {NL} and ok({LS}[c], data) and {PRIOR_LE.format(c='c')} "
              f"and result == res({LS}[c], data)))"),
}
ANY_CP = {"accept-iff": ["C06"], "value": ["C06"], "modifies-nothing": ["C20"]}
PRIOR_INV = "forall(lambda j: implies(0 <= j and j < _i, not ok(loader_iter[j], data) and issub(errcls(loader_iter[j], data), LoadError)))"
contract(F, "UnionProvider._get_loader_dt_disable.<locals>.union_loader", name=F + ":union_loader[any-exception]",
         props=["C06"], via=Via("UnionProvider._get_loader_dt_disable", {"": lambda m: m.UnionProvider()}, args={"loaders": "seq:ANY"}),
         params={"data": "D"}, post=ANY_POST, loops={0: LoopSpec(inv=[PRIOR_INV])}, clause_props=ANY_CP, cover=["returned", "raised"])
contract(F, "UnionProvider._get_loader_dt_first.<locals>.union_loader_dt_first", name=F + ":union_loader_dt_first[any-exception]",
         props=["C06"], via=Via("UnionProvider._get_loader_dt_first", {"": lambda m: m.UnionProvider()}, args={"tp": "sym", "loaders": "seq:ANY"}),
         params={"data": "D"}, post=ANY_POST, loops={0: LoopSpec(inv=[PRIOR_INV])}, clause_props=ANY_CP, cover=["returned", "raised"])
# ALL: an unexpected error does not stop the scan, but nothing is returned after it
ALL_INV = ("has_unexpected_error == exists(lambda j: 0 <= j and j < _i and not ok(loader_iter[j], data) and "
           "not issub(errcls(loader_iter[j], data), LoadError))")
contract(F, "UnionProvider._get_loader_dt_all.<locals>.union_loader_dt_all", name=F + ":union_loader_dt_all[any-exception]",
         props=["C06"], via=Via("UnionProvider._get_loader_dt_all", {"": lambda m: m.UnionProvider()}, args={"tp": "sym", "loaders": "seq:ANY"}),
         params={"data": "D"}, post=ANY_POST,
         loops={0: LoopSpec(inv=[ALL_INV, "forall(lambda c: implies(0 <= c and c < _i and ok(loader_iter[c], data), exists(lambda j: 0 <= j and j < c and "
                                 "not ok(loader_iter[j], data) and not issub(errcls(loader_iter[j], data), LoadError))))"])},
         clause_props=ANY_CP, cover=["returned", "raised"])


# ================================================================================================ dumpers
# documented (specific-types-behavior.rst, Union): "Dumper finds appropriate dumper using object type ... for objects of types that are
# not listed in the union, but which are a subclass of some union case, the base class dumper is used. If there are several parents, it
# will be the selected class that appears first in .mro() list."  The choice by class is ClassDispatcher.dispatch (proved: first in MRO,
# contracts/datastructures.py); here: the union dumper asks exactly that dispatcher with exactly type(data) and applies what it returns.
class _Base:
    pass


class _Mid(_Base):
    pass


class _Leaf(_Mid):
    pass


class _Other:
    pass


def _union_dumper_scenarios(kind):
    def gen(mod):
        from adaptix._internal.datastructures import ClassDispatcher
        out = []
        for cases in ([_Base, _Mid], [_Mid, _Base], [_Base], [_Base, _Other]):
            for obj_cls in (_Base, _Mid, _Leaf, _Other):
                def factory(cases=cases, obj_cls=obj_cls):
                    disp = ClassDispatcher({c: (lambda d, c=c: ("dumped-as", c.__name__)) for c in cases})
                    prov = mod.UnionProvider()
                    if kind == "plain":
                        clo = prov._produce_dumper(disp)
                    else:
                        clo = prov._produce_dumper_for_literal(disp, (lambda d: ("literal", d)), ("lit", 7))
                    data = obj_cls()
                    return (lambda data: clo(data)), {"data": data}, {
                        "dumper_type_dispatcher": disp, "res": lambda f, d: f(d), "mcall": lambda name, o, *a: getattr(o, name)(*a),
                        "mok": lambda name, o, *a: _ok(getattr(o, name), *a),
                        "literal_cases": ("lit", 7), "literal_dumper": (lambda d: ("literal", d)), "ok": lambda f, d: _ok(f, d)}
                out.append((f"cases={[c.__name__ for c in cases]}|{obj_cls.__name__}", factory))
        if kind != "plain":
            # data that EQUAL a literal case without being one (another class with a case of its own), and real members
            import decimal
            import fractions
            for lits in ((0, 1, "zz"), (7, "A")):
                for mk in (lambda: decimal.Decimal(1), lambda: 1.0, lambda: True, lambda: fractions.Fraction(7), lambda: 1, lambda: 7,
                           lambda: "zz", lambda: "A", lambda: [1], lambda: 2, lambda: decimal.Decimal("sNaN"), lambda: (1,)):
                    def factory(lits=lits, mk=mk):
                        data = mk()
                        disp = ClassDispatcher({c: (lambda d, c=c: ("dumped-as", c.__name__)) for c in
                                                (decimal.Decimal, float, bool, fractions.Fraction, list)})
                        lit_dumper = lambda d: ("literal", d)  # noqa: E731
                        clo = mod.UnionProvider()._produce_dumper_for_literal(disp, lit_dumper, lits)
                        return (lambda data: clo(data)), {"data": data}, {
                            "dumper_type_dispatcher": disp, "literal_dumper": lit_dumper, "literal_cases": lits,
                            "res": lambda f, d: f(d), "mcall": lambda name, o, *a: getattr(o, name)(*a),
                            "mok": lambda name, o, *a: _ok(getattr(o, name), *a), "ok": lambda f, d: _ok(f, d)}
                    out.append((f"literals={lits!r}|{mk()!r}", factory))
        return out
    return gen


def _ok(f, *a):
    try:
        f(*a)
        return True
    except Exception:  # noqa: BLE001
        return False


DISPATCHED = "mcall('dispatch', dumper_type_dispatcher, type(data))"
contract(F, "UnionProvider._produce_dumper.<locals>.union_dumper", props=["C02", "C01", "C20"],
         via=Via("UnionProvider._produce_dumper", {"": lambda m: m.UnionProvider()}, args={"dumper_type_dispatcher": "sym"}),
         params={"data": "D"}, methods={"dispatch": "VAL_OR_RAISE"}, decl_disciplines={"mcall_dispatch": "DUMP"},
         post={"dispatch-by-class": f"implies(returned, result == res({DISPATCHED}, data))",
               "asks-the-dispatcher-once": "mcalls('dispatch') == 1",
               "no-case-no-result": f"implies(not mok('dispatch', dumper_type_dispatcher, type(data)), raised)"},
         clause_props={"dispatch-by-class": ["C02", "C01"], "asks-the-dispatcher-once": ["C02"], "no-case-no-result": ["C02"],
                       "modifies-nothing": ["C20"]},
         scenarios=_union_dumper_scenarios("plain"), cover=["returned", "raised"])

contract(F, "UnionProvider._get_single_optional_dumper.<locals>.optional_dumper", props=["C02", "C01", "C06", "C20"],
         via=Via("UnionProvider._get_single_optional_dumper", {"": lambda m: m.UnionProvider()}, args={"dumper": "DUMP"}),
         params={"data": "D"},
         post={"accept-iff": "returned == (data is None or ok(dumper, data))",
               "value": "implies(returned, ite(data is None, result is None, result == res(dumper, data)))",
               "error": "implies(raised, is_err(exc, dumper, data) and trail_unchanged(exc))"},
         clause_props={"accept-iff": ["C02", "C06"], "value": ["C02", "C01", "C06"], "error": ["C05", "C06"], "modifies-nothing": ["C20"]},
         cover=["returned", "raised"])


# A union with a Literal case: "Dumper finds appropriate dumper using object type" still holds — only a datum that IS one of the literal
# values (same class and equal) belongs to the Literal case; a datum of a class that has a case of its own is dumped by that case even
# when it compares equal to a literal of another class (Decimal(200) vs Literal[200], a str-mixin Enum member vs Literal["a"]).
IS_LITERAL = "py(lambda d, cs: any(type(d) is type(c) and ctor_ok(lambda: d == c) and d == c for c in cs), data, literal_cases)"
NO_LITERAL_OF_ITS_CLASS = "py(lambda d, cs: all(type(d) is not type(c) for c in cs), data, literal_cases)"
for _lab, _lits in [("int01-str", (0, 1, "zz")), ("int7-str", (7, "A"))]:
    contract(F, "UnionProvider._produce_dumper_for_literal.<locals>.union_dumper_with_literal",
             name=f"{F}:UnionProvider._produce_dumper_for_literal.<locals>.union_dumper_with_literal[{_lab}]", props=["C02", "C01", "C20"],
             via=Via("UnionProvider._produce_dumper_for_literal", {_lab: lambda m: m.UnionProvider()},
                     args={"dumper_type_dispatcher": "sym", "literal_dumper": "DUMP", "literal_cases": ("const", _lits)}),
             params={"data": "D"}, methods={"dispatch": "VAL_OR_RAISE"}, decl_disciplines={"mcall_dispatch": "DUMP"},
             post={"literal-member-by-literal-dumper": f"implies(returned and {IS_LITERAL}, result == res(literal_dumper, data))",
                   "other-classes-by-class": (f"implies(returned and {NO_LITERAL_OF_ITS_CLASS} and mok('dispatch', dumper_type_dispatcher, type(data)), "
                                              f"result == res({DISPATCHED}, data))"),
                   # an error is the error of the dumper in charge, or there is no case for the class of the datum
                   "raises-only-what-a-dumper-raises": (f"implies(raised, ite({IS_LITERAL}, not ok(literal_dumper, data), "
                                                        f"not mok('dispatch', dumper_type_dispatcher, type(data)) or not ok({DISPATCHED}, data) "
                                                        f"or not ok(literal_dumper, data)))")},
             clause_props={"literal-member-by-literal-dumper": ["C02", "C01"], "other-classes-by-class": ["C02"],
                           "raises-only-what-a-dumper-raises": ["C02"], "modifies-nothing": ["C20"]},
             scenarios=_union_dumper_scenarios("literal"), cover=["returned", "raised"])
